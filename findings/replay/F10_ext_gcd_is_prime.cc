#include <cstddef>
#include <cassert>
#include <cmath>
#include <stdexcept>
#include <iostream>
#include <parmcb/fp.hpp>
int main(){ long a=-5,b=0,x=99,y=99; long g=parmcb::fp<long>::ext_gcd(a,b,x,y); std::cout<<"ext_gcd(-5,0): g="<<g<<" x="<<x<<" y="<<y<<"  (-5)*x+0*y="<<(-5*x+0*y)<<"\n";
 long a2=5,b2=0; x=y=99; g=parmcb::fp<long>::ext_gcd(a2,b2,x,y); std::cout<<"ext_gcd(5,0): g="<<g<<" x="<<x<<"\n";
 long a3=0,b3=-7; x=y=99; g=parmcb::fp<long>::ext_gcd(a3,b3,x,y); std::cout<<"ext_gcd(0,-7): g="<<g<<" y="<<y<<"  0*x+(-7)*y="<<(-7*y)<<"\n";
 std::cout<<"is_prime(2)="<<parmcb::primes<long>::is_prime(2)<<" is_prime(3)="<<parmcb::primes<long>::is_prime(3)<<" is_prime(4)="<<parmcb::primes<long>::is_prime(4)<<" is_prime(9)="<<parmcb::primes<long>::is_prime(9)<<" is_prime(25)="<<parmcb::primes<long>::is_prime(25)<<"\n"; }
