#include <iostream>
#include <list>
#include <random>
#include <algorithm>
#include <boost/graph/adjacency_list.hpp>
#include <boost/mpi/environment.hpp>
#include <boost/mpi/communicator.hpp>
#include <parmcb/parmcb.hpp>
#include <parmcb/mpi/parmcb.hpp>
#include <boost/mpi/collectives.hpp>
using namespace boost;
typedef adjacency_list<vecS, vecS, undirectedS, no_property, property<edge_weight_t, double> > Graph;
typedef graph_traits<Graph>::edge_descriptor Edge;
static void scramble_heap(unsigned seed){ std::mt19937 rng(seed); std::vector<void*> p; for(int i=0;i<400;i++) p.push_back(::operator new(40)); std::shuffle(p.begin(),p.end(),rng); for(size_t i=0;i<p.size();i++) if(i%3) ::operator delete(p[i]); }
int main(int argc,char**argv){
  boost::mpi::environment env(argc, argv, boost::mpi::threading::multiple); boost::mpi::communicator world;
  int bad=0, total=0, nsame=0, badsame=0;
  for(unsigned seed=1; seed<=120; seed++){
    std::mt19937 rng(seed); int n=10, m=18;
    std::vector<std::pair<int,int>> es; std::set<std::pair<int,int>> seen;
    while((int)es.size()<m){ int a=rng()%n,b=rng()%n; if(a==b) continue; if(a>b) std::swap(a,b); if(seen.insert({a,b}).second) es.push_back({a,b}); }
    std::vector<double> ws; for(int i=0;i<m;i++) ws.push_back(1+rng()%8);
    if(world.rank()!=0 && !getenv("NOSCR")) scramble_heap(seed*77+world.rank());
    Graph g(n); auto w=get(edge_weight,g);
    for(int i=0;i<m;i++){ auto e=add_edge(es[i].first,es[i].second,g).first; w[e]=ws[i]; }
    std::vector<Edge> ev; for(auto e: make_iterator_range(edges(g))) ev.push_back(e);
    std::vector<int> perm(m); for(int i=0;i<m;i++) perm[i]=i; std::sort(perm.begin(),perm.end(),[&](int a,int b){return ev[a]<ev[b];});
    std::vector<std::vector<int>> allperm; boost::mpi::gather(world, perm, allperm, 0);
    bool same=true; if(world.rank()==0) for(auto&p:allperm) if(p!=allperm[0]) same=false;
    std::list<std::list<Edge>> cycles;
    double r=parmcb::mcb_sva_signed_mpi(g,w,std::back_inserter(cycles),world); std::list<std::list<Edge>> c3,c4; double rf=parmcb::mcb_sva_fvs_trees_mpi(g,w,std::back_inserter(c3),world); double ri=parmcb::mcb_sva_iso_trees_tbb_mpi(g,w,std::back_inserter(c4),world);
    { std::list<std::list<Edge>> c2; double s=parmcb::mcb_sva_signed(g,w,std::back_inserter(c2)); total++;
      bool okc=true; for(auto&c:cycles) if(!parmcb::is_cycle(g,c)) okc=false;
      if(world.rank()==0 && same) nsame++; if(world.rank()==0 && same && r!=s) badsame++; if(world.rank()==0 && (r!=s||rf!=s||ri!=s||!okc)){ bad++; std::cout<<"seed "<<seed<<": fvs_mpi="<<rf<<" iso_mpi="<<ri<<" signed_mpi="<<r<<" seq="<<s<<" same_ptr_order="<<same<<" cycles_ok="<<okc<<" ncycles="<<cycles.size()<<"/"<<c2.size()<<"\n"; } }
  }
  if(world.rank()==0) std::cout<<"bad="<<bad<<" of "<<total<<"; same-order cases="<<nsame<<" bad among them="<<badsame<<std::endl;
}
