#include <parmcb/util.hpp>
#include <iostream>
int main(){ std::size_t before = oneapi::tbb::global_control::active_value(oneapi::tbb::global_control::max_allowed_parallelism);
 parmcb::set_global_tbb_concurrency(2);
 std::cout<<before<<" -> "<<oneapi::tbb::global_control::active_value(oneapi::tbb::global_control::max_allowed_parallelism)<<"\n";}
