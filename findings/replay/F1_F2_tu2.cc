#include <parmcb/parmcb.hpp>
int f(); int main(){return f()-1;}
