#include <parmcb/util.hpp>
#include <iostream>
using namespace boost;
typedef adjacency_list<vecS, vecS, undirectedS, no_property, property<edge_weight_t, double> > G;
int main(int c,char**v){ G g; FILE*fp=fopen(v[1],"r"); parmcb::read_dimacs_from_file(fp,g); fclose(fp); auto w=get(edge_weight,g); for(auto e: make_iterator_range(edges(g))) std::cout<<e<<" "<<w[e]<<"\n";}
