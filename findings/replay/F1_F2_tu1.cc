#include <parmcb/parmcb.hpp>
int f(){return 1;}
