#include <iostream>
#include <list>
#include <random>
#include <boost/graph/adjacency_list.hpp>
#include <parmcb/parmcb.hpp>
using namespace boost;
typedef adjacency_list<vecS, vecS, undirectedS, no_property, property<edge_weight_t, double> > Graph;
typedef graph_traits<Graph>::edge_descriptor Edge;
int main(){
  int bad=0,total=0;
  for(unsigned seed=1; seed<=300; seed++){
    std::mt19937 rng(seed); int n=4+rng()%9; int maxm=n*(n-1)/2; int m=std::min(maxm,(int)(n-1+rng()%(2*n)));
    std::vector<std::pair<int,int>> es; std::set<std::pair<int,int>> seen;
    while((int)es.size()<m){ int a=rng()%n,b=rng()%n; if(a==b) continue; if(a>b) std::swap(a,b); if(seen.insert({a,b}).second) es.push_back({a,b}); }
    Graph g(n); auto w=get(edge_weight,g);
    for(int i=0;i<m;i++){ auto e=add_edge(es[i].first,es[i].second,g).first; w[e]=1+rng()%9; }
    std::list<std::list<Edge>> c0; double opt=parmcb::mcb_sva_signed(g,w,std::back_inserter(c0));
    for(std::size_t k=1;k<=3;k++) for(int alg=0;alg<6;alg++){
      std::list<std::list<Edge>> c; double r;
      switch(alg){case 0: r=parmcb::approx_mcb_sva_signed(g,w,k,std::back_inserter(c)); break; case 1: r=parmcb::approx_mcb_sva_fvs_trees(g,w,k,std::back_inserter(c)); break; case 2: r=parmcb::approx_mcb_sva_iso_trees(g,w,k,std::back_inserter(c)); break;
        case 3: r=parmcb::approx_mcb_sva_signed_tbb(g,w,k,std::back_inserter(c)); break; case 4: r=parmcb::approx_mcb_sva_fvs_trees_tbb(g,w,k,std::back_inserter(c)); break; default: r=parmcb::approx_mcb_sva_iso_trees_tbb(g,w,k,std::back_inserter(c)); }
      double sum=0; bool ok=c.size()==c0.size(); for(auto&cy:c){ if(!parmcb::is_cycle(g,cy)) ok=false; for(auto&e:cy) sum+=w[e]; }
      total++; if(!ok || sum!=r || r<opt || r>(2*k-1)*opt || (k==1&&r!=opt)){ bad++; if(bad<10) std::cout<<"seed "<<seed<<" k="<<k<<" alg="<<alg<<" r="<<r<<" sum="<<sum<<" opt="<<opt<<" ok="<<ok<<" n="<<c.size()<<"/"<<c0.size()<<"\n"; }
    }
  }
  std::cout<<"bad="<<bad<<" of "<<total<<"\n";
}
