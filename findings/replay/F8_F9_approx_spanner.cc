#include <iostream>
#include <list>
#include <boost/graph/adjacency_list.hpp>
#include <parmcb/parmcb_approx_sva_signed.hpp>
#include <parmcb/parmcb_approx_sva_trees.hpp>
using namespace boost;
typedef adjacency_list<vecS, vecS, undirectedS, no_property, property<edge_weight_t, double> > Graph;
typedef graph_traits<Graph>::edge_descriptor Edge;
int main(){
  Graph g(4); auto w=get(edge_weight,g);
  int k=0; for(int i=0;i<4;i++)for(int j=i+1;j<4;j++){auto e=add_edge(i,j,g).first; w[e]=1.0+ (k++);}
  for(std::size_t kk=1;kk<=2;kk++){
  std::list<std::list<Edge>> cycles;
  double r=parmcb::approx_mcb_sva_signed(g,w,kk,std::back_inserter(cycles));
  std::cout<<"k="<<kk<<" returned "<<r<<" cycles="<<cycles.size()<<"\n";
  double tot=0; for(auto&c:cycles){ for(auto&e:c){ std::cout<<e<<":"<<w[e]<<" "; tot+=w[e];} std::cout<<"\n";}
  std::cout<<"sum via caller map="<<tot<<"\n";}
}
