#!/bin/sh
# builds the libTooling extractor from files on disk only (offline)
set -e
cd "$(dirname "$0")"
mkdir -p build evidence/replay
clang++ $(llvm-config-14 --cxxflags) -fno-rtti -O1 sa/parmcb-sa.cc -o build/parmcb-sa \
    /usr/lib/llvm-14/lib/libclang-cpp.so.14 /usr/lib/llvm-14/lib/libLLVM-14.so
echo "built build/parmcb-sa"
