#!/usr/bin/env python3
"""Regenerates MANIFEST.json from the table below (keeps it valid and in step with the rule modules)."""
import json, os
HERE = os.path.dirname(os.path.abspath(__file__))

CLAIMED = {
 'C14': dict(
   text='PARTIAL. That each collection contains a minimum basis is value-level and not claimed. Decided: every construction site of a CandidateCycle / SerializableCandidateCycle is reached only when the edge is not a predecessor edge of the tree, both endpoints have tree nodes and their first-in-path labels differ (exact path condition, truth table) - with a tree-shaped predecessor structure this makes the candidate a simple cycle through the root; the recorded weight is W[e] + weight(node(source e)) + weight(node(target e)) for that same edge and tree; the root node has weight zero; every visited tree node including the root gets a first-in-path label; the FVS collection is create_candidate_cycles() of trees rooted exactly at the greedy_fvs output and the isometric collection re-emits only (tree, edge) pairs read back from guarded Horton candidates (sub-collections by provenance); the lexicographic comparator behind the trees is consistent per rung. The id given to every shortest-path tree equals the position it gets in its container (trees.size() at insertion, a counter advanced exactly with every insertion, or the vertex index when a tree is inserted for every vertex), because every consumer indexes the container with cc.tree(); the reference members of the tree classes are initialised from reference parameters.',
   note='Assumes lex_dijkstra yields a shortest-path tree with exact distances (C12, value-level).',
   technique='exact CFG path conditions with truth tables over guard atoms, term-set comparison of the weight expression, provenance tracing, definite-labelling rule',
   ref='DESIGN.md §4 C14'),
 'C18': dict(
   text='PARTIAL. Numeric values of gcds/inverses and primality by trial division are value-level and not claimed. Decided: in ext_gcd a path-sensitive abstract interpretation of the bool locals (contents "a<0", "b<0", true, false; std::swap and copies tracked; branches on known flags pruned) shows that every sign selector flowing into the coefficient of a holds "a was negative" and likewise for b, on every path; a symbolic interval analysis with bounds linear in p (sum, product, % p, the two normalisation while-loops or a single conditional subtraction, v != 0 guards) shows that every value pushed into an SpVecFP lies in [1, p-1]; operator+ and the dot product have the merge action tables of index-wise addition / inner product with both tails; compound operators are alias-safe and copy operations member-wise; a constant-divisor shortcut in is_prime never calls the divisor itself composite; get_mult_inverse throws unless the gcd is 1 and returns the coefficient of its first argument. The trial-division loop condition, folded with t := q and p := q*q, must hold for odd primes q (the bound includes the square root).',
   note='Induction hypothesis: stored entries are in [1,p-1] and both operands share p >= 2; % truncates toward zero. Multiprecision instantiations are covered only in so far as they instantiate the same templates.',
   technique='path-sensitive abstract interpretation over a finite flag domain; symbolic interval analysis (bounds c + k*p); merge-loop action tables',
   ref='DESIGN.md §4 C18'),
 'C16': dict(
   text='PARTIAL. That the BFS forest is spanning and acyclic is value-level and not claimed. Decided: create_index makes exactly one pass over boost::edges(g) in which each arm stores index[e] = c and reverse_index[c] = e for the same edge and counter and then increments that counter once, one arm per counter, the counters start at 0 and at num_edges - num_vertices + components (linear-form normalisation through the class\'s field definitions), the arm is selected by membership in the forest set with the right polarity, no index is handed out while iterating an address-ordered set; cycle_space_dimension / weak_connected_components / is_on_forest / both operator() have the required normal forms; spanning_forest returns 0 early only when there are no vertices (abstract evaluation of the guard) and otherwise a counter incremented exactly once per component-loop iteration; the hand-written copy constructor and assignment copy every data member. An early return in front of the numbering pass may only fire for an edgeless graph; every emission site of spanning_forest is reached only for a still unreached far endpoint, which is marked and queued in the same block.',
   note='Together these give the bijection and the "off-forest edges first" numbering for whatever edge set spanning_forest reports; the forest property of that set is assumed.',
   technique='per-path pairing on the CFG, linear-form normalisation, truth table of the arm guard, abstract evaluation of early-return guards, member-wise copy rule',
   ref='DESIGN.md §4 C16'),
 'C04': dict(
   text='Decides the communication shape of the three library functions that execute collectives: both arms of every rank-conditioned branch run the same ordered sequence of collectives (name, root), every other branch or loop that decides whether a collective runs has a condition free of rank-dependent data (rank atoms, out-arguments of root-only collectives, their derivations), no exit depends on the rank, and in each phase the support vector is the argument of a broadcast on every path before it is used. The rank slices are evaluated abstractly (constant folding of the stride/start/end expressions in their C++ arithmetic) for 9 totals x 9 communicator sizes and must be an exact partition of 0..total-1; a sliced sequence whose order comes from a std::set<Edge> (address order) must be sorted by forest index first, and ForestIndex itself must not number edges while iterating such a set; serialize() archives every member once, is_mpi_datatype types are arithmetic-only, the MPI reduction operator is a minimum with not-found as identity, only rank 0 emits. Optimality of the result inherits the limits of C01/C02. Inside a rank slice no state is carried from one index to the next and read there (its value would depend on where the slice starts).',
   note='Assumes identical graph contents on all ranks and boost::mpi collective semantics. Rank-invariance is a flow-insensitive taint argument; data merely written under a rank-conditioned branch is covered by the broadcast-before-use obligation instead.',
   technique='collective-sequence matching + rank taint on the AST/CFG; abstract evaluation of slice bounds over a finite grid; address-order taint with a sort sanitiser; truth table of the reduction operator',
   ref='DESIGN.md §3 A7/A8, §4 C04'),
 'C01': dict(
   text='PARTIAL. That each emitted set is a simple cycle and that the family is independent depends on the searches on concrete graphs and is not claimed. Decided are necessary conditions visible in the five sibling implementations of the de Pina phase loop (sequential signed, trees, TBB, two MPI): one unconditional emission per phase k = 0..csd-1; the update `for l in k+1..csd: if (support[l]*C == 1) support[l] += support[k]` with C and the emitted list derived from the same search result and the search driven by support[k] read after the sparsest-support swap; a failed set<Edge>::insert during unfolding can never reach a success return (path-sensitive flag propagation); root-only emission under MPI; every visited tree node (root included) gets the first-in-path label the candidate guards compare; SpVecGF2 operator+/* are merges with the right action table, strict shortcut guards and alias-safe +=. Also decided: parity propagation is an exclusive-or with "edge is signed" in SPTree::update_parities (which must run its traversal on every call: no exit in front of it except for an empty tree), in the bidirectional signed search and in the odd-candidate test; a search result is adopted as the phase\'s cycle only when the search reported success.',
   note='Breaking any of these breaks count, independence or simplicity on some input; holding them does not establish the property. The search functions are trusted to return (cycle, weight, found) triples.',
   technique='sibling cross-check of loop structure via linear forms, provenance tracing and exact CFG path conditions; flag-propagating reachability; merge-loop action tables',
   ref='DESIGN.md §4 C01'),
 'C02': dict(
   text='PARTIAL. Minimality of each phase (stopping rule, pruning, tie-breaking, candidate sufficiency) is value-level and not claimed. Decided: the returned accumulator starts at zero and is increased exactly once per phase, under the same conditions as the emission, by the weight component of the very triple whose cycle is emitted; while a cycle is assembled every inserted edge has its own weight added and vice versa; every running-best update has the path condition found(x) & (!found(best) | less(w(x), w(best))) (truth table over all update sites of a loop); a first-found lookup is only built over a candidate vector sorted ascending on every path; pruning limits are (found, weight) of one running best; the hidden-edge heuristic erases on every iteration; lexicographic comparators are consistent per rung. Also decided: the relaxation contract of every label store in the four search routines, the pruning rule of the bidirectional search (break only with an empty frontier or when the sum of the two frontier minima, taken from different frontiers, is not below the best meeting point), and weight comparators evaluated over the orderings of the two weights (a difference narrowed to an integer is reported as lossy).',
   note='These are the bookkeeping clauses of "value returned = sum of emitted weights" and the necessary selection contract for "minimum"; optimality itself is not established.',
   technique='finite predicate abstraction (truth tables) on exact CFG path conditions; provenance tracing; dominance; per-iteration post-dominance',
   ref='DESIGN.md §4 C02'),
 'C17': dict(
   text='operator+ and both operator* of SpVecGF2 are recognised as two-cursor merge loops and their per-ordering action tables (a<b, a==b, a>b) are compared with the tables of symmetric difference / parity of the intersection, including the two tail loops, the accumulator toggle and its initial value; any shortcut in front of the merge must concatenate the operands only under a guard that excludes max(first) >= min(second); every source of the coordinate list is canonical (unit ctor, std::set ctor with default comparator, member-wise copy/move/assignment, forwarding accessors); compound operators do not touch their own storage before reading an argument that may alias it. Together with the (pen-and-paper) meta-theorem about such merge tables this decides canonical form for every history of the listed operations. Three-way comparisons through a stored difference are evaluated by the signedness and width of the variable (a difference narrowed to int is reported); a look-up shortcut in front of the dot-product merge must return the count modulo 2 or toggle.',
   note='Meta-theorem recorded in sa/rules/c17.py; an implementation outside the merge/std-algorithm idioms is reported as undecided (exit 2), never as a pass. add() is outside the operation list.',
   technique='merge-loop action tables (A9) + truth tables over orderings for shortcut guards + aliasing rule via effect analysis',
   ref='DESIGN.md §4 C17'),
 'C03': dict(
   text='For each of the 12 tbb::parallel_for / parallel_reduce call sites of the library (all specialisations of the generic-lambda bodies) an effect analysis classifies every write of the task body as W-local, W-concurrent (growth of a tbb::concurrent_* container) or W-own-index (v[i] with i the induction variable of the task\'s own blocked_range, every other access to v being v[i] or a read v[j] with j proved outside the whole parallel range by linear-form subtraction); anything else, and any static-storage write in a transitive callee, is a race. For parallel_reduce the identity, the join (truth table over found flags and weight orderings: a minimum that treats not-found as identity) and the body (returns its accumulator, updates it only under found(x) & (!found(acc) | less)) are decided exactly. These are the schedule-independent clauses; "delivers the sequential contract" beyond them inherits the limits of C01/C02. Also decided: schedule independence of the per-index work (no local carried between the iterations of the sub-range loop and read there; no read of a shared atomic).',
   note='Assumes disjoint node ownership of distinct SPTree objects, TBB\'s documented concurrency guarantees for concurrent_vector growth, and that non-repo callees do not modify const-reference arguments.',
   technique='parallel-body effect analysis (access paths, own-index proof by linear forms) + finite predicate abstraction (truth tables) of join/body on exact CFG path conditions',
   ref='DESIGN.md §3 A6/A3, §4 C03'),
 'C07': dict(
   text='Decides five named UB shapes on the resolved program, each a genuine way the property fails: internal spanner descriptors escaping to the caller (world inference), reference members bound to dying non-empty temporaries at every direct/emplace/make_shared construction site, NUL stores into the fgets buffer that can hit buffer[-1] and unbounded %s conversions, dereference of end(), and unchecked v[i] in blocked_range task bodies whose range bound is not tied to the container size. General absence of out-of-bounds accesses, overflow, leaks and uninitialised reads is NOT claimed: no sound static argument in reach bounds the indices and integer ranges of the Dijkstra/heap/BFS loops. A reference member initialised from a by-value constructor parameter of non-empty type is reported (dangling after the constructor returns); the optional DIMACS weight must be initialised before the sscanf (no read of an indeterminate double).',
   note='Partial by design; temporaries of empty classes bound to reference members are reported as info only (no execution can observe them).',
   technique='escape analysis via world inference; lifetime rule over construction sites; guarded-store rule on the CFG; container/range agreement with inter-procedural fill-site tracing',
   ref='DESIGN.md §4 C07'),
 'C05': dict(
   text='A two-world affinity inference (caller graph G vs internal spanner S: same C++ type, different ownership) over all instantiated approximate algorithms decides that nothing reaching the caller\'s output iterator is a descriptor of S, that every weight term of the returned value is read through the caller\'s map for the emitted edge, that each spanner edge gets the input weight and a translation-table entry on the path that adds it, that the table is read with at()/find, that every BGL call pairs descriptors with their own graph, and that the exact phase is skipped only for (m, n) for which every simple graph is a forest. These are the structural ways the descriptor/weight clauses can fail; that the cycles form a basis is value-level and not claimed. The caller\'s output iterator is not reused after it was passed by value to something that writes through it, and an accumulated weight is not overwritten.',
   note='Flow-insensitive per variable, inter-procedural over the approx classes; BGL accessor semantics and the summary "exact entry points emit only descriptors of their graph argument" are trusted. Number and independence of cycles are not decided.',
   technique='type-like world inference (abstract interpretation over a 4-point lattice + key/value worlds) on the instantiated AST; CFG path enumeration; finite abstract evaluation of guards',
   ref='DESIGN.md §3 A5, §4 C05'),
 'C06': dict(
   text='The rejecting guard of run() is constant-folded with k := 0 and k in {1,2,3,7,1000} in the modular arithmetic of its C++ type (so an unsigned wrap-around is seen) and must dominate every use of the iterator; the hop bound is evaluated over a (k, n) grid against [min(2k-1, n-1), 2k-1]; the scan order, weighted spanner, non-skipped exact phase, Dijkstra-on-S closing path and absence of an early exit in the relaxation loop of parmcb::dijkstra are checked structurally. The numeric (2k-1) bound follows from these premises by the textbook argument, which is not mechanised: the bound itself is not claimed. A closing path computed by a search that is not given the spanner\'s weight map is reported; the hop test of the bounded BFS answers true only within the bound.',
   note='Premises only; is_bfs_reachable/dijkstra functional correctness beyond the named clauses is assumed.',
   technique='abstract evaluation (constant folding in the type\'s arithmetic) of guards and bounds; dominance on the CFG; world inference',
   ref='DESIGN.md §4 C06'),
 'C15': dict(
   text='Every structural clause of the greedy spanner construction is decided on the CFG/AST of construct_spanner and is_bfs_reachable: the whole edge set is scanned in non-decreasing input weight; each path through an iteration performs exactly one of retain/drop; the hop bound evaluates to 2k-1 on a (k, n) grid; an edge is retained exactly when the bounded BFS says "not reachable"; the BFS can answer true only within the bound; retained edges carry the input weight and are recorded in the translation table; all BGL calls respect graph ownership. The scan comparator is evaluated over the orderings of the two weights, with tolerance tests abs(w1 - w2) > c as a separate atom (ties by tolerance are reported); a retain/drop verdict read from a distance table left behind by an earlier, early-exiting search is reported.',
   note='Assumes FIFO order of std::queue and completeness of the BFS exploration; stretch/girth as graph-theoretic consequences are not re-proved.',
   technique='CFG path enumeration, A3 truth tables over orderings, abstract evaluation of the bound, world inference',
   ref='DESIGN.md §4 C15'),
 'C20': dict(
   text='Decides on the instantiated AST/CFG that every tbb::global_control created by set_global_tbb_concurrency is stored, on every path and on every call, into an owner with static storage duration (or returned to the caller), and that in each demo main with a "cores" option the knob call reaches every *_tbb entry-point call and its control dependence relative to those calls consists only of the options cores/parallel with positive polarity. These are exactly the two ways the property can fail; both are visible in the shape of the code. A thread_local owner is reported (a later call from another thread does not release the limit); the demos\' knob condition is resolved through boolean locals to option atoms.',
   note='Assumes TBB semantics of global_control (limit in force while the object is alive). Only the TBB configuration is analysed (the knob does not exist otherwise). Option atoms are recognised as vm["key"].as<T>() / vm.count("key"); anything else is reported as undecided (exit 2), never as a pass.',
   technique='storage-duration / escape rule on the resolved AST + relative control dependence on the clang CFG',
   ref='DESIGN.md §4 C20'),
 'C10': dict(
   text='read_dimacs_from_file and the three validators are decided on their CFG/AST. Reader: a NUL written into the fgets buffer only ever replaces a line terminator (strcspn with a reject set inside {CR, LF} that contains LF, or a strlen-relative store guarded by a test of that same byte), so an unterminated final line keeps its last character and buffer[-1] is never written; the destination of the optional trailing %lf is assigned 1 by a definition inside the line loop that dominates the sscanf (a hoisted, uninitialised or conditionally reset default is reported); every read of the vertex table happens only for a declared vertex - std::map: dominated by a membership test whose missing branch leaves the function; std::vector: the guards are evaluated abstractly, in C++ conversion arithmetic, for ids -3,-1,0,1,n,n+1,n+7 and must admit exactly 1..n; the vertex loop runs nnodes times under the problem line and names vertices 1..n; exactly one add_edge per a/e line with endpoints looked up by the first/second %d and the parsed weight stored for the returned descriptor; tests of the sscanf conversion count are evaluated over the counts a well-formed edge line can produce; %s conversions are bounded. Validators: has_loops / has_non_positive_weights are exists-loops over all edges whose predicate has the required truth table (w<0, w==0, w>0 -> T,T,F; a comparison with a non-zero threshold is reported); has_multiple_edges is recognised in three idioms (per-vertex fresh set, sort + adjacent_find, one pass over normalised endpoint pairs) with their side conditions.',
   note='Decimal parsing itself is sscanf\'s; lines longer than the buffer are outside the property. An implementation outside the idiom tables is reported as undecided (exit 2), never as a pass.',
   technique='guarded-store and dominance rules on the clang CFG, exact path conditions with truth tables, linear forms for the loop count, abstract evaluation of range guards in C++ arithmetic',
   ref='DESIGN.md §4 C10'),
 'C11': dict(
   text='On the CFG of each of the four demo mains: every validator applied to the graph read from the file dominates every call that reaches library algorithm code (call-graph closure), its rejecting edge reaches only non-zero return/exit with a diagnostic and no algorithm call, no validator or exit of the MPI main is control dependent on the rank, every exit after an algorithm call has status 0, and the value printed after "MCB weight = " is definitely assigned from an entry point. Gating, exit status and rank-uniform termination are decided for every input and rank count; that the printed number is the optimum inherits the limits of C02. The value 0 of --cores ("all cores") never reaches the TBB knob as 0 (it is replaced by a positive thread count under a test equivalent to == 0, or the knob call is guarded).',
   note='All ranks are assumed to read the same file. assert() failures are not counted as exits. Pinned configuration (TBB+MPI) only. The (2k-1) range of the approximate demo is not decided here.',
   technique='dominance, reachability and control-dependence rules over the clang CFG of each main; call-graph closure for "runs an algorithm"',
   ref='DESIGN.md §4 C11'),
 'C19': dict(
   text='Every public header is compiled alone (and first) in every build configuration with clang++ (g++ too in the thorough tier), its templates are instantiated in such a TU, every definition in a header is checked for inline/template/internal linkage on the type-checked AST, and two objects including all headers are linked. A compile/link question is decided exactly by compiling and linking; nothing is executed. Full explicit specialisations count as ordinary (non-template) definitions for the ODR rule.',
   note='Trusted: clang 14 / g++ 12 front ends and GNU ld; the four config.hpp variants CMake can produce here; *_tbb.hpp and mpi/ headers are not required to compile without TBB/MPI. Instantiation witnesses use adjacency_list<vecS,vecS,undirectedS> with double and int weights.',
   technique='compile-fail / link witnesses + AST rule (libTooling) for non-inline header definitions',
   ref='DESIGN.md §4 C19'),
}

NA = {
 'C08': 'metamorphic relation between whole-algorithm results on transformed inputs (value-level); the only structural candidate (no iteration over address-ordered sets) is not a necessary condition - see DESIGN.md §4 C08',
 'C09': '1e-9 relative accuracy under floating-point rounding needs numeric reasoning about accumulated distances; no sound structural rule - see DESIGN.md §4 C09',
 'C12': 'shortest-path distances and cross-tree consistency are numeric/relational results of the lexicographic Dijkstra on concrete graphs - see DESIGN.md §4 C12',
 'C13': 'acyclicity of the residual graph depends on the degree bookkeeping over a run; the structural candidate (emission guard) is not a necessary condition - see DESIGN.md §4 C13',
}
PENDING = {}

def main():
    allp = ['C%02d' % i for i in range(1, 21)]
    checks = []
    for p in allp:
        if p in CLAIMED:
            c = CLAIMED[p]
            checks.append({
              'property_id': p,
              'quick_cmd': './check %s --tier quick' % p,
              'thorough_cmd': './check %s --tier thorough' % p,
              'evidence_file': '/verif/evidence/%s.json' % p,
              'replay_cmd_template': 'cat {path}',
              'engine': 'parmcb-sa',
              'level_claimed': {'category': 'other', 'text': c['text'], 'design_ref': c['ref']},
              'level_note': c['note'],
              'technique': c['technique'],
            })
    na = []
    for p in allp:
        if p in CLAIMED: continue
        if p in NA: na.append({'property_id': p, 'reason': NA[p]})
        else: na.append({'property_id': p, 'reason': PENDING.get(p, 'check under construction in this round (design in DESIGN.md §4); not claimed until its rules land with instance floors and positive examples')})
    m = {
      'version': 1,
      'setup_cmd': './setup.sh',
      'hooks': {'guard': 'PARMCB_VERIF', 'enable': 'no hooks: the static checker reads the unmodified sources; nothing in /repo is guarded',
                'baseline_off_cmd': '/verif/baseline_off.sh', 'source_commits': [], 'add_only': True},
      'engines': [{'name': 'parmcb-sa', 'path': '/verif/sa', 'serves_properties': sorted(CLAIMED),
                   'kind_free_text': 'libTooling extractor (resolved AST + clang CFG of every instantiated repo function) and a python rule engine; compile/link witnesses for C19'}],
      'checks': checks,
      'not_applicable': na,
      'notes': 'Static analysis only: no check runs repo code. Exit codes: 0 held, 1 VIOLATION, 2 ANALYSIS-BROKEN (anchor vanished / floor not met / undecidable construct). Genuine defects found on the pinned tree were repaired by fix: commits in /repo and are listed as fixed in known_findings.json.',
    }
    with open(os.path.join(HERE, 'MANIFEST.json'), 'w') as fh:
        json.dump(m, fh, indent=1); fh.write('\n')
if __name__ == '__main__':
    main()
