#!/bin/sh
# usage: mkpatch.sh <out.patch> <python-edit-script>   creates a patch against /repo from a scratch copy edited by the script
# (the script gets the scratch root as argv[1]); /repo itself is never touched
OUT=$1; PY=$2
T=$(mktemp -d /tmp/parmcb-mk.XXXXXX)
trap 'rm -rf "$T"' EXIT
mkdir -p "$T/a" "$T/b"
rsync -a --exclude _build --exclude .git /repo/ "$T/a/"
rsync -a "$T/a/" "$T/b/"
python3 "$PY" "$T/b" || exit 3
( cd "$T" && diff -ruN a b | sed 's#^--- a/#--- a/#; s#^+++ b/#+++ b/#' ) > "$OUT"
test -s "$OUT" || { echo "EMPTY PATCH"; exit 3; }
grep -c '^@@' "$OUT"
