// oracle for C12: random graphs with many ties; checks exact distances, tree shape, labels, cross-source consistency
#include <iostream>
#include <vector>
#include <map>
#include <set>
#include <stack>
#include <memory>
#include <random>
#include <limits>
#include <boost/graph/adjacency_list.hpp>
#include <parmcb/config.hpp>
#include <parmcb/sptrees.hpp>
typedef boost::adjacency_list<boost::vecS, boost::vecS, boost::undirectedS, boost::no_property, boost::property<boost::edge_weight_t, double>> G;
typedef boost::graph_traits<G>::vertex_descriptor V;
typedef boost::graph_traits<G>::edge_descriptor E;
int main() {
    std::mt19937 rng(777);
    int bad = 0, runs = 0;
    for (int it = 0; it < 1500 && bad < 5; it++) {
        std::size_t n = 2 + rng() % 8;
        G g(n);
        auto w = boost::get(boost::edge_weight, g);
        std::set<std::pair<std::size_t, std::size_t>> seen;
        std::size_t m = rng() % (n * (n - 1) / 2 + 1);
        int wmax = 1 + rng() % 3;
        for (std::size_t k = 0; k < m; k++) {
            std::size_t a = rng() % n, b = rng() % n;
            if (a == b) continue;
            if (a > b) std::swap(a, b);
            if (!seen.insert({a, b}).second) continue;
            // random orientation of the stored edge
            auto e = (rng() % 2) ? boost::add_edge(a, b, g).first : boost::add_edge(b, a, g).first;
            w[e] = 1 + rng() % wmax;
        }
        auto idx = boost::get(boost::vertex_index, g);
        // reference distances: Floyd-Warshall
        const double INF = 1e18;
        std::vector<std::vector<double>> D(n, std::vector<double>(n, INF));
        for (std::size_t i = 0; i < n; i++) D[i][i] = 0;
        for (auto e : boost::make_iterator_range(boost::edges(g))) {
            std::size_t a = boost::source(e, g), b = boost::target(e, g);
            D[a][b] = std::min(D[a][b], (double) w[e]); D[b][a] = D[a][b];
        }
        for (std::size_t k = 0; k < n; k++) for (std::size_t i = 0; i < n; i++) for (std::size_t j = 0; j < n; j++) D[i][j] = std::min(D[i][j], D[i][k] + D[k][j]);
        std::vector<parmcb::SPTree<G, decltype(w)>> trees;
        trees.reserve(n);
        for (std::size_t s = 0; s < n; s++) trees.emplace_back(s, g, idx, w, s);
        runs++;
        std::string why;
        // path[s][v] = vertex sequence from s to v along predecessor edges
        std::vector<std::vector<std::vector<std::size_t>>> path(n, std::vector<std::vector<std::size_t>>(n));
        for (std::size_t s = 0; s < n && why.empty(); s++) {
            for (std::size_t v = 0; v < n && why.empty(); v++) {
                auto nd = trees[s].node(v);
                if (D[s][v] >= INF) { if (nd) why = "node for unreachable vertex"; continue; }
                if (!nd) { why = "no node for reachable vertex"; continue; }
                if (nd->weight() != D[s][v]) { why = "wrong distance"; continue; }
                // walk up
                std::vector<std::size_t> p; std::size_t cur = v; double len = 0; std::size_t guard = 0;
                while (cur != s && guard++ <= n) {
                    auto c = trees[s].node(cur);
                    if (!c || !c->has_pred()) { why = "broken predecessor chain"; break; }
                    E e = c->pred();
                    std::size_t a = boost::source(e, g), b = boost::target(e, g);
                    if (a != cur && b != cur) { why = "predecessor edge not incident"; break; }
                    p.push_back(cur); len += w[e]; cur = (a == cur) ? b : a;
                }
                if (!why.empty()) break;
                if (cur != s) { why = "predecessor chain does not reach the root"; continue; }
                p.push_back(s);
                if (len != D[s][v]) { why = "root path length differs from the distance"; continue; }
                std::reverse(p.begin(), p.end());
                path[s][v] = p;
                std::size_t expect_first = (v == s) ? s : p[1];
                if (trees[s].first(v) != expect_first) { why = "wrong first-in-path label"; continue; }
            }
            // children links agree with predecessors
            for (std::size_t v = 0; v < n && why.empty(); v++) {
                auto nd = trees[s].node(v);
                if (!nd) continue;
                for (auto c : nd->children()) {
                    if (!c->has_pred()) { why = "child without predecessor"; break; }
                    E e = c->pred();
                    std::size_t a = boost::source(e, g), b = boost::target(e, g);
                    std::size_t par = (a == c->vertex()) ? b : a;
                    if (par != v) { why = "child hangs below the wrong parent"; break; }
                }
            }
        }
        for (std::size_t s = 0; s < n && why.empty(); s++) for (std::size_t v = 0; v < n && why.empty(); v++) {
            if (s == v || path[s][v].empty()) continue;
            auto r = path[v][s]; std::reverse(r.begin(), r.end());
            if (r != path[s][v]) why = "path u->v is not the reverse of v->u";
            // sub-path consistency: for an inner vertex x of path s->v, path s->x is its prefix
            for (std::size_t k = 1; k + 1 < path[s][v].size() && why.empty(); k++) {
                std::size_t x = path[s][v][k];
                std::vector<std::size_t> pre(path[s][v].begin(), path[s][v].begin() + k + 1);
                if (path[s][x] != pre) why = "prefix of a chosen path is not the chosen path";
                std::vector<std::size_t> suf(path[s][v].begin() + k, path[s][v].end());
                if (path[x][v] != suf) why = "sub-path of a chosen path is not the chosen path";
            }
        }
        if (!why.empty()) { bad++; std::cout << "FAIL n=" << n << " m=" << boost::num_edges(g) << ": " << why << std::endl; }
    }
    std::cout << runs << " runs, " << bad << " failures" << std::endl;
    return bad ? 1 : 0;
}
