// oracle for C13: random simple graphs; G - FVS must be acyclic, vertices valid and distinct, forests give nothing
#include <iostream>
#include <vector>
#include <map>
#include <deque>
#include <set>
#include <random>
#include <boost/graph/adjacency_list.hpp>
#include <parmcb/detail/fvs.hpp>
typedef boost::adjacency_list<boost::vecS, boost::vecS, boost::undirectedS> G;
static bool acyclic_without(const G &g, const std::set<std::size_t> &rm) {
    std::size_t n = boost::num_vertices(g);
    std::vector<int> par(n); for (std::size_t i = 0; i < n; i++) par[i] = i;
    std::function<int(int)> f = [&](int x) { return par[x] == x ? x : par[x] = f(par[x]); };
    for (auto e : boost::make_iterator_range(boost::edges(g))) {
        std::size_t a = boost::source(e, g), b = boost::target(e, g);
        if (rm.count(a) || rm.count(b)) continue;
        int ra = f(a), rb = f(b);
        if (ra == rb) return false;
        par[ra] = rb;
    }
    return true;
}
int main() {
    std::mt19937 rng(12345);
    int bad = 0, runs = 0;
    for (int it = 0; it < 4000; it++) {
        std::size_t n = 2 + rng() % 9;
        G g(n);
        bool forest = (it % 4 == 0);
        std::set<std::pair<std::size_t, std::size_t>> seen;
        if (forest) {
            for (std::size_t v = 1; v < n; v++) if (rng() % 5) boost::add_edge(rng() % v, v, g);
        } else {
            std::size_t m = rng() % (n * (n - 1) / 2 + 1);
            for (std::size_t k = 0; k < m; k++) {
                std::size_t a = rng() % n, b = rng() % n;
                if (a == b) continue;
                if (a > b) std::swap(a, b);
                if (!seen.insert({a, b}).second) continue;
                boost::add_edge(a, b, g);
            }
        }
        std::vector<std::size_t> out;
        parmcb::greedy_fvs(g, std::back_inserter(out));
        std::set<std::size_t> rm(out.begin(), out.end());
        runs++;
        bool ok = rm.size() == out.size();
        for (auto v : out) if (v >= n) ok = false;
        if (!acyclic_without(g, rm)) ok = false;
        if (acyclic_without(g, {}) && !out.empty()) ok = false;
        if (!ok) { bad++; if (bad <= 3) std::cout << "FAIL n=" << n << " m=" << boost::num_edges(g) << " fvs=" << out.size() << (acyclic_without(g, rm) ? "" : " residual has a cycle") << (rm.size() != out.size() ? " duplicate" : "") << (acyclic_without(g, {}) && !out.empty() ? " forest but non-empty" : "") << std::endl; }
    }
    std::cout << runs << " runs, " << bad << " failures" << std::endl;
    return bad ? 1 : 0;
}
