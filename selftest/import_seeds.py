#!/usr/bin/env python3
"""copies confirmed seeded changes from /tmp/seed into /verif/seeded/<PROP>-<m>/ (patch.diff, demonstration, meta.json)"""
import json, os, shutil, stat, sys
SEED=os.environ.get('SEEDOUT','/tmp/seed'); DST='/verif/seeded'
RENAME={'/tmp/seed':{'m1':'m1','m2':'m2'}}.get(SEED) or ({'m1':'m15','m2':'m16'} if SEED.endswith('seed8') else {'m1':'m13','m2':'m14'} if SEED.endswith('seed7') else {'m1':'m11','m2':'m12'} if SEED.endswith('seed6') else {'m1':'m9','m2':'m10'} if SEED.endswith('seed5') else {'m1':'m5','m2':'m6'} if SEED.endswith('seed3') else {'m1':'m7','m2':'m8'} if SEED.endswith('seed4') else {'m1':'m3','m2':'m4'})
NEEDS = {
 'C01-m1': 'SpVecGF2::operator+ "prepend" fast path guarded by <= instead of <: needs an out-of-order support update with max(S_k) == min(S_l) (only through the sparsest-support swap of mcb_sva_signed) plus a weight tie; ~0.1-2% of small graphs',
 'C01-m2': 'compute_first_in_path no longer labels the root: needs a tree root other than vertex 0 whose non-tree edge detours through vertex 0; fvs/iso variants emit an empty cycle',
 'C02-m1': 'early `continue` skips hidden_edges.erase in the hidden-edge heuristic: needs 3 <= |S_k| < n, an earlier failed/pruned search in the phase and a particular std::set<Edge> address order (edge insertion order)',
 'C02-m2': 'LexDistanceCompare compares distance instead of edge_count in its second rung: needs two equal-weight shortest paths with different hop counts; breaks only mcb_sva_iso_trees',
 'C03-m1': 'join of the all-vertices parallel_reduce keeps the heavier operand: needs a dense graph (support >= |V|) and a real task split so that the join runs',
 'C03-m2': 'non-spanner cycle weights summed into a by-reference captured variable: needs two workers finishing sub-ranges concurrently (lost update)',
 'C04-m1': 'ForestIndex numbers forest edges by iterating std::set<Edge> (address order): needs >= 2 ranks whose heap layouts differ',
 'C04-m2': 'stride computed with integer division (floor): needs the dense branch and n mod P >= 3 (P >= 4) or P > n',
 'C05-m1': 'functor skips the exact phase when m < n: needs a disconnected input (isolated vertex) whose spanner still has a cycle',
 'C05-m2': 'fast path emits the spanner MCB directly when no edge was dropped: needs k = 1 or girth > 2k (Petersen, k = 2) and dereferencing the descriptors after return',
 'C06-m1': 'parmcb::dijkstra returns when the target is first discovered: needs a spanner cycle where a heavy edge reaches the target first',
 'C06-m2': 'hoisted _max_hops = 2k-1 wraps for k = 0 so the guard `_max_hops < 1` never fires: needs k = 0 through the API',
 'C07-m1': 'search-root vector skips degree < 2 vertices while find_all_vertices still indexes 0..num_vertices: needs a pendant/isolated vertex and a dense support (>= n signed edges)',
 'C07-m2': 'same shape as C05-m2 (released spanner descriptors handed to the caller), found independently',
 'C10-m1': 'rs/rt/rw hoisted out of the line loop: needs a weighted edge line followed by a line that omits the weight',
 'C10-m2': 'has_multiple_edges uses adjacent_find on an unsorted neighbour vector: needs the two copies of an edge separated by another incident edge at both endpoints',
 'C11-m1': 'has_multiple_edges rewritten as one pass inserting raw (source, target) pairs: needs a parallel edge listed once as (u,v) and once as (v,u)',
 'C11-m2': 'MPI demo returns EXIT_FAILURE when its local cycle list is empty (true on every non-root rank): needs >= 2 processes and a graph with m >= n',
 'C14-m1': 'root SPNode stores the weight it is given (dist[source] = +inf, never written by lex_dijkstra): needs a weighted graph with a non-tree edge incident to a root',
 'C14-m2': 'compute_first_in_path seeded with the root\'s children, root label never written: needs a heavy root-incident edge whose other endpoint hangs below vertex 0',
 'C15-m1': 'k clamped to n/2 before computing the hop bound: needs odd n, k > n/2 and a Hamiltonian path between the endpoints',
 'C15-m2': 'bounded BFS tests u == t before the hop cut-off: needs endpoints exactly 2k hops apart with the target dequeued first in its layer',
 'C16-m1': 'spanning_forest returns 0 for an edgeless graph with vertices: needs n >= 1, m = 0 (dimension underflows)',
 'C16-m2': 'cached csd member is not copied by the hand-written copy constructor / assignment: needs a copied or assigned ForestIndex',
 'C17-m1': 'concatenation fast path guarded by ones.back() <= v.ones.front(): needs max(left) == min(right)',
 'C17-m2': 'in-place operator+= swaps out its own storage first: needs an aliased x += x',
 'C18-m1': 'sign flags swapped together with the operands while the epilogue already un-swaps: needs |b| > |a| and opposite signs',
 'C18-m2': 'single conditional subtraction with v > p instead of the normalisation loops: needs two coordinates summing to exactly p',
 'C19-m1': 'function-local static owner hoisted to a non-inline namespace-scope variable in util.hpp: needs two translation units (TBB enabled)',
 'C19-m2': '<numeric> dropped from approx_spanner.hpp while std::accumulate is still used in the TBB-only branch: needs an approx header as first parmcb include (TBB enabled)',
 'C20-m1': 'knob made `static inline`: needs calls from two translation units where the later call raises n',
 'C20-m2': 'demos clamp --cores to hardware_concurrency: needs --cores n with n > number of hardware threads',
}
def from_readme(src):
    """(what the change is, what it needs to manifest) taken from the sub-agent's own README.md"""
    import re
    p = os.path.join(src, 'README.md')
    if not os.path.exists(p):
        return '', ''
    txt = open(p, errors='replace').read()
    title = txt.splitlines()[0].lstrip('# ').strip() if txt else ''
    title = re.sub(r'^C\d+\s*/\s*(m\d|change \d)\s*[-\u2014]+\s*', '', title)
    m = re.search(r'^##+ *(What it needs[^\n]*|Needs[^\n]*)\n(.*?)(?=^##+ |\Z)', txt, re.S | re.M | re.I)
    needs = ' '.join(m.group(2).split()) if m else ''
    return title, needs[:900]


def main():
    os.makedirs(DST, exist_ok=True)
    for f in sorted(os.listdir(os.path.join(SEED,'confirm'))):
        if not f.endswith('.json'): continue
        r=json.load(open(os.path.join(SEED,'confirm',f)))
        if not r.get('confirmed'): print('skip unconfirmed', f); continue
        name='%s-%s'%(r['property'], RENAME[r['seed']])
        src=os.path.join(SEED, r['property']+'.out', r['seed'])
        d=os.path.join(DST,name)
        old = None
        if os.path.exists(os.path.join(d, 'meta.json')):
            old = json.load(open(os.path.join(d, 'meta.json')))
        if os.path.isdir(d): shutil.rmtree(d)
        os.makedirs(d)
        for root,dirs,files in os.walk(src):
            dirs[:] = [x for x in dirs if not x.startswith('build.')]
            for fn in files:
                p=os.path.join(root,fn)
                st=os.stat(p)
                rel=os.path.relpath(p,src)
                if st.st_size>150000: continue
                with open(p,'rb') as fh: head=fh.read(4)
                if head[:4]==b'\x7fELF': continue
                if fn.endswith('.o') or fn.startswith('out') and fn.endswith('.txt') and st.st_size>20000: continue
                os.makedirs(os.path.dirname(os.path.join(d,rel)), exist_ok=True)
                shutil.copy2(p, os.path.join(d,rel))
        title, needs = from_readme(src)
        meta={'id':name,'property':r['property'],'origin':'independent sub-agent given only the property text and a scratch worktree',
              'breaks': NEEDS.get(name,'').split(':')[0] if name in NEEDS else title,
              'needs_to_manifest': NEEDS.get(name) or needs,
              'confirmation': {'worktree': r['worktree'], 'patch_applies': r['patch_applies'], 'builds': r['mutated_build_ok'],
                               'existing_tests_pass': r['ctest_pass'], 'demo_cmd': r['demo_cmd'],
                               'demo_exit_pristine': r['pristine_demo_rc'], 'demo_exit_with_change': r['mutated_demo_rc'],
                               'demo_tail_with_change': r.get('mutated_demo_tail','')[-400:]},
              'caught_by_checks': [], 'missed_by_checks': []}
        if old:
            for k in ('caught_by_checks', 'caught_by_rules', 'missed_by_checks', 'applies_to_current_tree'):
                if k in old: meta[k] = old[k]
        json.dump(meta, open(os.path.join(d,'meta.json'),'w'), indent=1)
        print('imported', name)
main()
