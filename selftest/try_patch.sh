#!/bin/sh
# usage: try_patch.sh <patch> <PROP>...   applies a patch to a scratch COPY of /repo (never /repo itself), runs the checks on the
# copy (PARMCB_REPO) with evidence redirected to the scratch dir, removes the copy
P=$1; shift
T=$(mktemp -d /tmp/parmcb-try.XXXXXX)
trap 'rm -rf "$T"' EXIT
rsync -a --exclude _build --exclude .git /repo/ "$T/repo/"
( cd "$T/repo" && git apply --unsafe-paths "$P" 2>/dev/null || patch -p1 -s < "$P" ) || { echo "PATCH DOES NOT APPLY: $P"; exit 3; }
for prop in "$@"; do (cd /verif && PARMCB_REPO="$T/repo" PARMCB_EVIDENCE_DIR="$T/ev" ./check $prop 2>&1 | sed "s#$T/repo/##g" | cut -c1-400); done
