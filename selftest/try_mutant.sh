#!/bin/sh
# usage: try_mutant.sh <patch> <PROP>...   applies a patch to /repo's working tree, runs checks, restores the tree
P=$1; shift
git -C /repo apply "$P" || { echo "PATCH DOES NOT APPLY: $P"; exit 3; }
for prop in "$@"; do (cd /verif && ./check $prop 2>&1 | cut -c1-400); done
git -C /repo checkout -- .
