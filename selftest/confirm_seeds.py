#!/usr/bin/env python3
"""Confirms seeded changes produced by the independent sub-agents: for each seed, in the seed's own scratch worktree
(/tmp/seed/<PROP>, a `git worktree` of /repo outside /repo and /verif):

  pristine:  build, demo must PASS (exit 0)
  mutated:   patch applies, project builds, ctest passes (7/7), demo must FAIL (exit != 0)

Results are written to /tmp/seed/confirm/<PROP>-<m>.json and summarised on stdout.  This is *not* a check: it runs
repo code to validate the seeds themselves; registered checks never do.
usage: confirm_seeds.py [PROP ...]
"""
import json
import os
import subprocess
import sys
import time

SEED = '/tmp/seed'                      # scratch worktrees /tmp/seed/<PROP>
OUT = os.environ.get('SEEDOUT', SEED)   # deliverables <OUT>/<PROP>.out/m1, m2
STD = 'g++ -std=c++14 -O1 -I$WT/include -I$WT/_build/include demo.cc -o demo_c -ltbb -lboost_timer && ./demo_c'
ASAN = 'g++ -std=c++14 -O1 -g -fsanitize=address -fno-omit-frame-pointer -I$WT/include -I$WT/_build/include demo.cc -o demo_c -ltbb -lboost_timer && ./demo_c'
MPICXX = 'mpicxx -std=c++14 -O1 -I$WT/include -I$WT/_build/include demo.cc -o demo -ltbb -lboost_timer -lboost_mpi -lboost_serialization'

DEMOS = {
    ('C03', 'm1'): 'INC="-I$WT/include -I$WT/_build/include"; g++ -std=c++14 -O1 -Ishim $INC demo_sched.cc -o ds_c -lboost_timer && ./ds_c',
    ('C04', 'm1'): MPICXX + ' && TMO=90 ./run.sh 3 ./demo signed graph.dimacs --scramble --threads 1',
    ('C04', 'm2'): MPICXX + ' && TMO=90 ./run.sh 4 ./demo signed k7.dimacs --threads 1',
    ('C07', 'm1'): ASAN + ' k8_pendant_isolated.gr',
    ('C07', 'm2'): ASAN + ' petersen.gr 2',
    ('C11', 'm1'): 'B=$WT/_build ./demo.sh',
    ('C11', 'm2'): 'B=$WT/_build ./demo.sh',
    ('C14', 'm1'): STD + ' graph2.dimacs',
    ('C14', 'm2'): STD + ' graph2.dimacs',
    ('C19', 'm1'): 'SRC=$WT ./run.sh tbb',
    ('C19', 'm2'): 'SRC=$WT ./run.sh tbb',
    ('C20', 'm1'): './run.sh $WT',
    ('C20', 'm2'): './run.sh $WT',
    ('C18', 'm1'): 'g++ -std=c++14 -O1 -I$WT/include -I$WT/_build/include demo.cc -o demo_c && ./demo_c',
    ('C18', 'm2'): 'g++ -std=c++14 -O1 -I$WT/include -I$WT/_build/include demo.cc -o demo_c && ./demo_c',
}


def sh(cmd, cwd, timeout=1800):
    t0 = time.time()
    try:
        p = subprocess.run(cmd, shell=True, cwd=cwd, stdout=subprocess.PIPE, stderr=subprocess.STDOUT, timeout=timeout,
                           executable='/bin/bash')
        return p.returncode, p.stdout.decode(errors='replace'), time.time() - t0
    except subprocess.TimeoutExpired as e:
        return 124, (e.stdout or b'').decode(errors='replace') + '\nTIMEOUT', time.time() - t0


def build(wt):
    rc, out, dt = sh('cmake -S %s -B %s/_build -G Ninja > /dev/null 2>&1; cmake --build %s/_build -j8 2>&1 | tail -3' % (wt, wt, wt), wt)
    if rc != 0 or 'FAILED' in out or 'error' in out.lower():
        # sibling agents sometimes kill compilers: retry once
        rc, out, dt2 = sh('cmake --build %s/_build -j8 2>&1 | tail -5' % wt, wt)
        dt += dt2
    ok = rc == 0 and 'FAILED' not in out
    return ok, out[-400:], dt


def confirm(prop, m):
    wt = os.path.join(SEED, prop)
    d = os.path.join(OUT, prop + '.out', m)
    res = {'property': prop, 'seed': m, 'worktree': wt}
    override = os.path.join(d, 'CONFIRM_CMD')
    if os.path.exists(override):
        demo = open(override).read().strip().replace('$WT', wt)
    elif OUT == SEED:
        demo = DEMOS.get((prop, m), STD).replace('$WT', wt)
    else:
        demo = STD.replace('$WT', wt)
    res['demo_cmd'] = 'cd %s && %s' % (d, demo)
    sh('git checkout -- .', wt)
    ok, out, dt = build(wt)
    res['pristine_build_ok'] = ok
    rc, out, dt = sh(demo, d, timeout=1500)
    res['pristine_demo_rc'] = rc
    res['pristine_demo_tail'] = out[-600:]
    rc, out, _ = sh('git apply %s' % os.path.join(d, 'patch.diff'), wt)
    res['patch_applies'] = rc == 0
    if rc != 0:
        res['error'] = out[-300:]
        return res
    ok, out, dt = build(wt)
    res['mutated_build_ok'] = ok
    res['mutated_build_tail'] = out
    rc, out, _ = sh('ctest --test-dir %s/_build -j8 2>&1 | tail -4' % wt, wt)
    res['ctest_pass'] = '100% tests passed' in out
    res['ctest_tail'] = out[-300:]
    rc, out, dt = sh(demo, d, timeout=1500)
    res['mutated_demo_rc'] = rc
    res['mutated_demo_tail'] = out[-800:]
    sh('git checkout -- .', wt)
    res['confirmed'] = bool(res['patch_applies'] and res['mutated_build_ok'] and res['ctest_pass'] and res['pristine_demo_rc'] == 0 and
                            res['mutated_demo_rc'] not in (0, 124))
    return res


def main():
    props = sys.argv[1:] or sorted(p[:-4] for p in os.listdir(OUT) if p.endswith('.out'))
    os.makedirs(os.path.join(OUT, 'confirm'), exist_ok=True)
    for prop in props:
        for m in ('m1', 'm2'):
            if not os.path.exists(os.path.join(OUT, prop + '.out', m, 'patch.diff')):
                continue
            r = confirm(prop, m)
            with open(os.path.join(OUT, 'confirm', '%s-%s.json' % (prop, m)), 'w') as fh:
                json.dump(r, fh, indent=1)
            print('%s %s confirmed=%s applies=%s build=%s ctest=%s pristine_rc=%s mutated_rc=%s' % (
                prop, m, r.get('confirmed'), r.get('patch_applies'), r.get('mutated_build_ok'), r.get('ctest_pass'),
                r.get('pristine_demo_rc'), r.get('mutated_demo_rc')), flush=True)
        # leave the worktree pristine and rebuilt
        build(os.path.join(SEED, prop))


if __name__ == '__main__':
    main()
