#!/usr/bin/env python3
"""runs the checks that look at the touched files against behaviour-preserving refactorings written by independent sub-agents
(selftest/refactors/<round>/<PROP>.out/eN/patch.diff; each comes with the agent's README giving the equivalence argument and the oracle
demonstration it ran before and after).  No check may report a VIOLATION on any of them (that would be a false alarm); exit 2 (undecided)
is tolerated for refactorings that replace the data structure or the algorithm behind a clause and is listed.  Each patch is applied to a
scratch copy of /repo (never to /repo).  usage: [EQR=<round dir>] run_refactors.py [PROP ...]      exit 1 iff some check reported a violation"""
import concurrent.futures, glob, json, os, re, sys
sys.path.insert(0, os.path.dirname(os.path.abspath(__file__)))
import run_mutants
HERE = os.path.dirname(os.path.abspath(__file__))
ROOTS = [os.environ['EQR']] if os.environ.get('EQR') else sorted(glob.glob(os.path.join(HERE, 'refactors', 'r*')))
FILE2CHECKS = [
    (r'spvecgf2', ['C17', 'C01', 'C04']), (r'spvecfp|/fp\.hpp', ['C18']), (r'forestindex|spanning_forest', ['C16', 'C04', 'C07']),
    (r'fvs\.hpp', ['C13', 'C14']), (r'lex_dijkstra', ['C12', 'C14', 'C02', 'C01']), (r'sptrees', ['C12', 'C14', 'C01', 'C02', 'C03', 'C04', 'C07']),
    (r'cycles\.hpp', ['C14', 'C07']), (r'signed_dijkstra', ['C02', 'C01', 'C07']), (r'detail/dijkstra', ['C06', 'C02', 'C05']),
    (r'bfs\.hpp', ['C15', 'C06', 'C02']), (r'approx_spanner', ['C05', 'C06', 'C15', 'C03', 'C07']), (r'parmcb_approx', ['C05', 'C06']),
    (r'mpi/', ['C04', 'C01', 'C11']), (r'_tbb\.hpp', ['C03', 'C01', 'C02', 'C07']), (r'parmcb_sva_signed\.hpp|parmcb_sva_trees\.hpp', ['C01', 'C02']),
    (r'util\.hpp', ['C10', 'C20', 'C07', 'C11']), (r'src/', ['C11', 'C20']), (r'include/', ['C19']),
]
def checks_for(patch, prop):
    txt = open(patch, errors='replace').read()
    files = re.findall(r'^\+\+\+ b/(\S+)', txt, re.M)
    cs = [prop]
    for f in files:
        for pat, lst in FILE2CHECKS:
            if re.search(pat, f):
                for c in lst:
                    if c not in cs:
                        cs.append(c)
    return cs[:7]
def one(args):
    prop, name, patch = args
    cs = checks_for(patch, prop)
    r = run_mutants.run_variant(('equivalent', prop, patch, cs))
    return prop, name, r
def main():
    props = sys.argv[1:]
    jobs = []
    for root in ROOTS:
        for d in sorted(glob.glob(os.path.join(root, '*.out'))):
            prop = os.path.basename(d)[:-4]
            if props and prop not in props:
                continue
            for e in sorted(glob.glob(os.path.join(d, 'e*', 'patch.diff'))):
                jobs.append((prop, os.path.basename(root) + '/' + os.path.basename(os.path.dirname(e)), e))
    silent = undecided = alarms = 0
    with concurrent.futures.ThreadPoolExecutor(max_workers=int(os.environ.get('JOBS', '4'))) as ex:
        for prop, name, r in ex.map(one, jobs):
            bad = {c: v for c, v in r.get('checks', {}).items() if v['exit'] != 0}
            if any(v['exit'] == 1 for v in bad.values()) or not r.get('applies'):
                alarms += 1
            elif bad:
                undecided += 1
            else:
                silent += 1
            print('%s %s applies=%s %s' % (prop, name, r.get('applies'), 'SILENT' if not bad else 'NOT-SILENT ' + json.dumps(bad)), flush=True)
    print('refactorings: %d, silent: %d, undecided (exit 2): %d, FALSE ALARMS (exit 1): %d' % (len(jobs), silent, undecided, alarms))
    sys.exit(1 if alarms else 0)
main()
