#!/usr/bin/env python3
"""runs the related checks against every seeded change (scratch copies of /repo) and records in each meta.json which checks
(and rules) report it.  usage: seed_matrix.py [ID ...]"""
import concurrent.futures, glob, json, os, sys
sys.path.insert(0, os.path.dirname(os.path.abspath(__file__)))
import run_mutants
RELATED = {'C01-m1':['C01','C17'],'C01-m2':['C01','C14'],'C02-m1':['C02','C01'],'C02-m2':['C02','C14'],'C03-m1':['C03','C02'],'C03-m2':['C03'],
 'C04-m1':['C04','C16'],'C04-m2':['C04'],'C05-m1':['C05','C06'],'C05-m2':['C05','C07'],'C06-m1':['C06'],'C06-m2':['C06'],'C07-m1':['C07','C03'],
 'C07-m2':['C07','C05'],'C10-m1':['C10'],'C10-m2':['C10','C11'],'C11-m1':['C11','C10'],'C11-m2':['C11','C04'],'C14-m1':['C14'],'C14-m2':['C14','C01'],
 'C15-m1':['C15','C06'],'C15-m2':['C15'],'C16-m1':['C16'],'C16-m2':['C16'],'C17-m1':['C17','C01'],'C17-m2':['C17'],'C18-m1':['C18'],'C18-m2':['C18'],
 'C19-m1':['C19','C20'],'C19-m2':['C19'],'C20-m1':['C20','C19'],'C20-m2':['C20'],
 'C01-m3':['C01','C02','C14'],'C01-m4':['C01','C02'],'C02-m3':['C02','C01'],'C02-m4':['C02','C14'],'C03-m3':['C03','C02'],'C03-m4':['C03'],'C04-m3':['C04'],'C04-m4':['C04','C11'],
 'C05-m3':['C05','C06'],'C05-m4':['C05','C07'],'C06-m3':['C06','C15'],'C06-m4':['C06','C05'],'C07-m3':['C07','C14'],'C07-m4':['C07','C10'],'C10-m3':['C10','C11'],'C10-m4':['C10','C07'],
 'C11-m3':['C11','C20'],'C11-m4':['C11','C10'],'C14-m3':['C14','C07'],'C14-m4':['C14','C07'],'C15-m3':['C15','C06'],'C15-m4':['C15','C06'],'C16-m3':['C16','C04'],'C16-m4':['C16'],
 'C17-m3':['C17','C01'],'C17-m4':['C17','C01'],'C18-m3':['C18'],'C18-m4':['C18'],'C19-m3':['C19'],'C19-m4':['C19'],'C20-m3':['C20','C11'],'C20-m4':['C20'],
 'C01-m5':['C01','C12','C14'],'C01-m6':['C01','C02'],'C02-m5':['C02','C12','C14'],'C02-m6':['C02','C01'],'C03-m5':['C03','C06','C05'],'C03-m6':['C03'],'C04-m5':['C04'],'C04-m6':['C04','C01'],
 'C05-m5':['C05','C06'],'C05-m6':['C05','C15'],'C06-m5':['C06','C15'],'C06-m6':['C06','C15'],'C07-m5':['C07'],'C07-m6':['C07','C20'],'C10-m5':['C10','C07'],'C10-m6':['C10'],
 'C11-m5':['C11'],'C11-m6':['C11'],'C12-m5':['C12','C01'],'C12-m6':['C12'],'C13-m5':['C13'],'C13-m6':['C13'],'C14-m5':['C14'],'C14-m6':['C14','C12'],'C15-m5':['C15'],'C15-m6':['C15','C06','C02'],
 'C16-m5':['C16','C07'],'C16-m6':['C16','C07'],'C17-m5':['C17','C04'],'C17-m6':['C17'],'C18-m5':['C18'],'C18-m6':['C18'],'C19-m5':['C19'],'C19-m6':['C19'],'C20-m5':['C20'],'C20-m6':['C20','C11'],
 'C01-m7':['C01','C17'],'C01-m8':['C01','C02','C14'],'C02-m7':['C02','C12','C14'],'C02-m8':['C02','C01'],'C03-m7':['C03'],'C03-m8':['C03','C07'],'C04-m7':['C04'],'C04-m8':['C04','C01'],
 'C05-m7':['C05'],'C05-m8':['C05','C06'],'C06-m7':['C06','C05'],'C06-m8':['C06'],'C07-m7':['C07','C03','C06'],'C07-m8':['C07','C02'],'C10-m7':['C10','C11'],'C10-m8':['C10'],
 'C11-m7':['C11','C04'],'C11-m8':['C11'],'C12-m7':['C12'],'C12-m8':['C12','C14'],'C13-m7':['C13','C07'],'C13-m8':['C13'],'C14-m7':['C14','C12'],'C14-m8':['C14','C13'],'C15-m7':['C15','C06'],'C15-m8':['C15','C05'],
 'C16-m7':['C16'],'C16-m8':['C16','C07'],'C17-m7':['C17'],'C17-m8':['C17'],'C18-m7':['C18'],'C18-m8':['C18'],'C19-m7':['C19'],'C19-m8':['C19'],'C20-m7':['C20'],'C20-m8':['C20','C11'],
 'C01-m9':['C01','C02'],'C01-m10':['C01'],'C02-m9':['C02','C17','C01'],'C02-m10':['C02','C14'],'C03-m9':['C03','C07'],'C03-m10':['C03','C05'],'C04-m9':['C04','C03'],'C04-m10':['C04'],
 'C05-m9':['C05','C06'],'C05-m10':['C05','C07'],'C06-m9':['C06','C15'],'C06-m10':['C06','C02'],'C07-m9':['C07'],'C07-m10':['C07','C04'],'C10-m9':['C10'],'C10-m10':['C10'],
 'C11-m9':['C11','C07'],'C11-m10':['C11','C04'],'C12-m9':['C12','C07'],'C12-m10':['C12'],'C13-m9':['C13'],'C13-m10':['C13'],'C14-m9':['C14','C07'],'C14-m10':['C14','C01'],
 'C15-m9':['C15','C06'],'C15-m10':['C15','C06'],'C16-m9':['C16'],'C16-m10':['C16'],'C17-m9':['C17'],'C17-m10':['C17'],'C18-m9':['C18'],'C18-m10':['C18'],
 'C19-m9':['C19'],'C19-m10':['C19'],'C20-m9':['C20'],'C20-m10':['C20','C07'],
 'C01-m11':['C01','C02'],'C01-m12':['C01','C16','C02'],'C02-m11':['C02','C14'],'C02-m12':['C02','C16','C01'],'C03-m11':['C03'],'C03-m12':['C03','C05'],'C04-m11':['C04'],'C04-m12':['C04'],
 'C05-m11':['C05','C07'],'C05-m12':['C05','C07'],'C06-m11':['C06','C05'],'C06-m12':['C06'],'C07-m11':['C07'],'C07-m12':['C07','C05'],'C10-m11':['C10'],'C10-m12':['C10','C11'],
 'C11-m11':['C11'],'C11-m12':['C11','C10'],'C12-m11':['C12'],'C12-m12':['C12','C14'],'C13-m11':['C13'],'C13-m12':['C13'],'C14-m11':['C14'],'C14-m12':['C14'],
 'C15-m11':['C15','C07','C06'],'C15-m12':['C15','C06'],'C16-m11':['C16','C07'],'C16-m12':['C16'],'C17-m11':['C17','C07'],'C17-m12':['C17'],'C18-m11':['C18'],'C18-m12':['C18'],
 'C19-m11':['C19'],'C19-m12':['C19'],'C20-m11':['C20'],'C20-m12':['C20']}
def one(d):
    name=os.path.basename(d)
    meta=json.load(open(os.path.join(d,'meta.json')))
    checks=RELATED.get(name,[meta['property']])
    r=run_mutants.run_variant(('seeded', meta['property'], os.path.join(d,'patch.diff'), checks))
    caught=[]; missed=[]; rules={}
    for c,v in r.get('checks',{}).items():
        if v['exit']==1: caught.append(c); rules[c]=v['rules']
        else: missed.append('%s (exit %d)'%(c,v['exit']))
    meta['caught_by_checks']=sorted(caught); meta['caught_by_rules']=rules; meta['missed_by_checks']=sorted(missed); meta['applies_to_current_tree']=r.get('applies')
    json.dump(meta, open(os.path.join(d,'meta.json'),'w'), indent=1)
    return name, caught, rules, missed
def main():
    ids=sys.argv[1:]
    dirs=[d for d in sorted(glob.glob('/verif/seeded/*')) if os.path.exists(os.path.join(d,'meta.json')) and (not ids or os.path.basename(d) in ids)]
    with concurrent.futures.ThreadPoolExecutor(max_workers=3) as ex:
        for name,caught,rules,missed in ex.map(one, dirs):
            print(name,'caught by',caught,rules,'| not by',missed, flush=True)
main()
