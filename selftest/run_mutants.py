#!/usr/bin/env python3
"""Self-test of the checker (thorough tier): every mutant patch (one instance of one rule broken, the tree still compiles and
passes the repo's tests) must be reported as a VIOLATION by the check of its property, and every behaviour-preserving
rewrite under selftest/equivalents must leave the check silent (exit 0).  Each variant is applied to a scratch COPY of /repo's
working tree under a mktemp directory (never to /repo), analysed with PARMCB_REPO pointing at the copy, and the copy is
removed afterwards.  Nothing is executed from the copies: the checks are static.
usage: run_mutants.py [PROP ...]   -> JSON on stdout
"""
import concurrent.futures
import glob
import json
import os
import shutil
import subprocess
import sys
import tempfile

HERE = os.path.dirname(os.path.abspath(__file__))
VERIF = os.path.dirname(HERE)
REPO = os.environ.get('PARMCB_REPO', '/repo')


def variants(props):
    out = []
    for p in sorted(glob.glob(os.path.join(HERE, 'mutants', '*.patch'))):
        prop = os.path.basename(p).split('-')[0]
        out.append(('mutant', prop, p, [prop]))
    # hand-written single-rule mutants, each confirmed by execution with the oracle demos under selftest/demos (see DESIGN.md §7)
    for p in sorted(glob.glob(os.path.join(HERE, 'handmade', '*.patch'))):
        prop = os.path.basename(p).split('-')[0]
        out.append(('mutant', prop, p, [prop]))
    for d in sorted(glob.glob(os.path.join(VERIF, 'seeded', '*'))):
        meta = os.path.join(d, 'meta.json')
        patch = os.path.join(d, 'patch.diff')
        if os.path.exists(meta) and os.path.exists(patch):
            m = json.load(open(meta))
            caught = m.get('caught_by_checks') or []
            if caught:
                out.append(('seeded', m.get('property'), patch, caught))
    for p in sorted(glob.glob(os.path.join(HERE, 'equivalents', '*.patch'))):
        props_ = os.path.basename(p).split('-')[0].split('+')
        out.append(('equivalent', props_[0], p, props_))
    if props:
        out = [v for v in out if set(v[3]) & set(props) or v[1] in props]
    only = os.environ.get('MUTANT_KIND')
    if only:
        out = [v for v in out if v[0] == only]
    return out


def run_variant(v):
    kind, prop, patch, checks = v
    tmp = tempfile.mkdtemp(prefix='parmcb-mutant.')
    res = {'kind': kind, 'property': prop, 'patch': os.path.relpath(patch, VERIF), 'checks': {}}
    try:
        copy = os.path.join(tmp, 'repo')
        subprocess.check_call(['rsync', '-a', '--exclude', '_build', '--exclude', '.git', REPO.rstrip('/') + '/', copy + '/'])
        ap = subprocess.run(['git', 'apply', '--unsafe-paths', '--directory=' + copy, patch], stdout=subprocess.PIPE, stderr=subprocess.STDOUT, cwd='/')
        if ap.returncode != 0:
            ap = subprocess.run(['patch', '-p1', '-s', '-d', copy, '-i', patch], stdout=subprocess.PIPE, stderr=subprocess.STDOUT)
        if ap.returncode != 0:
            res['applies'] = False
            res['note'] = 'patch no longer applies to the current tree (reported, not failed)'
            return res
        res['applies'] = True
        env = dict(os.environ, PARMCB_REPO=copy, PARMCB_EVIDENCE_DIR=os.path.join(tmp, 'ev'), VERIF_TIER='quick')
        for c in checks:
            p = subprocess.run([os.path.join(VERIF, 'check'), c, '--tier', 'quick'], stdout=subprocess.PIPE, stderr=subprocess.STDOUT, env=env, cwd=VERIF)
            out = p.stdout.decode(errors='replace')
            rules = sorted(set(l.split()[1] for l in out.splitlines() if l.strip().startswith('rule ')))
            res['checks'][c] = {'exit': p.returncode, 'rules': rules}
    finally:
        shutil.rmtree(tmp, ignore_errors=True)
    return res


def main():
    props = sys.argv[1:]
    vs = variants(props)
    with concurrent.futures.ThreadPoolExecutor(max_workers=4) as ex:
        results = list(ex.map(run_variant, vs))
    summary = {'mutants_total': 0, 'mutants_detected': 0, 'equivalents_total': 0, 'equivalents_silent': 0, 'not_applicable': 0, 'results': results}
    for r in results:
        if not r.get('applies'):
            summary['not_applicable'] += 1
            continue
        if r['kind'] in ('mutant', 'seeded'):
            summary['mutants_total'] += 1
            if any(c['exit'] == 1 for c in r['checks'].values()):
                summary['mutants_detected'] += 1
                r['detected'] = True
            else:
                r['detected'] = False
        else:
            summary['equivalents_total'] += 1
            if all(c['exit'] == 0 for c in r['checks'].values()):
                summary['equivalents_silent'] += 1
                r['silent'] = True
            else:
                r['silent'] = False
    json.dump(summary, sys.stdout, indent=1)
    print()
    bad = [r for r in results if r.get('detected') is False or r.get('silent') is False]
    return 1 if bad else 0


if __name__ == '__main__':
    sys.exit(main())
