#!/usr/bin/env python3
"""debug helper: dump the resolved AST / CFG of functions.  usage: dump.py TU NAME-SUBSTRING [--cfg] [--variant V]"""
import sys, os
sys.path.insert(0, os.path.dirname(os.path.abspath(__file__)))
from lib import env, model, ex

def show(n, ind=0, maxd=40):
    extra = []
    if n.k in ('DeclRefExpr','MemberExpr','VarDecl') and n.decl: extra.append('d=%s#%s' % (n.decl.get('name'), n.decl_id))
    if n.j.get('fn') is not None: extra.append('fn=' + n.prog.frefs[n.j['fn']]['g'])
    if n.callee: extra.append('-> ' + n.callee['g'])
    if n.op: extra.append('op=' + n.op)
    if n.value is not None: extra.append('v=%r' % (n.value,))
    if 'cv' in n.j: extra.append('cv=%s' % n.j['cv'])
    if n.j.get('ck'): extra.append(n.j['ck'])
    if n.j.get('r'): extra.append('roles=%s' % n.j['r'])
    t = n.tname
    print('%s%s#%d %s  [%s] L%d' % ('  '*ind, n.k, n.i, ' '.join(extra), t[:70], n.line))
    if ind < maxd:
        for c in n.c: show(c, ind+1, maxd)

def main():
    args = [a for a in sys.argv[1:] if not a.startswith('--')]
    tu, pat = args[0], args[1]
    variant = 'full'
    for a in sys.argv[1:]:
        if a.startswith('--variant='): variant = a.split('=',1)[1]
    prog = env.extract([tu], variant)[tu]
    for f in prog.functions:
        if pat in f.g or pat == f.full:
            print('==== %s  (%s) %s' % (f.g, f.full[:150], f.site))
            if '--list' in sys.argv: continue
            if f.body: show(f.body)
            if '--cfg' in sys.argv and f.cfg:
                for b in sorted(f.cfg.blocks.values(), key=lambda b: -b.id):
                    print(' B%d succ=%s all=%s term=%s tc=%s nr=%s elems=%s' % (b.id, b.succ, b.succ_all, b.termk, b.tc, b.noreturn, b.elems))
main()
