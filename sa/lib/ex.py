"""Expression-level helpers shared by the rules: atoms, linear forms (A4), boolean formulae and
truth tables (A3), call-graph closure, small pattern predicates.  All work on the resolved AST."""
import itertools

from .model import Node

CALL_KINDS = ('CallExpr', 'CXXMemberCallExpr', 'CXXOperatorCallExpr')
CTOR_KINDS = ('CXXConstructExpr', 'CXXTemporaryObjectExpr')


def is_call(n, gname=None, name=None):
    if n is None or n.k not in CALL_KINDS:
        return False
    c = n.callee
    if c is None:
        return False
    if gname is not None and c['g'] != gname:
        return False
    if name is not None and c['name'] != name:
        return False
    return True


def callee_g(n):
    c = n.callee if n is not None and n.k in CALL_KINDS + CTOR_KINDS else None
    return c['g'] if c else None


def callee_name(n):
    c = n.callee if n is not None and n.k in CALL_KINDS + CTOR_KINDS else None
    return c['name'] if c else None


def in_ns(c, ns):
    """callee fref lives in top-level namespace ns"""
    return c is not None and (c['g'] == ns or c['g'].startswith(ns + '::'))


def var_of(n):
    """decl id if n (stripped) is a plain reference to a variable/parameter/field"""
    if n is None:
        return None
    s = n.strip_all()
    if s.k == 'DeclRefExpr' and s.decl_id is not None:
        return s.decl_id
    if s.k == 'MemberExpr' and s.decl_id is not None and s.c and s.c[0].strip().k == 'CXXThisExpr':
        return s.decl_id
    if s.k == 'CallExpr' and s.callee and s.callee['g'] in ('std::move', 'std::forward', 'std::as_const') and len(s.args()) == 1:
        return var_of(s.args()[0])      # the same object, as an xvalue / const view
    return None


def refs_var(n, var_id):
    for d in n.walk():
        if d.k in ('DeclRefExpr', 'MemberExpr') and d.decl_id == var_id:
            return True
    return False


def vars_in(n):
    s = set()
    for d in n.walk():
        if d.k in ('DeclRefExpr', 'MemberExpr') and d.decl_id is not None:
            s.add(d.decl_id)
    return s


def string_literals(n):
    for d in n.walk():
        if d.k == 'StringLiteral' and isinstance(d.value, str):
            yield d


# ------------------------------------------------------------------------------------------------
# canonical keys of expressions (structure, resolved declarations; no source text)
# ------------------------------------------------------------------------------------------------
def key(n):
    """a hashable canonical form of a side-effect free expression; two expressions with the same key
    denote the same value when evaluated in the same state"""
    if n is None:
        return None
    s = n.strip_all()
    k = s.k
    if k == 'DeclRefExpr':
        if s.decl_id is not None:
            return ('v', s.decl_id)
        return ('fn', s.j.get('fn'))
    if k == 'MemberExpr':
        base = key(s.c[0]) if s.c else None
        if s.decl_id is not None:
            return ('m', s.decl_id, base)
        return ('mf', s.j.get('fn'), base)
    if k == 'CXXThisExpr':
        return ('this',)
    cv = s.cv
    if cv is not None and k not in CALL_KINDS:
        return ('c', cv)
    if k in ('IntegerLiteral', 'CharacterLiteral', 'CXXBoolLiteralExpr', 'FloatingLiteral', 'StringLiteral'):
        return ('c', s.value)
    if k in ('BinaryOperator', 'CompoundAssignOperator'):
        return ('b', s.op, key(s.c[0]), key(s.c[1]))
    if k == 'UnaryOperator':
        return ('u', s.op, key(s.c[0]))
    if k in CALL_KINDS:
        c = s.callee
        name = c['g'] if c else '?'
        if k == 'CXXMemberCallExpr':
            return ('call', name, key(s.object_arg())) + tuple(key(a) for a in s.args())
        if k == 'CXXOperatorCallExpr':
            return ('call', name) + tuple(key(a) for a in s.c[1:])
        return ('call', name) + tuple(key(a) for a in s.args())
    if k in CTOR_KINDS:
        c = s.callee
        return ('ctor', c['g'] if c else '?') + tuple(key(a) for a in s.c)
    if k == 'ArraySubscriptExpr':
        return ('idx', key(s.c[0]), key(s.c[1]))
    if k == 'ConditionalOperator':
        return ('?:', key(s.cond), key(s.then), key(s.els))
    if k == 'CXXDefaultArgExpr':
        return ('defarg',)
    return (k,) + tuple(key(c) for c in s.c)


# ------------------------------------------------------------------------------------------------
# A4: linear forms  sum c_i * atom_i + c0   over integer expressions
# ------------------------------------------------------------------------------------------------
class Lin(object):
    __slots__ = ('terms', 'const')

    def __init__(self, terms=None, const=0):
        self.terms = dict(terms or {})
        self.const = const

    def add(self, o, sign=1):
        r = Lin(self.terms, self.const + sign * o.const)
        for a, c in o.terms.items():
            r.terms[a] = r.terms.get(a, 0) + sign * c
            if r.terms[a] == 0:
                del r.terms[a]
        return r

    def scale(self, f):
        if f == 0:
            return Lin()
        return Lin({a: c * f for a, c in self.terms.items()}, self.const * f)

    def is_const(self):
        return not self.terms

    def __eq__(self, o):
        return isinstance(o, Lin) and self.terms == o.terms and self.const == o.const

    def __ne__(self, o):
        return not self.__eq__(o)

    def __hash__(self):
        return hash((frozenset(self.terms.items()), self.const))

    def __repr__(self):
        parts = ['%s*%s' % (c, a) for a, c in sorted(self.terms.items(), key=repr)]
        parts.append(str(self.const))
        return ' + '.join(parts)


def lin(n, resolve=None):
    """linear normal form of an integer expression. `resolve(var_id)` may map a variable to the node
    of its unique definition (so that `stride` can be looked through)."""
    s = n.strip()
    while s.k in ('ImplicitCastExpr', 'CStyleCastExpr', 'CXXStaticCastExpr', 'CXXFunctionalCastExpr') and s.c and \
            s.j.get('ck') in ('IntegralCast', 'NoOp', 'LValueToRValue', 'IntegralToFloating', 'FloatingToIntegral',
                              'FloatingCast', 'IntegralToBoolean'):
        s = s.c[0].strip()
    cv = s.cv
    if cv is not None:
        return Lin(const=cv)
    if s.k == 'BinaryOperator':
        a, b = s.c[0], s.c[1]
        if s.op == '+':
            return lin(a, resolve).add(lin(b, resolve))
        if s.op == '-':
            return lin(a, resolve).add(lin(b, resolve), -1)
        if s.op == '*':
            la, lb = lin(a, resolve), lin(b, resolve)
            if la.is_const():
                return lb.scale(la.const)
            if lb.is_const():
                return la.scale(lb.const)
    if s.k == 'UnaryOperator' and s.op == '-':
        return lin(s.c[0], resolve).scale(-1)
    if s.k == 'UnaryOperator' and s.op == '+':
        return lin(s.c[0], resolve)
    if resolve is not None and var_of(s) is not None:
        d = resolve(var_of(s))
        if d is not None:
            return lin(d, resolve)
    return Lin({key(s): 1})


# ------------------------------------------------------------------------------------------------
# A3: boolean formulae over named atoms, truth tables
# ------------------------------------------------------------------------------------------------
class F(object):
    """boolean formula: ('atom', name) | ('not', f) | ('and', f, g) | ('or', f, g) | ('const', bool)"""


def f_atom(a):
    return ('atom', a)


def f_not(f):
    if f[0] == 'const':
        return ('const', not f[1])
    if f[0] == 'not':
        return f[1]
    return ('not', f)


def f_and(a, b):
    if a[0] == 'const':
        return b if a[1] else a
    if b[0] == 'const':
        return a if b[1] else b
    return ('and', a, b)


def f_or(a, b):
    if a[0] == 'const':
        return a if a[1] else b
    if b[0] == 'const':
        return b if b[1] else a
    return ('or', a, b)


TRUE = ('const', True)
FALSE = ('const', False)


def f_atoms(f, acc=None):
    if acc is None:
        acc = []
    if f[0] == 'pc':
        for a in f[1].atoms:
            if a not in acc:
                acc.append(a)
        return acc
    if f[0] == 'atom':
        if f[1] not in acc:
            acc.append(f[1])
    elif f[0] == 'not':
        f_atoms(f[1], acc)
    elif f[0] in ('and', 'or'):
        f_atoms(f[1], acc)
        f_atoms(f[2], acc)
    return acc


def f_eval(f, env):
    t = f[0]
    if t == 'const':
        return f[1]
    if t == 'pc':
        return f[1].eval(env)
    if t == 'atom':
        return env[f[1]]
    if t == 'not':
        return not f_eval(f[1], env)
    if t == 'and':
        return f_eval(f[1], env) and f_eval(f[2], env)
    if t == 'or':
        return f_eval(f[1], env) or f_eval(f[2], env)
    raise ValueError(f)


def truth_table(f, atoms):
    rows = {}
    for vals in itertools.product((False, True), repeat=len(atoms)):
        env = dict(zip(atoms, vals))
        rows[vals] = f_eval(f, env)
    return rows


def f_equiv(f, g, atoms=None, constraint=None):
    atoms = atoms or sorted(set(f_atoms(f) + f_atoms(g)), key=repr)
    for vals in itertools.product((False, True), repeat=len(atoms)):
        env = dict(zip(atoms, vals))
        if constraint is not None and not constraint(env):
            continue
        if f_eval(f, env) != f_eval(g, env):
            return False, env
    return True, None


class PathCond(object):
    """exact path condition of a CFG block within the current loop iteration: the disjunction over all
    acyclic paths from the function entry (back edges removed) of the conjunction of the branch conditions
    taken.  Evaluated by dynamic programming over the DAG for a given valuation of the atoms, so
    short-circuit operators and early exits are handled without conjoining alternative paths."""

    def __init__(self, cfg, target, atomize):
        self.cfg = cfg
        self.target = target
        fn = cfg.fn
        blocks = cfg.blocks
        # forward DAG edges (skip back edges: successor dominates source)
        self.preds = {}
        region = set()
        work = [target]
        dag_pred = {}
        for b in blocks.values():
            for ix, s in enumerate(b.succ):
                if s is None:
                    continue
                if s != b.id and cfg.block_dominates(s, b.id):
                    continue  # back edge
                if s == b.id:
                    continue
                dag_pred.setdefault(s, []).append((b.id, ix))
        while work:
            b = work.pop()
            if b in region:
                continue
            region.add(b)
            for (p, ix) in dag_pred.get(b, ()):
                work.append(p)
        self.region = region
        self.dag_pred = {b: [(p, ix) for (p, ix) in dag_pred.get(b, ()) if p in region] for b in region}
        self.cond = {}
        self.switch = {}
        self.atoms = []
        # only branches the target is (transitively, within the iteration) control dependent on can decide whether it
        # is reached; every other branch in the region leads to the target on both edges
        ctrl = set(a for (a, ix) in cfg.transitive_control_deps(target))
        for b in region:
            if b not in ctrl:
                continue
            blk = blocks[b]
            live = [s for s in blk.succ if s is not None]
            if len(blk.succ) == 2 and len(live) >= 1 and blk.succ[0] != blk.succ[1] and blk.termk != 'SwitchStmt':
                c = cfg.effective_cond(blk)
                f = None
                if c is not None:
                    f = formula(c, lambda leaf: atomize(leaf) or f_atom(('opaque', leaf.i)))
                if f is None:
                    f = f_atom(('opaque-branch', b))
                self.cond[b] = f
                for a in f_atoms(f):
                    if a not in self.atoms:
                        self.atoms.append(a)
            elif len(blk.succ) > 2 or blk.termk == 'SwitchStmt':
                sw = cfg.switch_edges(blk)
                if sw is not None:
                    # the edge of `case c` is taken iff E == c (first matching label wins), the default edge otherwise
                    edges = []
                    for (ix, cmpn) in sw[1]:
                        if cmpn is None:
                            edges.append((ix, None))
                            continue
                        f = formula(cmpn, lambda leaf: atomize(leaf) or f_atom(('opaque', leaf.i)))
                        edges.append((ix, f))
                        for a in f_atoms(f):
                            if a not in self.atoms:
                                self.atoms.append(a)
                    self.switch[b] = edges
                    continue
                for ix in range(len(blk.succ)):
                    a = ('switch', b, ix)
                    if a not in self.atoms:
                        self.atoms.append(a)
        # only keep atoms of branches that actually matter (both outcomes stay in region is irrelevant: keep all)

    def eval(self, env):
        memo = {}
        cfg = self.cfg

        def val(b):
            if b in memo:
                return memo[b]
            memo[b] = False
            if b == cfg.entry or not self.dag_pred.get(b):
                r = (b == cfg.entry) or not self.dag_pred.get(b)
                # blocks without DAG predecessors other than entry are unreachable; treat entry as true
                r = (b == cfg.entry)
                memo[b] = r
                return r
            r = False
            for (p, ix) in self.dag_pred[b]:
                if not val(p):
                    continue
                f = self.cond.get(p)
                blk = cfg.blocks[p]
                if f is not None:
                    c = f_eval(f, env)
                    if (ix == 0) == bool(c):
                        r = True
                        break
                elif p in self.switch:
                    chosen = None
                    dflt = None
                    for (jx, f2) in self.switch[p]:
                        if f2 is None:
                            dflt = jx
                        elif chosen is None and f_eval(f2, env):
                            chosen = jx
                    if chosen is None:
                        chosen = dflt
                    if ix == chosen:
                        r = True
                        break
                elif len(blk.succ) > 2:
                    if env.get(('switch', p, ix), True):
                        r = True
                        break
                else:
                    r = True
                    break
            memo[b] = r
            return r
        return val(self.target)


def path_condition(cfg, node, atomize):
    """formula node ('pc', PathCond) for the block that evaluates `node`"""
    p = cfg.pos_of(node)
    if p is None:
        return TRUE
    return ('pc', PathCond(cfg, p[0], atomize))


def formula(n, atomize):
    """boolean formula of a condition expression; `atomize(node)` returns a formula for a leaf
    (usually f_atom(name), possibly negated) or None when the leaf is not recognised"""
    s = n.strip()
    if s.k == 'UnaryOperator' and s.op == '!':
        inner = formula(s.c[0], atomize)
        return None if inner is None else f_not(inner)
    if s.k == 'BinaryOperator' and s.op in ('&&', '||'):
        a = formula(s.c[0], atomize)
        b = formula(s.c[1], atomize)
        if a is None or b is None:
            return None
        return f_and(a, b) if s.op == '&&' else f_or(a, b)
    if s.k == 'CXXOperatorCallExpr' and s.op == '!':
        inner = formula(s.c[1], atomize)
        return None if inner is None else f_not(inner)
    if s.k in ('ImplicitCastExpr', 'CXXFunctionalCastExpr', 'CStyleCastExpr', 'CXXStaticCastExpr') and s.c:
        return formula(s.c[0], atomize)
    cv = s.cv
    if cv is not None and s.k not in CALL_KINDS:
        return ('const', bool(cv))
    r = atomize(s)
    if (r is None or (r[0] == 'atom' and isinstance(r[1], tuple) and r[1] and r[1][0] in ('opaque', 'acc-opaque'))) and \
            s.k == 'DeclRefExpr' and s.decl_id is not None and s.fn is not None and len(_BOOL_STACK) < 4 and s.decl_id not in _BOOL_STACK:
        # a bool local defined exactly once by a condition expression stands for that expression
        v = s.prog.vars[s.decl_id]
        if v.get('kind') == 'local' and (s.prog.base_type(v.get('ty')) or {}).get('bool'):
            d = unique_def(s.fn, s.decl_id)
            if d is not None and d.strip_all().cv is None and snapshot_stale(s.fn, s.decl_id, s) is not None:
                return f_atom(('stale', s.decl_id))
            if d is not None and d.strip_all().cv is None:
                _BOOL_STACK.append(s.decl_id)
                try:
                    f = formula(d, atomize)
                finally:
                    _BOOL_STACK.pop()
                if f is not None:
                    return f
    if r is None or (r[0] == 'atom' and isinstance(r[1], tuple) and r[1] and r[1][0] in ('opaque', 'acc-opaque')):
        # unrecognised leaf: a call of a one-expression predicate (local lambda, repo helper) is looked through
        inl = inline_predicate(s)
        if inl is not None:
            ret, binding = inl
            SUBST.append(binding)
            try:
                f = formula(ret, atomize)
            finally:
                SUBST.pop()
            if f is not None and not [a for a in f_atoms(f) if isinstance(a, tuple) and a and a[0] in ('opaque', 'acc-opaque')]:
                return f
    return r


_BOOL_STACK = []
SUBST = []   # stack of {param var id: argument node} while a predicate lambda is inlined


def subst(n):
    """the argument bound to n when n names a parameter of a predicate that is being inlined (see formula)"""
    if n is None:
        return n
    s = n.strip_all()
    seen = 0
    while s.k == 'DeclRefExpr' and s.decl_id is not None and seen < 4:
        for b in reversed(SUBST):
            if s.decl_id in b:
                s = b[s.decl_id].strip_all()
                break
        else:
            break
        seen += 1
    return s


def inline_predicate(s):
    """(returned expression, {param: arg}) when s calls a local lambda (or a repo function) whose body is a single
    `return <expr>;`"""
    if len(SUBST) > 3:
        return None
    prog = s.prog
    f = None
    args = None
    if s.k == 'CXXOperatorCallExpr' and s.op == '()' and len(s.c) >= 2:
        obj = s.c[1].strip_all()
        v = var_of(obj)
        if v is not None and s.fn is not None:
            d = unique_def(s.fn, v)
            if d is None and SUBST:
                return None
            dd = d.strip_all() if d is not None else None
            if dd is not None and dd.k == 'LambdaExpr':
                ops = [prog.fn_of_fref(op) for op in dd.j.get('lambda_ops', ())]
                ops = [o for o in ops if o is not None]
                if len(ops) == 1:
                    f = ops[0]
                    args = s.c[2:]
    elif s.k in ('CallExpr', 'CXXMemberCallExpr') and s.callee and s.callee.get('in_repo') and s.callee_id is not None:
        f = prog.fn_of_fref(s.callee_id)
        args = s.args()
    if f is None or f.body is None:
        return None
    stmts = [c for c in f.body.c] if f.body.k == 'CompoundStmt' else [f.body]
    if len(stmts) != 1 or stmts[0].k != 'ReturnStmt' or not stmts[0].c:
        return None
    pids = list(f.param_ids)
    if len(pids) != len(args):
        return None
    return stmts[0].c[0], dict(zip(pids, args))


# ------------------------------------------------------------------------------------------------
# call graph over emitted (repo) functions
# ------------------------------------------------------------------------------------------------
def callees_of(fn):
    """fref ids of everything called / constructed in fn, plus the call operators of lambdas it creates"""
    out = set()
    for n in fn.walk():
        ci = n.j.get('callee')
        if ci is not None:
            out.add(ci)
        if n.k == 'LambdaExpr':
            out.update(n.j.get('lambda_ops', ()))
        if n.k in ('DeclRefExpr', 'MemberExpr') and n.j.get('fn') is not None:
            out.add(n.j['fn'])
    return out


def reach_closure(prog, pred, barrier=None):
    """set of fref ids of repo functions from which a function satisfying pred(fref) is reachable
    (including those satisfying it themselves); functions satisfying barrier(fref) are never entered"""
    direct = {}
    for f in prog.functions:
        if barrier is not None and barrier(f.fref):
            continue
        direct[f.fref_id] = callees_of(f)
    good = set(i for i, fr in enumerate(prog.frefs) if isinstance(fr, dict) and pred(fr))
    changed = True
    while changed:
        changed = False
        for fid, cs in direct.items():
            if fid not in good and cs & good:
                good.add(fid)
                changed = True
    return good


def reachable_functions(prog, roots):
    """emitted functions reachable from the given Function objects (call graph closure)"""
    seen = {}
    work = list(roots)
    while work:
        f = work.pop()
        if f.fref_id in seen:
            continue
        seen[f.fref_id] = f
        for ci in callees_of(f):
            g = prog.fn_of_fref(ci)
            if g is not None and g.fref_id not in seen:
                work.append(g)
    return list(seen.values())


# ------------------------------------------------------------------------------------------------
# misc patterns
# ------------------------------------------------------------------------------------------------
def assignments_to(fn, var_id):
    """nodes that (re)define variable var_id inside fn: (node, rhs) with rhs None for unknown writes"""
    res = []
    for n in fn.walk():
        if n.k == 'VarDecl' and n.decl_id == var_id:
            res.append((n, n.c[0] if n.c else None))
        elif n.k == 'BinaryOperator' and n.op == '=' and var_of(n.c[0]) == var_id:
            res.append((n, n.c[1]))
        elif n.k == 'CompoundAssignOperator' and var_of(n.c[0]) == var_id:
            res.append((n, None))
        elif n.k == 'UnaryOperator' and n.op in ('++', '--') and var_of(n.c[0]) == var_id:
            res.append((n, None))
        elif n.k == 'CXXOperatorCallExpr' and n.op == '=' and len(n.c) >= 3 and var_of(n.c[1]) == var_id:
            res.append((n, n.c[2]))
        elif n.k == 'CXXOperatorCallExpr' and n.op in ('+=', '-=', '*=', '++', '--') and len(n.c) >= 2 and \
                var_of(n.c[1]) == var_id:
            res.append((n, None))
    return res


def unique_def(fn, var_id):
    ds = assignments_to(fn, var_id)
    if len(ds) == 1:
        return ds[0][1]
    return None


def alias_of(fn, node, depth=0):
    """follow local aliases: if `node` names a local variable that is defined exactly once (a const value or a reference,
    never re-assigned) and nothing its defining expression reads is written inside the innermost loop around the
    definition, return that defining expression (stripped), recursively; otherwise the stripped node itself"""
    s = node.strip_all() if node is not None else None
    if s is None or depth > 4 or s.k != 'DeclRefExpr' or s.decl_id is None:
        return s
    v = s.prog.vars[s.decl_id] if s.decl_id < len(s.prog.vars) else None
    if not v or v.get('kind') != 'local':
        return s
    ty = s.prog.type(v.get('ty')) or {}
    is_ref = 'base' in ty and ty.get('s', '').rstrip().endswith('&')
    if not (is_ref or v.get('constq')):
        return s
    ds = assignments_to(fn, s.decl_id)
    if is_ref:
        # a reference is bound once, by its declaration: later `ref = x` writes through it and does not re-seat it
        ds = [d_ for d_ in ds if d_[0].k == 'VarDecl']
    if len(ds) != 1 or ds[0][1] is None:
        return s
    decl, rhs = ds[0]
    r = rhs.strip_all()
    if r.k not in ('DeclRefExpr', 'CXXOperatorCallExpr', 'MemberExpr', 'ArraySubscriptExpr', 'CXXMemberCallExpr', 'CallExpr'):
        return s
    if r.k in ('CXXOperatorCallExpr',) and r.op != '[]':
        return s
    if r.k in ('CXXMemberCallExpr', 'CallExpr') and not (r.callee and r.callee['name'] in ('at', 'get')):
        return s
    scope = decl.enclosing('ForStmt', 'WhileStmt', 'CXXForRangeStmt', 'DoStmt')
    body = scope.body if scope is not None and getattr(scope, 'body', None) is not None else fn.body
    suspicious = False
    for vid in vars_in(r):
        vi = s.prog.vars[vid] if vid < len(s.prog.vars) else {}
        if vi.get('kind') not in ('local', 'param'):
            continue
        for (an, _r) in assignments_to(fn, vid):
            if an.k != 'VarDecl' and body.is_ancestor_of(an) and an.k in ('BinaryOperator', 'CompoundAssignOperator', 'UnaryOperator'):
                suspicious = True
    if suspicious:
        # something the definition reads is written in the same loop: the alias still holds at this use if no such write lies on a path from
        # the definition to the use (`w = source(e)` in front of `auto &slot = table[w]`)
        if fn.cfg is None or fn.cfg.pos_of(s) is None or snapshot_stale(fn, s.decl_id, s) is not None:
            return s
    return alias_of(fn, r, depth + 1)


def returns_of(fn):
    return [n for n in fn.walk() if n.k == 'ReturnStmt' and _same_function(n, fn)]


def _same_function(n, fn):
    # lambdas are separate functions in the model, so every node of fn.body belongs to fn
    return True


def is_std_stream(n, names=('cerr', 'cout', 'clog')):
    s = n.strip()
    if s.k == 'DeclRefExpr' and s.decl is not None:
        return s.decl.get('name') in names
    return False


def stream_root(n):
    """for a chain  a << b << c  return the left-most operand"""
    s = n.strip()
    while s.k == 'CXXOperatorCallExpr' and s.op == '<<' and len(s.c) >= 2:
        s = s.c[1].strip()
    while s.k in CALL_KINDS and s.op is None and s.c and s.k == 'CXXMemberCallExpr':
        break
    return s


# ------------------------------------------------------------------------------------------------
# abstract evaluation: constant folding of an expression tree with some leaves bound to concrete numbers, in the
# arithmetic of the C++ types involved (integer vs floating division, unsigned wrap-around).  No code is run.
# ------------------------------------------------------------------------------------------------
class Unknown(Exception):
    pass


def _coerce(v, t):
    if t is None or isinstance(v, tuple):
        return v
    if t.get('bool'):
        return 1 if v else 0
    if t.get('float'):
        return float(v)
    if t.get('int') or t.get('enum'):
        v = int(v)
        canon = t.get('canon', '')
        if t.get('unsigned') or 'unsigned' in canon:
            w = 64 if ('long' in canon or 'size_t' in canon) else (8 if 'char' in canon else (16 if 'short' in canon else 32))
            return v % (1 << w)
        return v
    return v


_VALUE_WRAPPERS = ('ImplicitCastExpr', 'ParenExpr', 'ExprWithCleanups', 'MaterializeTemporaryExpr', 'CXXBindTemporaryExpr', 'ConstantExpr',
                   'SubstNonTypeTemplateParmExpr', 'FullExpr', 'CStyleCastExpr', 'CXXStaticCastExpr', 'CXXFunctionalCastExpr')


def ceval(n, bind, defs=None, depth=0):
    """bind: callable(node) -> number or None for leaves it knows (variables, calls);  defs: var_id -> defining expression"""
    if depth > 60:
        raise Unknown('too deep')
    # value conversions are part of the arithmetic (int -> unsigned long wraps, double -> int truncates): evaluate the operand and
    # coerce to the type of every cast layer instead of looking through them
    if n.k in _VALUE_WRAPPERS and n.c:
        return _coerce(ceval(n.c[0], bind, defs, depth + 1), n.type)
    s = n
    b = bind(s)
    if b is not None:
        return _coerce(b, s.type)
    k = s.k
    if s.cv is not None and k not in CALL_KINDS:
        return s.cv
    if k == 'FloatingLiteral':
        return float(s.value)
    if k in ('ImplicitCastExpr', 'CStyleCastExpr', 'CXXStaticCastExpr', 'CXXFunctionalCastExpr', 'ParenExpr', 'MaterializeTemporaryExpr',
             'ExprWithCleanups') and s.c:
        return _coerce(ceval(s.c[0], bind, defs, depth + 1), s.type)
    v = var_of(s)
    if v is not None and defs is not None and v in defs:
        return _coerce(ceval(defs[v], bind, defs, depth + 1), s.type)
    if k == 'BinaryOperator' and len(s.c) == 2:
        if s.op == '&&':
            return 1 if (ceval(s.c[0], bind, defs, depth + 1) and ceval(s.c[1], bind, defs, depth + 1)) else 0
        if s.op == '||':
            return 1 if (ceval(s.c[0], bind, defs, depth + 1) or ceval(s.c[1], bind, defs, depth + 1)) else 0
        a = ceval(s.c[0], bind, defs, depth + 1)
        c = ceval(s.c[1], bind, defs, depth + 1)
        op = s.op
        t = s.type or {}
        if op == '+':
            r = a + c
        elif op == '-':
            r = a - c
        elif op == '*':
            r = a * c
        elif op == '/':
            if c == 0:
                raise Unknown('division by zero')
            if t.get('float'):
                r = a / c
            else:
                r = abs(int(a)) // abs(int(c))
                if (a < 0) != (c < 0):
                    r = -r
        elif op == '%':
            if c == 0:
                raise Unknown('mod by zero')
            r = int(a) - int(c) * (abs(int(a)) // abs(int(c)) * (1 if (a < 0) == (c < 0) else -1))
        elif op in ('<', '<=', '>', '>=', '==', '!='):
            return int({'<': a < c, '<=': a <= c, '>': a > c, '>=': a >= c, '==': a == c, '!=': a != c}[op])
        else:
            raise Unknown('operator ' + op)
        return _coerce(r, t)
    if k == 'UnaryOperator' and s.c:
        a = ceval(s.c[0], bind, defs, depth + 1)
        if s.op == '-':
            return _coerce(-a, s.type)
        if s.op == '!':
            return int(not a)
        if s.op == '+':
            return a
        raise Unknown('unary ' + str(s.op))
    if k == 'ConditionalOperator':
        return ceval(s.then, bind, defs, depth + 1) if ceval(s.cond, bind, defs, depth + 1) else ceval(s.els, bind, defs, depth + 1)
    if k == 'CallExpr' and s.callee:
        name = s.callee['name']
        a = s.args()
        import math
        if name in ('sqrt', 'sqrtl', 'sqrtf') and len(a) == 1:
            x = ceval(a[0], bind, defs, depth + 1)
            if x < 0:
                raise Unknown('sqrt of a negative number')
            return math.sqrt(x)
        if name in ('ceil', 'floor', 'round', 'trunc') and len(a) == 1:
            x = ceval(a[0], bind, defs, depth + 1)
            return float({'ceil': math.ceil, 'floor': math.floor, 'round': round, 'trunc': math.trunc}[name](x))
        if name in ('min', 'max') and len(a) == 2:
            x, y = ceval(a[0], bind, defs, depth + 1), ceval(a[1], bind, defs, depth + 1)
            return min(x, y) if name == 'min' else max(x, y)
        if name in ('make_pair', 'make_tuple') and a:
            return tuple(ceval(x, bind, defs, depth + 1) for x in a)
        if s.callee['g'] == 'std::get' and len(a) == 1:
            ta = s.callee.get('targs') or []
            if ta and isinstance(ta[0], dict) and 'int' in ta[0]:
                tv = ceval(a[0], bind, defs, depth + 1)
                if isinstance(tv, tuple) and ta[0]['int'] < len(tv):
                    return tv[ta[0]['int']]
    if k in CTOR_KINDS and len(s.c) == 1:
        return ceval(s.c[0], bind, defs, depth + 1)      # copy / conversion of an evaluated value
    if k == 'MemberExpr' and s.c and s.decl and s.decl.get('name') in ('first', 'second'):
        tv = ceval(s.c[0], bind, defs, depth + 1)
        if isinstance(tv, tuple) and len(tv) == 2:
            return _coerce(tv[0] if s.decl['name'] == 'first' else tv[1], s.type)
    # a pure straight-line repo function: const locals + one return at the end
    if k in ('CallExpr', 'CXXMemberCallExpr') and s.callee and s.callee.get('in_repo') and s.callee_id is not None and depth < 40:
        hf = s.prog.fn_of_fref(s.callee_id)
        stmts = list(hf.body.c) if hf is not None and hf.body is not None and hf.body.k == 'CompoundStmt' else None
        if stmts and stmts[-1].k == 'ReturnStmt' and stmts[-1].c and all(st.k == 'DeclStmt' for st in stmts[:-1]) and \
                len(hf.param_ids) == len(s.args()):
            vals = {pid: _coerce(ceval(a_, bind, defs, depth + 1), (s.prog.type(s.prog.vars[pid]['ty']) or {}))
                    for pid, a_ in zip(hf.param_ids, s.args())}
            ldefs = {}
            for st in stmts[:-1]:
                for d_ in st.c:
                    if d_.k == 'VarDecl' and d_.c:
                        ldefs[d_.decl_id] = d_.c[0]

            def bind2(x):
                v_ = var_of(x)
                if v_ is not None and v_ in vals and x.strip_all().k == 'DeclRefExpr':
                    return vals[v_]
                return None
            return ceval(stmts[-1].c[0], bind2, ldefs, depth + 1)
    raise Unknown('%s `%s`' % (k, s.text(30)))


def ast_conditions(node):
    """(condition node, polarity) of the enclosing if-statements / conditional operators of node (structured path condition;
    exact for code without goto, up to earlier early exits which only strengthen it)"""
    res = []
    child = node
    for a in node.ancestors():
        if a.k in ('IfStmt', 'ConditionalOperator'):
            if a.then is not None and (a.then is child or a.then.is_ancestor_of(child)):
                res.append((a.cond, True))
            elif a.els is not None and (a.els is child or a.els.is_ancestor_of(child)):
                res.append((a.cond, False))
        child = a
    return res


# ------------------------------------------------------------------------------------------------
# common leaf recognisers (idiom tables): membership tests and null tests
# ------------------------------------------------------------------------------------------------
def membership(leaf):
    """(container node, key node, positive) if leaf tests whether key is in an associative container:
    c.find(k) != c.end() | c.find(k) == c.end() | c.count(k) [==,!=,>,<,>=] 0/1 | c.count(k) (as bool) | c.contains(k)"""
    s = leaf.strip_all()
    if s.k == 'CXXOperatorCallExpr' and s.op in ('==', '!=') and len(s.c) == 3:
        a, b = s.c[1].strip_all(), s.c[2].strip_all()

        def through_iterator(x):
            # `it` defined once as c.find(k)
            if x.k == 'DeclRefExpr' and x.decl_id is not None and x.fn is not None:
                d = unique_def(x.fn, x.decl_id)
                dd = d.strip_all() if d is not None else None
                if dd is not None and dd.k == 'CXXMemberCallExpr' and dd.callee and dd.callee['name'] == 'find':
                    return dd
            return x
        a, b = through_iterator(a), through_iterator(b)
        for x, y in ((a, b), (b, a)):
            if x.k == 'CXXMemberCallExpr' and x.callee and x.callee['name'] == 'find' and x.args() and \
                    y.k == 'CXXMemberCallExpr' and y.callee and y.callee['name'] in ('end', 'cend') and \
                    key(x.object_arg()) == key(y.object_arg()):
                return (x.object_arg(), x.args()[0], s.op == '!=')
    if s.k == 'CXXMemberCallExpr' and s.callee and s.callee['name'] in ('count', 'contains') and s.args() and s.object_arg() is not None:
        return (s.object_arg(), s.args()[0], True)
    # std::binary_search(c.begin(), c.end(), k) on a sorted sequence (sortedness is the caller's obligation: see sorted_before)
    if s.k == 'CallExpr' and s.callee and s.callee['g'] == 'std::binary_search' and len(s.args()) == 3:
        a0, a1 = s.args()[0].strip_all(), s.args()[1].strip_all()
        if a0.k == 'CXXMemberCallExpr' and a0.callee and a0.callee['name'] in ('begin', 'cbegin') and a1.k == 'CXXMemberCallExpr' and \
                a1.callee and a1.callee['name'] in ('end', 'cend') and key(a0.object_arg()) == key(a1.object_arg()):
            return (a0.object_arg(), s.args()[2], True)
    if s.k == 'BinaryOperator' and s.op in ('==', '!=', '>', '<', '>=', '<=') and len(s.c) == 2:
        a, b = s.c[0].strip_all(), s.c[1].strip_all()
        for x, y, flip in ((a, b, False), (b, a, True)):
            if x.k == 'CXXMemberCallExpr' and x.callee and x.callee['name'] in ('count', 'erase') and x.args() and y.cv in (0, 1) and \
                    (x.callee['name'] == 'count' or _erase_by_key(x)):
                op = s.op
                if flip:
                    op = {'>': '<', '<': '>', '>=': '<=', '<=': '>=', '==': '==', '!=': '!='}[op]
                # count is 0 or 1 for sets/maps
                truth = {('==', 0): False, ('!=', 0): True, ('>', 0): True, ('<=', 0): False, ('>=', 1): True, ('<', 1): False,
                         ('==', 1): True, ('!=', 1): False}.get((op, y.cv))
                if truth is None:
                    return None
                return (x.object_arg(), x.args()[0], truth)
    return None


def _erase_by_key(x):
    """c.erase(key) of a set/map (returns the number of elements removed: 1 iff key was a member), not erase(iterator)"""
    rt = (x.prog.type(x.callee.get('ret')) or {}) if x.callee else {}
    return bool(rt.get('int')) and not rt.get('bool')


def sorted_before(fn, container_var, node):
    """a std::sort / std::stable_sort of the whole container (default comparator) dominates node and nothing appends to it in between"""
    cfg = fn.cfg
    for x in fn.walk():
        if x.k == 'CallExpr' and x.callee and x.callee['g'] in ('std::sort', 'std::stable_sort') and len(x.args()) == 2:
            a0 = x.args()[0].strip_all()
            if a0.k == 'CXXMemberCallExpr' and a0.callee and a0.callee['name'] == 'begin' and var_of(a0.object_arg()) == container_var and cfg.dominates(x, node):
                later = [y for y in fn.walk() if y.k == 'CXXMemberCallExpr' and y.callee and y.callee['name'] in ('push_back', 'emplace_back', 'insert') and
                         var_of(y.object_arg()) == container_var and cfg.reaches(x, y) and cfg.reaches(y, node)]
                if not later:
                    return True
    return False


def null_test(leaf):
    """(pointer expression node, is_null) if leaf tests a (smart) pointer against null: p == nullptr | p != nullptr | p (as bool) |
    p.get() == nullptr.  `!p` is handled by formula() through the negation of `p`."""
    s = leaf.strip_all()

    def is_null_const(n):
        n = n.strip_all()
        if n.k in ('CXXNullPtrLiteralExpr', 'GNUNullExpr'):
            return True
        if n.k in CTOR_KINDS and len(n.c) == 1 and n.c[0].strip_all().k in ('CXXNullPtrLiteralExpr', 'GNUNullExpr'):
            return True
        return n.cv == 0 and (n.type or {}).get('ptr', False)

    def unget(n):
        n = n.strip_all()
        if n.k == 'CXXMemberCallExpr' and n.callee and n.callee['name'] == 'get' and not n.args():
            return n.object_arg()
        return n
    if s.k in ('CXXOperatorCallExpr', 'BinaryOperator') and s.op in ('==', '!='):
        ops = s.c[1:] if s.k == 'CXXOperatorCallExpr' else s.c
        if len(ops) == 2:
            for x, y in ((ops[0], ops[1]), (ops[1], ops[0])):
                if is_null_const(y) and not is_null_const(x):
                    return (unget(x), s.op == '==')
    if s.k == 'CXXMemberCallExpr' and s.callee and s.callee['name'] == 'operator bool':
        return (s.object_arg(), False)
    t = s.type or {}
    if s.k in ('DeclRefExpr', 'MemberExpr') and t.get('ptr'):
        return (s, False)
    return None


def opaque_nodes(fn, f):
    """AST nodes behind the opaque atoms of a formula"""
    res = []
    for a in f_atoms(f):
        if isinstance(a, tuple) and a and a[0] == 'opaque':
            n = fn.nodes.get(a[1])
            if n is not None:
                res.append(n)
    return res


def flow_after(cfg, start_node, stop):
    """CFG elements (nodes) that can be evaluated after `start_node` on some path, in evaluation order per path, cutting every
    path at the first element for which stop(node) is true (that element itself is not yielded).  Element granularity: every
    sub-expression is its own CFG element (the extractor builds the CFG with setAllAlwaysAdd)."""
    pos = cfg.pos_of(start_node)
    if not pos:
        return []
    fn = cfg.fn
    out = []
    seen_blocks = set()
    work = []

    def scan(bid, i0):
        blk = cfg.blocks[bid]
        for e in blk.elems[i0:]:
            n = fn.nodes.get(e) if e is not None and e >= 0 else None
            if n is None:
                continue
            if stop(n):
                return
            out.append(n)
        for s_ in blk.succ:
            if s_ is not None and s_ not in seen_blocks:
                seen_blocks.add(s_)
                work.append(s_)
    scan(pos[0], pos[1] + 1)
    while work:
        b = work.pop()
        scan(b, 0)
    return out


def snapshot_stale(fn, var_id, use):
    """is the single definition of the local `var_id` a snapshot that is out of date at `use`: something its defining expression
    reads is written on a path from the definition to the use (that does not re-execute the definition)?  Returns the
    writing node or None"""
    cfg = fn.cfg
    decls = [n for n in fn.walk() if n.k == 'VarDecl' and n.decl_id == var_id and n.c]
    if cfg is None or len(decls) != 1:
        return None
    decl = decls[0]
    start = decl.parent if decl.parent is not None and decl.parent.k == 'DeclStmt' and decl.parent.i in cfg.positions() else decl

    def is_decl(x):
        return x is decl or x is start
    after = None
    for vid in vars_in(decl.c[0]):
        vi = fn.prog.vars[vid] if vid < len(fn.prog.vars) else {}
        if vi.get('kind') not in ('local', 'param') or vid == var_id:
            continue
        for (an, _r) in assignments_to(fn, vid):
            if an.k == 'VarDecl':
                continue
            if after is None:
                after = set(x.i for x in flow_after(cfg, start, is_decl))
            probe = an
            if probe.i not in after:
                # the write may not be a CFG element itself: look at its first evaluated descendant
                if not any(d.i in after for d in an.walk()):
                    continue
            later = flow_after(cfg, an, is_decl)
            if any(x is use or x.i == use.i for x in later) or any(x.i == use.i for l_ in later for x in ()):
                return an
    return None
