"""A6 - parallel-body effect analysis, and the mutation/access-path machinery it needs.

For every call into namespace tbb named parallel_for / parallel_reduce / parallel_for_each / parallel_invoke the
functor arguments' operator() bodies (all specialisations of generic lambdas) are examined: which variables
declared outside the body does it write, through which access path, and is each write one of the accepted idioms
(W-local, W-concurrent, W-own-index)?  Nothing is executed.
"""
from . import ex

PAR_NAMES = ('parallel_for', 'parallel_reduce', 'parallel_for_each', 'parallel_invoke', 'parallel_do',
             'parallel_deterministic_reduce', 'parallel_scan', 'parallel_sort', 'run', 'run_and_wait')

NONMUT_METHODS = {'at', 'operator[]', 'begin', 'end', 'cbegin', 'cend', 'rbegin', 'rend', 'front', 'back', 'data',
                  'size', 'empty', 'find', 'count', 'lower_bound', 'upper_bound', 'equal_range', 'get', 'top', 'c_str',
                  'max_size', 'capacity', 'key_comp', 'value_comp', 'operator->', 'operator*', 'range'}
ELEMENT_ACCESSORS = {'at', 'operator[]', 'front', 'back', 'begin', 'end', 'data', 'operator->', 'operator*', 'get'}
CONCURRENT_GROWTH = {'push_back', 'emplace_back', 'grow_by', 'grow_to_at_least', 'push', 'emplace', 'insert'}
MUT_OPS = {'=', '+=', '-=', '*=', '/=', '%=', '^=', '|=', '&=', '<<=', '>>=', '++', '--'}
SAFE_REF_CALLEES = {'std::get', 'std::forward', 'std::move', 'std::tie', 'std::ref', 'std::cref', 'std::addressof',
                    'boost::get', 'boost::source', 'boost::target', 'boost::opposite', 'boost::out_edges',
                    'boost::num_vertices', 'boost::num_edges', 'boost::vertices', 'boost::edges', 'std::begin', 'std::end',
                    'std::min', 'std::max', 'std::accumulate', 'std::make_tuple', 'std::make_pair'}


def is_parallel_call(n):
    if n.k not in ('CallExpr', 'CXXMemberCallExpr') or not n.callee:
        return False
    g = n.callee['g']
    return (g.startswith('tbb::') or g.startswith('oneapi::tbb::')) and n.callee['name'] in PAR_NAMES


def rec_of(prog, node):
    t = prog.base_type(node.strip_all().j.get('t')) or {}
    return t.get('rec') or ''


def access_path(n):
    """(root var id or None, [index nodes outermost-last], [accessor names]) for an lvalue-ish expression"""
    idx = []
    names = []
    s = n.strip_all()
    guard = 0
    while guard < 40:
        guard += 1
        k = s.k
        if k == 'DeclRefExpr':
            return s.decl_id, idx, names
        if k == 'MemberExpr':
            base = s.c[0].strip_all() if s.c else None
            if s.decl_id is not None and base is not None and base.k == 'CXXThisExpr':
                return s.decl_id, idx, names
            if base is None:
                return None, idx, names
            if s.decl_id is not None:
                names.append('.' + (s.decl.get('name') or '?'))
            s = base
            continue
        if k == 'CXXOperatorCallExpr' and s.op in ('[]',) and len(s.c) == 3:
            idx.append(s.c[2])
            names.append('[]')
            s = s.c[1].strip_all()
            continue
        if k == 'CXXOperatorCallExpr' and s.op in ('*', '->') and len(s.c) >= 2:
            names.append(s.op)
            s = s.c[1].strip_all()
            continue
        if k == 'ArraySubscriptExpr':
            idx.append(s.c[1])
            names.append('[]')
            s = s.c[0].strip_all()
            continue
        if k == 'UnaryOperator' and s.op in ('*', '&'):
            s = s.c[0].strip_all()
            continue
        if k == 'CXXMemberCallExpr' and s.callee and s.callee['name'] in ELEMENT_ACCESSORS:
            if s.callee['name'] == 'at' and s.args():
                idx.append(s.args()[0])
            names.append(s.callee['name'])
            o = s.object_arg()
            if o is None:
                return None, idx, names
            s = o.strip_all()
            continue
        if k == 'CallExpr' and s.callee and s.callee['g'] in ('std::get', 'boost::get') and s.args():
            names.append('get')
            s = s.args()[-1].strip_all() if s.callee['g'] == 'std::get' else s.args()[0].strip_all()
            continue
        return None, idx, names
    return None, idx, names


class Effects(object):
    def __init__(self, prog):
        self.prog = prog
        self._summ = {}

    # ------------------------------------------------------------------ write events of one function body
    def writes(self, fn):
        """list of (node, target expression, how) for every construct of fn that may modify an object"""
        prog = self.prog
        out = []
        for n in fn.walk():
            k = n.k
            if k == 'BinaryOperator' and n.op == '=':
                out.append((n, n.c[0], 'assign'))
            elif k == 'CompoundAssignOperator':
                out.append((n, n.c[0], 'assign'))
            elif k == 'UnaryOperator' and n.op in ('++', '--'):
                out.append((n, n.c[0], 'assign'))
            elif k == 'CXXOperatorCallExpr':
                if n.op in MUT_OPS and len(n.c) >= 2:
                    c = n.callee
                    if not (c and c.get('constm')):
                        out.append((n, n.c[1], 'assign'))
                elif n.op == '[]' and len(n.c) == 3 and rec_of(prog, n.c[1]) in ('std::map', 'std::unordered_map'):
                    out.append((n, n.c[1], 'map-subscript'))
                elif n.op == '()' and len(n.c) >= 2:
                    c = n.callee
                    if c and c.get('method') and not c.get('constm') and not c.get('static') and not c.get('lambda_op'):
                        out.append((n, n.c[1], 'nonconst-call'))
                    out.extend(self.ref_args(n, c, n.c[2:]))
            elif k == 'CXXMemberCallExpr':
                c = n.callee
                o = n.object_arg()
                if c and o is not None and not c.get('constm') and not c.get('static'):
                    name = c['name']
                    if name not in NONMUT_METHODS:
                        out.append((n, o, 'method:' + name))
                out.extend(self.ref_args(n, c, n.args()))
            elif k == 'CallExpr':
                out.extend(self.ref_args(n, n.callee, n.args()))
            elif k in ex.CTOR_KINDS:
                c = n.callee
                if c and not c.get('copy_ctor') and not c.get('move_ctor'):
                    out.extend(self.ref_args(n, c, n.c))
        return out

    def ref_args(self, call, callee, args):
        """arguments bound to non-const lvalue reference parameters that the callee may modify"""
        prog = self.prog
        res = []
        if callee is None:
            return res
        if callee['g'] in SAFE_REF_CALLEES:
            return res
        ptypes = callee.get('params', [])
        mutated = None
        fn = prog.fn_of_fref(call.callee_id) if call.callee_id is not None else None
        if fn is not None and callee.get('in_repo'):
            mutated = self.mutated_params(fn)
        for ix, a in enumerate(args):
            if ix >= len(ptypes):
                break
            pt = prog.type(ptypes[ix]) or {}
            if not pt.get('ref') or pt.get('rref') or pt.get('const'):
                continue
            if a.k == 'CXXDefaultArgExpr':
                continue
            if mutated is not None and ix not in mutated:
                continue
            res.append((call, a, 'byref:%s' % callee['name']))
        return res

    def mutated_params(self, fn, _stack=None):
        """indexes of reference parameters fn may modify (transitively through repo callees)"""
        if fn.fref_id in self._summ:
            return self._summ[fn.fref_id]
        _stack = _stack or set()
        if fn.fref_id in _stack:
            return set(range(len(fn.param_ids)))
        self._summ[fn.fref_id] = set(range(len(fn.param_ids)))   # pessimistic while computing (recursion)
        res = set()
        pids = fn.param_ids
        for (node, target, how) in self.writes(fn):
            root, idx, names = access_path(target)
            if root in pids:
                pt = self.prog.type(self.prog.vars[root]['ty']) or {}
                if pt.get('ref') and not pt.get('const'):
                    res.add(pids.index(root))
        # iterator/back_inserter style parameters passed by value that alias caller storage are not tracked
        self._summ[fn.fref_id] = res
        return res

    def static_writes(self, fn, _seen=None, depth=0):
        """writes to static-storage variables in fn and the repo functions it calls"""
        _seen = _seen if _seen is not None else set()
        if fn.fref_id in _seen or depth > 12:
            return []
        _seen.add(fn.fref_id)
        res = []
        for (node, target, how) in self.writes(fn):
            root, idx, names = access_path(target)
            if root is not None and self.prog.vars[root]['kind'] in ('static_local', 'global', 'static_member'):
                res.append((node, fn, root))
        for ci in ex.callees_of(fn):
            g = self.prog.fn_of_fref(ci)
            if g is not None and self.prog.frefs[ci].get('in_repo'):
                res.extend(self.static_writes(g, _seen, depth + 1))
        return res


def lambda_functions(prog, node):
    """Function objects of the call operator(s) of a functor argument (lambda expression, or a local variable
    initialised with one)"""
    s = node.strip_all()
    if s.k == 'LambdaExpr':
        return [f for f in (prog.fn_of_fref(op) for op in s.j.get('lambda_ops', ())) if f is not None], s
    v = ex.var_of(s)
    if v is not None:
        fn = node.fn
        d = ex.unique_def(fn, v)
        if d is not None:
            dd = d.strip_all()
            if dd.k == 'LambdaExpr':
                return [f for f in (prog.fn_of_fref(op) for op in dd.j.get('lambda_ops', ())) if f is not None], dd
    # functor object of a repo class
    t = prog.base_type(s.j.get('t')) or {}
    rid = t.get('repo_rec')
    if rid is not None:
        rec = prog.records[rid]
        fs = []
        for m in rec.get('methods', []):
            if m.get('name') == 'operator()' and 'fref' in m:
                f = prog.fn_of_fref(m['fref'])
                if f is not None:
                    fs.append(f)
        return fs, s
    return [], s


def is_shared(prog, lam_fn, var_id):
    v = prog.vars[var_id]
    kind = v['kind']
    if kind == 'field':
        # fields of the closure object itself do not exist in the model (captures are referenced directly);
        # any field reached through a captured `this` is shared
        return True
    if kind in ('static_local', 'global', 'static_member'):
        return True
    if kind in ('local', 'param', 'binding'):
        return v.get('fn') != lam_fn.fref_id
    return False


def induction_vars(lam_fn, call=None):
    """variables initialised from <range param>.begin() in the task body"""
    if not lam_fn.param_ids:
        return set(), None
    r = lam_fn.param_ids[0]
    ivs = set()
    # index form  parallel_for(first, last, [](Index i) {...}):  the integral parameter is the (per-task distinct) index itself
    pt = lam_fn.prog.base_type(lam_fn.prog.vars[r].get('ty')) or {}
    index_form = call is not None and call.callee and call.callee['name'] == 'parallel_for' and len(call.args()) >= 3 and \
        all(((a.strip_all().type or {}).get('int') or (lam_fn.prog.base_type(a.strip_all().j.get('t')) or {}).get('int')) for a in call.args()[:2])
    if pt.get('int') and not pt.get('bool') and index_form:
        ivs.add(r)
    for d in lam_fn.walk():
        if d.k == 'VarDecl' and d.c:
            ini = d.c[0].strip_all()
            if ini.k == 'CXXMemberCallExpr' and ini.callee and ini.callee['name'] == 'begin' and ex.var_of(ini.object_arg()) == r:
                ivs.add(d.decl_id)
    return ivs, r
