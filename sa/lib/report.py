"""Decision + evidence plumbing shared by all property checks.

exit 0  every rule instance decided OK (known findings are printed as KNOWN-FINDING lines)
exit 1  VIOLATION property=<id> replay=<file>   (a rule instance is violated and not a listed finding)
exit 2  ANALYSIS-BROKEN property=<id> ...       (anchor vanished, instance floor not met, a TU does not
        parse, a positive example was not flagged, or a construct is outside every decidable idiom)
"""
import json
import os
import sys
import time

from . import env


class Instance(object):
    __slots__ = ('rule', 'site', 'function', 'what', 'status', 'detail', 'key', 'trivial', 'tus')

    def __init__(self, rule, site, function, what, status, detail, key, trivial):
        self.rule = rule
        self.site = site
        self.function = function
        self.what = what
        self.status = status  # 'ok' | 'violation' | 'undecided' | 'info'
        self.detail = detail
        self.key = key
        self.trivial = trivial
        self.tus = set()

    def as_dict(self):
        d = {'rule': self.rule, 'site': self.site, 'function': self.function, 'checked': self.what,
             'verdict': self.status}
        if self.detail:
            d['detail'] = self.detail
        if self.key:
            d['key'] = self.key
        return d


RANK = {'ok': 0, 'info': 0, 'undecided': 1, 'violation': 2}


class Report(object):
    def __init__(self, prop, tier='quick', title=''):
        self.prop = prop
        self.tier = tier
        self.title = title
        self.t0 = time.time()
        self.instances = {}
        self.floors = {}
        self.rule_docs = {}
        self.broken = []
        self.notes = []
        self.assumptions = []
        self.trusted = ['clang 14 front end (Sema, template instantiation) and clang::CFG',
                        'the idiom / accessor tables of /verif/sa/rules', 'parmcb-sa extractor']
        self.tus = set()
        self.functions_visited = 0
        self.extra = {}
        self.positives = []
        self.cmds = []

    # ------------------------------------------------------------------ recording
    def rule(self, rule, doc, floor=0):
        self.rule_docs[rule] = doc
        self.floors[rule] = max(self.floors.get(rule, 0), floor)

    def add(self, rule, node_or_site, function, what, status='ok', detail='', key=None, trivial=False, tu=None):
        if hasattr(node_or_site, 'site'):
            site = node_or_site.site
        else:
            site = str(node_or_site)
        fname = function.g if hasattr(function, 'g') else str(function)
        site = site.replace(env.REPO.rstrip('/') + '/', '').replace(env.VERIF.rstrip('/') + '/', 'verif:')
        ident = (rule, site, fname, what)
        inst = self.instances.get(ident)
        if inst is None:
            inst = Instance(rule, site, fname, what, status, detail, key or ('%s|%s|%s' % (rule, fname, what)), trivial)
            self.instances[ident] = inst
        else:
            if RANK[status] > RANK[inst.status]:
                inst.status = status
                inst.detail = detail
        if tu:
            inst.tus.add(tu)
        return inst

    def ok(self, rule, node, function, what, detail='', **kw):
        return self.add(rule, node, function, what, 'ok', detail, **kw)

    def violation(self, rule, node, function, what, detail='', key=None, **kw):
        return self.add(rule, node, function, what, 'violation', detail, key=key, **kw)

    def undecided(self, rule, node, function, what, detail='', **kw):
        return self.add(rule, node, function, what, 'undecided', detail, **kw)

    def info(self, rule, node, function, what, detail='', **kw):
        return self.add(rule, node, function, what, 'info', detail, trivial=True, **kw)

    def analysis_broken(self, msg):
        self.broken.append(msg)

    def positive(self, rule, name, fired):
        """a deliberately violating example must be flagged on every run"""
        self.positives.append({'rule': rule, 'example': name, 'flagged': bool(fired)})
        if not fired:
            self.broken.append('positive example %s for rule %s was not flagged' % (name, rule))

    def note(self, s):
        self.notes.append(s)

    def assume(self, s):
        if s not in self.assumptions:
            self.assumptions.append(s)

    def saw_programs(self, progs):
        for p in progs:
            self.tus.add((p.tu, getattr(p, 'variant', 'full')))
            self.functions_visited += len(p.functions)
            self.cmds.append(p.cmd)

    # ------------------------------------------------------------------ deciding
    def _known(self):
        path = os.path.join(env.VERIF, 'known_findings.json')
        try:
            with open(path) as fh:
                j = json.load(fh)
        except (OSError, ValueError):
            return []
        return [k for k in j.get('known', []) if k.get('property') == self.prop]

    def finish(self):
        wall = time.time() - self.t0
        known = self._known()
        known_keys = {k['key']: k for k in known}
        insts = list(self.instances.values())
        per_rule = {}
        for i in insts:
            if i.status == 'info':
                continue
            per_rule.setdefault(i.rule, []).append(i)
        for rule, floor in self.floors.items():
            n = len(per_rule.get(rule, []))
            # the hand-confirmed count is today's; a helper that merges sites legitimately lowers it, so the alarm is
            # raised when a rule has lost more than half of its instances (and always when it matches nothing)
            need = (floor + 1) // 2
            if n < need:
                self.broken.append('rule %s matched %d instance(s), fewer than half of the %d confirmed by hand '
                                   '(anchor vanished or renamed?)' % (rule, n, floor))
        viol = [i for i in insts if i.status == 'violation']
        und = [i for i in insts if i.status == 'undecided']
        new_viol = [i for i in viol if i.key not in known_keys]
        listed = [i for i in viol if i.key in known_keys]
        for i in und:
            self.broken.append('undecided: rule %s at %s in %s: %s (%s)' % (i.rule, i.site, i.function, i.what, i.detail))

        ev_dir = os.environ.get('PARMCB_EVIDENCE_DIR') or os.path.join(env.VERIF, 'evidence')
        os.makedirs(os.path.join(ev_dir, 'replay'), exist_ok=True)
        lines = []
        replays = []
        for n, i in enumerate(new_viol):
            rp = os.path.join(ev_dir, 'replay', '%s-%d.json' % (self.prop, n))
            with open(rp, 'w') as fh:
                json.dump({'property': self.prop, 'rule': i.rule, 'rule_doc': self.rule_docs.get(i.rule, ''),
                           'site': i.site, 'function': i.function, 'checked': i.what, 'detail': i.detail,
                           'key': i.key, 'translation_units': sorted(i.tus),
                           'rerun': 'cd /verif && ./check %s' % self.prop}, fh, indent=1)
            replays.append(rp)
            lines.append('VIOLATION property=%s replay=%s' % (self.prop, rp))
            lines.append('  rule %s at %s in %s: %s -- %s' % (i.rule, i.site, i.function, i.what, i.detail))
        for i in listed:
            lines.append('KNOWN-FINDING: property=%s %s at %s (%s)' % (self.prop, known_keys[i.key].get('what', i.what),
                                                                      i.site, i.rule))
        # clean stale replay files of this property
        for fn in os.listdir(os.path.join(ev_dir, 'replay')):
            if fn.startswith(self.prop + '-') and os.path.join(ev_dir, 'replay', fn) not in replays:
                try:
                    os.unlink(os.path.join(ev_dir, 'replay', fn))
                except OSError:
                    pass

        nontrivial = [i for i in insts if not i.trivial and i.status != 'info']
        distinct_sites = len({(i.rule, i.site) for i in nontrivial})
        samples = []
        seen_rules = {}
        for i in sorted(insts, key=lambda x: (x.rule, x.site)):
            if seen_rules.get(i.rule, 0) < 4:
                samples.append(i.as_dict())
                seen_rules[i.rule] = seen_rules.get(i.rule, 0) + 1
        rules = {}
        for rule in sorted(set(list(self.rule_docs) + [i.rule for i in insts])):
            ri = [i for i in insts if i.rule == rule]
            rules[rule] = {'doc': self.rule_docs.get(rule, ''), 'floor': self.floors.get(rule, 0),
                           'instances': len([i for i in ri if i.status != 'info']),
                           'ok': len([i for i in ri if i.status == 'ok']),
                           'violations': len([i for i in ri if i.status == 'violation']),
                           'undecided': len([i for i in ri if i.status == 'undecided']),
                           'info': len([i for i in ri if i.status == 'info'])}
        obligations = len([i for i in insts if i.status != 'info'])
        discharged = len([i for i in insts if i.status == 'ok'])
        coverage = {
            'explanation': ('Static analysis (libTooling extractor + rule engine) of the type-checked, '
                            'template-instantiated program of /repo as it is now; no repo code was run. '
                            + self.title),
            'evaluations': max(obligations, 1),
            'distinct_nontrivial': distinct_sites,
            'rule': ('an evaluation is one rule instance (rule, source site, function template) deduplicated over '
                     'translation units and instantiations; it is non-trivial when the rule attached an obligation to '
                     'the site (info-only matches are not counted)'),
            'samples': samples or [{'note': 'no instance'}],
            'obligations': obligations,
            'discharged': discharged,
            'rules': rules,
            'translation_units': sorted('%s [%s]' % t for t in self.tus),
            'functions_visited': self.functions_visited,
            'checker_cmd': 'cd /verif && ./check %s --tier %s' % (self.prop, self.tier),
            'extractor_cmds': self.cmds[:3],
            'trusted_base': self.trusted,
            'positive_examples': self.positives,
            'known_findings_printed': [i.as_dict() for i in listed],
            'analysis_broken': self.broken,
            'notes': self.notes,
            'info_matches': [i.as_dict() for i in insts if i.status == 'info'][:40],
        }
        coverage.update(self.extra)
        ev = {'property_id': self.prop, 'tier': self.tier, 'seed': int(os.environ.get('VERIF_SEED', '0') or 0),
              'level': 'other', 'coverage': coverage, 'assumptions': self.assumptions,
              'wall_s': round(wall, 2), 'violations': len(new_viol)}
        with open(os.path.join(ev_dir, self.prop + '.json'), 'w') as fh:
            json.dump(ev, fh, indent=1, sort_keys=False)
            fh.write('\n')

        for l in lines:
            print(l)
        summ = '%s: %d rule instance(s), %d ok, %d violation(s) (%d listed), %d undecided; %d TU(s), %d function bodies, %.1fs' % (
            self.prop, obligations, discharged, len(viol), len(listed), len(und), len(self.tus),
            self.functions_visited, wall)
        print(summ)
        if new_viol:
            return 1
        if self.broken:
            for b in self.broken:
                print('ANALYSIS-BROKEN property=%s %s' % (self.prop, b))
            return 2
        return 0
