"""A5 - two-world affinity inference.

Inside the approximate algorithms two graphs of the *same C++ type* coexist: the caller's graph G
and the internal spanner S.  Every expression of graph / vertex / edge / property-map / container
type gets a world in the lattice

      None (unknown, bottom)  <  'G', 'S'  <  'T' (used with both: always an error)
      ('kv', key_world, value_world)   associative things: std::map<Edge,Edge>, function property maps
      ('out', 'CALLER' | var_id)       output iterators: the caller's, or a back_inserter of a local

Sequences, iterators, ranges, pairs and tuples carry the world of their elements.  The inference is
flow-insensitive per variable (join over all assignments) and inter-procedural over the functions
in scope (parameters are bound from call sites, fields are shared by the methods of an object).
BGL accessors transfer worlds and impose same-world requirements; a requirement that fails is a
violation by itself.  Nothing is executed: this is a type-like inference the C++ type system cannot
do because both worlds have one type.
"""
import re

from . import ex

EXACT_RE = re.compile(r'^parmcb::(detail::)?_?mcb_sva_\w+?(::operator\(\))?$')
TAG_RE = re.compile(r'_t$')

PASS_THROUGH_MEMBERS = {'begin', 'end', 'cbegin', 'cend', 'rbegin', 'rend', 'front', 'back', 'top', 'first', 'second',
                        'base', 'get'}
APPEND_MEMBERS = {'push_back', 'emplace_back', 'push_front', 'push', 'insert', 'emplace', 'grow_by'}
LOOKUP_MEMBERS = {'at', 'find', 'operator[]', 'count', 'lower_bound', 'upper_bound'}


def join(a, b):
    if a is None:
        return b
    if b is None:
        return a
    if a == b:
        return a
    if isinstance(a, tuple) and isinstance(b, tuple) and a[0] == b[0] == 'kv':
        return ('kv', join(a[1], b[1]), join(a[2], b[2]))
    if isinstance(a, tuple) and isinstance(b, tuple) and a[0] == b[0] == 'out':
        return a
    if isinstance(a, tuple) and a[0] == 'kv' and not isinstance(b, tuple):
        return ('kv', a[1], join(a[2], b))
    if isinstance(b, tuple) and b[0] == 'kv' and not isinstance(a, tuple):
        return ('kv', b[1], join(b[2], a))
    if isinstance(a, tuple) or isinstance(b, tuple):
        return a if isinstance(a, tuple) else b
    return 'T'


def atom(w):
    """element world of a possibly structured world"""
    if isinstance(w, tuple):
        if w[0] == 'kv':
            return w[2]
        return None
    return w


class Worlds(object):
    def __init__(self, prog, fns):
        self.prog = prog
        self.fns = list(fns)
        self.in_scope = {f.fref_id: f for f in self.fns}
        self.W = {}
        self.ret = {}
        self.changed = False
        self.checking = False
        self.problems = {}      # node id (fn id, node id) -> (node, fn, message)
        self.sinks = []         # (node, fn, world, dest)   recorded while checking
        self.cur_fn = None

    # ------------------------------------------------------------------ lattice updates
    def grow(self, var, w):
        if var is None or w is None:
            return
        old = self.W.get(var)
        new = join(old, w)
        if new != old:
            self.W[var] = new
            self.changed = True

    def grow_ret(self, fref, w):
        if w is None:
            return
        old = self.ret.get(fref)
        new = join(old, w)
        if new != old:
            self.ret[fref] = new
            self.changed = True

    def problem(self, node, msg):
        if self.checking:
            self.problems[(self.cur_fn.id, node.i)] = (node, self.cur_fn, msg)

    def require_same(self, node, a, b, what):
        a, b = atom(a), atom(b)
        if a in ('G', 'S') and b in ('G', 'S') and a != b:
            self.problem(node, '%s: a %s-world descriptor is used with a %s-world graph/map' % (
                what, {'G': "caller's-graph (G)", 'S': 'internal-spanner (S)'}[a],
                {'G': "caller's-graph (G)", 'S': 'internal-spanner (S)'}[b]))
        if a == 'T' or b == 'T':
            self.problem(node, '%s: operand mixes both worlds' % what)

    # ------------------------------------------------------------------ evaluation
    def var_world(self, vid):
        return self.W.get(vid)

    def world(self, n):
        if n is None:
            return None
        s = n.strip_all()
        k = s.k
        if k == 'DeclRefExpr':
            return self.W.get(s.decl_id) if s.decl_id is not None else None
        if k == 'MemberExpr':
            if s.decl_id is not None:
                base = s.c[0].strip_all() if s.c else None
                if base is not None and base.k == 'CXXThisExpr':
                    return self.W.get(s.decl_id)
                d = s.decl
                if d and d.get('kind') == 'field' and self.W.get(s.decl_id) is not None:
                    return self.W.get(s.decl_id)
                bw = self.world(s.c[0]) if s.c else None
                if isinstance(bw, tuple) and bw[0] == 'kv' and d:
                    if d.get('name') == 'first':
                        return bw[1]
                    if d.get('name') == 'second':
                        return bw[2]
                return bw
            return None
        if k in ('CallExpr',):
            return self.call(s)
        if k == 'CXXMemberCallExpr':
            return self.member_call(s)
        if k == 'CXXOperatorCallExpr':
            return self.operator_call(s)
        if k in ex.CTOR_KINDS:
            return self.construct(s)
        if k in ('BinaryOperator',):
            if s.op == '=':
                self.assign(s, s.c[0], s.c[1])
                return self.world(s.c[0])
            if s.op in ('==', '!=', '<', '>', '<=', '>='):
                self.require_same(s, self.world(s.c[0]), self.world(s.c[1]), 'comparison `%s`' % s.text(50))
                return None
            if s.op == ',':
                self.world(s.c[0])
                return self.world(s.c[1])
            return None
        if k == 'UnaryOperator':
            if s.op in ('*', '&', '++', '--'):
                return self.world(s.c[0])
            return None
        if k == 'ConditionalOperator':
            return join(self.world(s.then), self.world(s.els))
        if k == 'ArraySubscriptExpr':
            return self.world(s.c[0])
        if k == 'InitListExpr':
            w = None
            for c in s.c:
                w = join(w, atom(self.world(c)))
            return w
        if k == 'LambdaExpr':
            return None
        return None

    # ---- helpers
    def is_tag(self, n):
        t = n.strip_all().type or {}
        name = (t.get('rec') or '') or (t.get('canon') or '')
        name = name.replace('const ', '').strip()
        return name.startswith('boost::') and bool(TAG_RE.search(name))

    def bind(self, callee_fn, args, this_obj=None):
        pids = callee_fn.param_ids
        for pid, a in zip(pids, args):
            self.grow(pid, self.world(a))

    def emit(self, node, w, dest):
        """a value of world w is written to output iterator world dest"""
        if isinstance(dest, tuple) and dest[0] == 'out':
            if dest[1] == 'CALLER':
                if self.checking:
                    self.sinks.append((node, self.cur_fn, atom(w)))
            else:
                self.grow(dest[1], atom(w))

    def call(self, s):
        c = s.callee
        args = s.args()
        if c is None:
            for a in args:
                self.world(a)
            return None
        g = c['g']
        name = c['name']
        # in-scope repo functions: bind and use the return summary
        fn = self.in_scope.get(s.callee_id)
        if fn is not None:
            self.bind(fn, args)
            return self.ret.get(s.callee_id)
        if g in ('boost::source', 'boost::target') and len(args) == 2:
            ge = self.world(args[1])
            self.require_same(s, self.world(args[0]), ge, '%s(e, g)' % name)
            return atom(ge)
        if g == 'boost::opposite' and len(args) == 3:
            gw = self.world(args[2])
            self.require_same(s, self.world(args[0]), gw, 'opposite(e, v, g): edge')
            self.require_same(s, self.world(args[1]), gw, 'opposite(e, v, g): vertex')
            return atom(gw)
        if g in ('boost::out_edges', 'boost::in_edges', 'boost::adjacent_vertices', 'boost::out_degree',
                 'boost::degree') and len(args) == 2:
            gw = self.world(args[1])
            self.require_same(s, self.world(args[0]), gw, '%s(v, g)' % name)
            return atom(gw) if name in ('out_edges', 'in_edges', 'adjacent_vertices') else None
        if g in ('boost::edges', 'boost::vertices') and len(args) == 1:
            return atom(self.world(args[0]))
        if g == 'boost::add_vertex':
            return atom(self.world(args[-1]))
        if g == 'boost::add_edge' and len(args) >= 3:
            gw = self.world(args[-1])
            self.require_same(s, self.world(args[0]), gw, 'add_edge(u, v, g): u')
            self.require_same(s, self.world(args[1]), gw, 'add_edge(u, v, g): v')
            return atom(gw)
        if g == 'boost::edge' and len(args) == 3:
            gw = self.world(args[2])
            self.require_same(s, self.world(args[0]), gw, 'edge(u, v, g): u')
            self.require_same(s, self.world(args[1]), gw, 'edge(u, v, g): v')
            return atom(gw)
        if g == 'boost::vertex' and len(args) == 2:
            return atom(self.world(args[1]))
        if g in ('boost::num_vertices', 'boost::num_edges'):
            return None
        if g == 'boost::get':
            if len(args) == 2 and self.is_tag(args[0]):
                return atom(self.world(args[1]))
            if len(args) == 3 and self.is_tag(args[0]):
                self.require_same(s, self.world(args[2]), self.world(args[1]), 'get(tag, g, key)')
                return None
            if len(args) == 2:
                m = self.world(args[0])
                kw = self.world(args[1])
                if isinstance(m, tuple) and m[0] == 'kv':
                    self.require_same(s, kw, m[1], 'get(map, key)')
                    return m[2]
                self.require_same(s, kw, m, 'get(map, key)')
                return None
        if g == 'boost::put':
            if len(args) == 4 and self.is_tag(args[0]):
                self.require_same(s, self.world(args[2]), self.world(args[1]), 'put(tag, g, key, value)')
                return None
            if len(args) == 3:
                m = self.world(args[0])
                kw = self.world(args[1])
                if isinstance(m, tuple) and m[0] == 'kv':
                    self.require_same(s, kw, m[1], 'put(map, key, value)')
                    v = ex.var_of(args[0])
                    if v is not None:
                        self.grow(v, ('kv', None, atom(self.world(args[2]))))
                else:
                    self.require_same(s, kw, m, 'put(map, key, value)')
                return None
        if g in ('std::get', 'std::move', 'std::forward', 'std::make_pair', 'std::make_tuple', 'boost::make_tuple',
                 'boost::get<0>', 'std::ref', 'std::cref', 'boost::make_iterator_range', 'std::next', 'std::prev',
                 'std::min', 'std::max'):
            w = None
            for a in args:
                w = join(w, atom(self.world(a)))
            return w
        if g in ('std::back_inserter', 'std::front_inserter', 'std::inserter') and args:
            v = ex.var_of(args[0])
            if v is not None:
                return ('out', v)
            return None
        if g in ('std::copy', 'std::move', 'std::copy_if') and len(args) >= 3:
            self.emit(s, self.world(args[0]), self.world(args[2]))
            return None
        if g == 'std::transform' and len(args) == 4:
            # dst <- f(src element): bind the functor's parameter to the source world, emit its result into the destination
            from . import par as _par
            ew = atom(self.world(args[0]))
            fs, _ln = _par.lambda_functions(self.prog, args[3])
            rw = None
            for lf in fs:
                if lf.param_ids:
                    self.grow(lf.param_ids[0], ew)
                rw = join(rw, atom(self.ret.get(lf.fref_id)))
            self.emit(s, rw, self.world(args[2]))
            return None
        if g == 'std::accumulate' and len(args) == 4:
            from . import par as _par
            ew = atom(self.world(args[0]))
            fs, _ln = _par.lambda_functions(self.prog, args[3])
            for lf in fs:
                if len(lf.param_ids) == 2:
                    self.grow(lf.param_ids[1], ew)
            return None
        if g in ('std::sort', 'std::stable_sort', 'std::for_each', 'std::find_if', 'std::any_of', 'std::all_of',
                 'std::remove_if', 'std::count_if'):
            ew = atom(self.world(args[0])) if args else None
            for a in args[2:]:
                la = a.strip_all()
                if la.k == 'LambdaExpr':
                    for op in la.j.get('lambda_ops', ()):
                        lf = self.prog.fn_of_fref(op)
                        if lf is not None:
                            for pid in lf.param_ids:
                                self.grow(pid, ew)
            return None
        if g == 'parmcb::is_bfs_reachable' and len(args) >= 3:
            gw = self.world(args[0])
            self.require_same(s, self.world(args[1]), gw, 'is_bfs_reachable(g, s, t, h): s')
            self.require_same(s, self.world(args[2]), gw, 'is_bfs_reachable(g, s, t, h): t')
            return None
        if g in ('parmcb::dijkstra', 'parmcb::lex_dijkstra') and len(args) >= 5:
            gw = self.world(args[0])
            self.require_same(s, self.world(args[1]), gw, '%s(g, weight, s, dist, pred): weight map' % name)
            self.require_same(s, self.world(args[2]), gw, '%s(g, weight, s, dist, pred): source' % name)
            for ix in (3, 4):
                mw = self.world(args[ix])
                if isinstance(mw, tuple) and mw[0] == 'kv':
                    self.require_same(s, mw[1], gw, '%s: key space of the %s map' % (name, 'distance' if ix == 3 else 'predecessor'))
            pv = ex.var_of(args[4])
            if pv is not None:
                self.grow(pv, ('kv', None, atom(gw)))
            return None
        if EXACT_RE.match(g) and len(args) >= 3:
            return self.exact_call(s, args)
        if g == 'std::tie':
            return None
        # unknown callee: an S-world graph must never travel together with the caller's iterator
        ws = [self.world(a) for a in args]
        if any(w == ('out', 'CALLER') for w in ws) and any(atom(w) == 'S' for w in ws) and c.get('in_repo'):
            self.problem(s, 'call to %s receives an internal-spanner (S) object together with the caller\'s output iterator' % g)
        return None

    def exact_call(self, s, args):
        gw = self.world(args[0])
        self.require_same(s, self.world(args[1]), gw, 'exact algorithm: weight map of another graph')
        self.emit(s, atom(gw), self.world(args[2]))
        return None

    def member_call(self, s):
        c = s.callee
        name = c['name'] if c else ''
        o = s.object_arg()
        args = s.args()
        fn = self.in_scope.get(s.callee_id)
        if fn is not None:
            self.bind(fn, args)
            return self.ret.get(s.callee_id)
        ow = self.world(o) if o is not None else None
        ov = ex.var_of(o) if o is not None else None
        if name in APPEND_MEMBERS and args:
            # insert(pos, value) / insert(value)
            val = args[-1]
            vw = self.world(val)
            if isinstance(ow, tuple) and ow[0] == 'kv':
                pass
            elif ov is not None:
                self.grow(ov, atom(vw))
            return None
        if name in ('at', 'find', 'count', 'operator[]', 'erase') and args:
            if isinstance(ow, tuple) and ow[0] == 'kv':
                self.require_same(s, self.world(args[0]), ow[1], '%s(key) on an associative container' % name)
                return ow[2] if name in ('at', 'operator[]') else ow
            if name in ('find', 'count', 'erase') and atom(ow) in ('G', 'S'):
                # set<Edge>::find(e)
                self.require_same(s, self.world(args[0]), ow, '%s(key)' % name)
            return ow
        if name in PASS_THROUGH_MEMBERS:
            return ow
        if name == 'assign' and ov is not None and args:
            self.grow(ov, atom(self.world(args[0])))
            return None
        if c and EXACT_RE.match(c['g']) and len(args) >= 3:
            return self.exact_call(s, args)
        for a in args:
            self.world(a)
        return None

    def operator_call(self, s):
        op = s.op
        ops = s.c[1:]
        c = s.callee
        fn = self.in_scope.get(s.callee_id)
        if op == '()':
            if fn is not None:
                self.bind(fn, ops[1:])
                return self.ret.get(s.callee_id)
            if c and EXACT_RE.match(c['g']) and len(ops) >= 4:
                return self.exact_call(s, ops[1:])
            ow = self.world(ops[0])
            if isinstance(ow, tuple) and ow[0] == 'kv' and len(ops) == 2:
                self.require_same(s, self.world(ops[1]), ow[1], 'functor(key)')
                return ow[2]
            # ForestIndex / other functors: unknown
            return None
        if op == '[]' and len(ops) == 2:
            ow = self.world(ops[0])
            if isinstance(ow, tuple) and ow[0] == 'kv':
                self.require_same(s, self.world(ops[1]), ow[1], 'map[key]')
                return ow[2]
            mw = atom(ow)
            kw = self.world(ops[1])
            # property map of a graph indexed with a descriptor
            t = ops[0].strip_all().type or {}
            if 'property_map' in (t.get('canon', '') + t.get('rec', '')):
                self.require_same(s, kw, mw, 'property_map[key]')
                return None
            return mw
        if op in ('*', '->', '++', '--') and ops:
            return self.world(ops[0])
        if op == '=' and len(ops) == 2:
            self.assign(s, ops[0], ops[1])
            return self.world(ops[0])
        if op in ('==', '!=', '<', '>', '<=', '>=') and len(ops) == 2:
            self.require_same(s, self.world(ops[0]), self.world(ops[1]), 'comparison `%s`' % s.text(50))
            return None
        if op in ('+=',) and len(ops) == 2:
            self.world(ops[1])
            return None
        for a in ops:
            self.world(a)
        return None

    def construct(self, s):
        c = s.callee
        g = c['g'] if c else ''
        args = s.c
        fn = self.in_scope.get(s.callee_id)
        if fn is not None:
            self.bind(fn, args)
            return None
        if g.startswith('parmcb::detail::VertexIndexFunctor::') and len(args) == 2:
            return ('kv', atom(self.world(args[1])), atom(self.world(args[0])))
        if g.startswith('boost::function_property_map::') and len(args) == 1:
            return self.world(args[0])
        if g.startswith('std::back_insert_iterator') and args:
            return self.world(args[0])
        if len(args) == 1:
            return self.world(args[0])
        w = None
        for a in args:
            aw = self.world(a)
            if not (isinstance(aw, tuple) and aw[0] == 'out'):
                w = join(w, atom(aw))
        return w

    def assign(self, node, lhs, rhs):
        l = lhs.strip_all()
        rw = self.world(rhs)
        # std::tie(a, b) = X
        if l.k == 'CallExpr' and l.callee and l.callee['g'] in ('std::tie', 'boost::tie', 'boost::tuples::tie'):
            for a in l.args():
                self.grow(ex.var_of(a), atom(rw))
            return
        # *out++ = X
        d = l
        if d.k == 'CXXOperatorCallExpr' and d.op == '*':
            inner = d.c[1].strip_all()
            while inner.k == 'CXXOperatorCallExpr' and inner.op in ('++', '--'):
                inner = inner.c[1].strip_all()
            dw = self.world(inner)
            if isinstance(dw, tuple) and dw[0] == 'out':
                self.emit(node, rw, dw)
                return
        if d.k == 'UnaryOperator' and d.op == '*':
            inner = d.c[0].strip_all()
            while inner.k == 'UnaryOperator' and inner.op in ('++', '--'):
                inner = inner.c[0].strip_all()
            dw = self.world(inner)
            if isinstance(dw, tuple) and dw[0] == 'out':
                self.emit(node, rw, dw)
                return
        # X[k] = v  /  X.at(k) = v
        if (l.k == 'CXXOperatorCallExpr' and l.op == '[]' and len(l.c) == 3) or \
                (l.k == 'CXXMemberCallExpr' and l.callee and l.callee['name'] == 'at'):
            if l.k == 'CXXOperatorCallExpr':
                cont, keyn = l.c[1], l.c[2]
            else:
                cont, keyn = l.object_arg(), l.args()[0]
            cv = ex.var_of(cont)
            cw = self.world(cont)
            t = self.prog.base_type(cont.strip_all().j.get('t')) or {}
            rec = t.get('rec', '') or ''
            if rec in ('std::map', 'std::unordered_map'):
                self.grow(cv, ('kv', atom(self.world(keyn)), atom(rw)))
                cw2 = self.W.get(cv)
                if isinstance(cw2, tuple) and cw2[0] == 'kv':
                    self.require_same(node, self.world(keyn), cw2[1], 'map[key] = value')
                return
            if isinstance(cw, tuple) and cw[0] == 'kv':
                self.require_same(node, self.world(keyn), cw[1], 'map[key] = value')
                if cv is not None:
                    self.grow(cv, ('kv', None, atom(rw)))
                return
            if 'property_map' in (t.get('canon', '') + rec):
                self.require_same(node, self.world(keyn), cw, 'property_map[key] = value')
                return
            if cv is not None:
                self.grow(cv, atom(rw))
            return
        v = ex.var_of(l)
        if v is not None:
            self.grow(v, rw)
            return
        # X[i].member = v / X.member = v / it->member = v: the aggregate (and the container it lives in) carries the element world
        if l.k == 'MemberExpr' and l.c and (l.decl or {}).get('kind') == 'field':
            root = l
            hops = 0
            while hops < 6:
                hops += 1
                r = root.strip_all()
                if r.k == 'MemberExpr' and r.c and r.c[0].strip_all().k != 'CXXThisExpr':
                    root = r.c[0]
                elif r.k == 'CXXOperatorCallExpr' and r.op in ('[]', '*', '->') and len(r.c) >= 2:
                    root = r.c[1]
                elif r.k == 'CXXMemberCallExpr' and r.callee and r.callee['name'] in ('at', 'front', 'back') and r.object_arg() is not None:
                    root = r.object_arg()
                elif r.k == 'UnaryOperator' and r.op == '*':
                    root = r.c[0]
                else:
                    break
            rv = ex.var_of(root)
            cw = self.W.get(rv) if rv is not None else None
            if rv is not None and not (isinstance(cw, tuple)) and atom(rw) is not None:
                self.grow(rv, atom(rw))

    # ------------------------------------------------------------------ driver
    def visit_function(self, fn):
        self.cur_fn = fn
        for ci in fn.ctor_inits:
            if 'node' in ci and 'field' in ci:
                self.grow(ci['field'], self.world(ci['node']))
        if fn.body is None:
            return
        for n in fn.body.walk():
            k = n.k
            if k == 'VarDecl':
                if n.c:
                    self.grow(n.decl_id, self.world(n.c[0]))
            elif k == 'ReturnStmt':
                if n.c:
                    self.grow_ret(fn.fref_id, self.world(n.c[0]))
            elif k in ('CallExpr', 'CXXMemberCallExpr', 'CXXOperatorCallExpr', 'BinaryOperator',
                       'CXXConstructExpr', 'CXXTemporaryObjectExpr'):
                # evaluate for effects / requirements (expression statements and nested calls)
                self.world(n)

    def solve(self, seeds):
        for v, w in seeds.items():
            self.W[v] = w
        rounds = 0
        while True:
            self.changed = False
            for fn in self.fns:
                self.visit_function(fn)
            rounds += 1
            if not self.changed or rounds > 30:
                break
        self.rounds = rounds
        self.checking = True
        for fn in self.fns:
            self.visit_function(fn)
        self.checking = False
        return self
