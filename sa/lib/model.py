"""Resolved-program model: wraps the JSON written by parmcb-sa (one file per translation unit).

Everything here is plain navigation over the type-checked, template-instantiated AST and the clang
CFG; no repo code is ever executed.
"""
import json
import os

TRANSPARENT = {
    'ImplicitCastExpr', 'ParenExpr', 'ExprWithCleanups', 'MaterializeTemporaryExpr',
    'CXXBindTemporaryExpr', 'ConstantExpr', 'SubstNonTypeTemplateParmExpr', 'FullExpr',
}
_src_cache = {}


def source_lines(path):
    if path not in _src_cache:
        try:
            with open(path, 'r', errors='replace') as fh:
                _src_cache[path] = fh.read().split('\n')
        except OSError:
            _src_cache[path] = []
    return _src_cache[path]


class Node(object):
    __slots__ = ('j', 'parent', 'fn', 'c', 'idx')

    def __init__(self, j, parent, fn):
        self.j = j
        self.parent = parent
        self.fn = fn
        self.idx = 0
        self.c = []
        for n, cj in enumerate(j.get('c', ())):
            ch = Node(cj, self, fn)
            ch.idx = n
            self.c.append(ch)
        fn.nodes[j['i']] = self

    # ------------------------------------------------------------ basic attributes
    @property
    def k(self):
        return self.j['k']

    @property
    def i(self):
        return self.j['i']

    @property
    def prog(self):
        return self.fn.prog

    @property
    def type(self):
        t = self.j.get('t')
        return self.prog.types[t] if t is not None and t >= 0 else None

    @property
    def tname(self):
        t = self.type
        return t['s'] if t else ''

    @property
    def op(self):
        return self.j.get('op')

    @property
    def value(self):
        return self.j.get('v')

    @property
    def cv(self):
        """compile-time integer value if clang could evaluate the expression"""
        if 'cv' in self.j:
            return self.j['cv']
        if self.k in ('IntegerLiteral', 'CharacterLiteral'):
            return self.j.get('v')
        if self.k == 'CXXBoolLiteralExpr':
            return 1 if self.j.get('v') else 0
        return None

    @property
    def fvalue(self):
        """compile-time floating value (literal or constant expression clang could fold), else None"""
        if 'fv' in self.j:
            return self.j['fv']
        if self.k == 'FloatingLiteral':
            return self.j.get('v')
        c = self.cv
        return float(c) if c is not None else None

    @property
    def callee(self):
        ci = self.j.get('callee')
        return self.prog.frefs[ci] if ci is not None else None

    @property
    def callee_id(self):
        return self.j.get('callee')

    @property
    def decl(self):
        d = self.j.get('d')
        return self.prog.vars[d] if d is not None else None

    @property
    def decl_id(self):
        return self.j.get('d')

    @property
    def fnref(self):
        f = self.j.get('fn')
        return self.prog.frefs[f] if f is not None else None

    def role(self, name):
        r = self.j.get('r')
        if not r or name not in r:
            return None
        ix = r[name]
        if ix is None or ix < 0:
            return None
        return self.c[ix]

    @property
    def cond(self):
        return self.role('cond')

    @property
    def then(self):
        return self.role('then')

    @property
    def els(self):
        return self.role('else')

    @property
    def body(self):
        return self.role('body')

    # ------------------------------------------------------------ location / text
    @property
    def file(self):
        return self.prog.files[self.j['l'][0]]

    @property
    def line(self):
        return self.j['l'][1]

    @property
    def col(self):
        return self.j['l'][2]

    @property
    def site(self):
        return '%s:%d:%d' % (self.file, self.line, self.col)

    def text(self, limit=160):
        l = self.j['l']
        if len(l) < 5:
            return ''
        lines = source_lines(self.prog.files[l[0]])
        a, ac, b, bc = l[1], l[2], l[3], l[4]
        if a < 1 or b > len(lines) or b < a:
            return ''
        if a == b:
            s = lines[a - 1][ac - 1:bc - 1]
        else:
            parts = [lines[a - 1][ac - 1:]]
            parts += lines[a:b - 1]
            parts.append(lines[b - 1][:bc - 1])
            s = ' '.join(p.strip() for p in parts)
        s = ' '.join(s.split())
        if len(s) > limit:
            s = s[:limit - 3] + '...'
        return s

    # ------------------------------------------------------------ navigation
    def walk(self):
        stack = [self]
        while stack:
            n = stack.pop()
            yield n
            stack.extend(reversed(n.c))

    def find(self, *kinds):
        for n in self.walk():
            if n.k in kinds:
                yield n

    def ancestors(self):
        p = self.parent
        while p is not None:
            yield p
            p = p.parent

    def is_ancestor_of(self, other):
        p = other
        while p is not None:
            if p is self:
                return True
            p = p.parent
        return False

    def strip(self):
        """skip implicit casts, parentheses, temporaries"""
        n = self
        while n.k in TRANSPARENT or (n.k in ('CXXFunctionalCastExpr', 'CStyleCastExpr', 'CXXStaticCastExpr')
                                     and n.j.get('ck') in ('NoOp', 'ConstructorConversion')):
            if not n.c:
                break
            n = n.c[0]
        return n

    def strip_all(self):
        """strip, additionally looking through copy/move constructions and value casts"""
        n = self.strip()
        while True:
            if n.k == 'CXXConstructExpr' and len(n.c) == 1 and n.callee and (
                    n.callee.get('copy_ctor') or n.callee.get('move_ctor')):
                n = n.c[0].strip()
                continue
            if n.k in ('CXXFunctionalCastExpr', 'CStyleCastExpr', 'CXXStaticCastExpr', 'ImplicitCastExpr') and n.c:
                n = n.c[0].strip()
                continue
            return n

    def up(self):
        """nearest non-transparent ancestor"""
        p = self.parent
        while p is not None and p.k in TRANSPARENT:
            p = p.parent
        return p

    def top_transparent(self):
        n = self
        while n.parent is not None and n.parent.k in TRANSPARENT:
            n = n.parent
        return n

    def enclosing(self, *kinds):
        for a in self.ancestors():
            if a.k in kinds:
                return a
        return None

    def enclosing_stmt(self):
        """the statement (child of a CompoundStmt or a loop/if body) this node belongs to"""
        n = self
        while n.parent is not None and n.parent.k not in ('CompoundStmt',):
            p = n.parent
            if p.k in ('IfStmt', 'ForStmt', 'WhileStmt', 'DoStmt', 'CXXForRangeStmt') and n in (
                    p.then, p.els, p.body):
                break
            n = p
        return n

    def args(self):
        """argument nodes of a call / construct expression (object argument excluded for member calls)"""
        if self.k == 'CXXMemberCallExpr':
            return self.c[1:]
        if self.k == 'CXXOperatorCallExpr':
            # for member operators the first arg is the object; keep all operands
            return self.c[1:]
        if self.k in ('CallExpr', 'CUDAKernelCallExpr', 'UserDefinedLiteral'):
            return self.c[1:]
        if self.k in ('CXXConstructExpr', 'CXXTemporaryObjectExpr'):
            return self.c
        return []

    def object_arg(self):
        """object expression of a member call"""
        if self.k == 'CXXMemberCallExpr' and self.c:
            me = self.c[0].strip()
            if me.k == 'MemberExpr' and me.c:
                return me.c[0]
        return None

    def __repr__(self):
        return '<%s #%d %s:%d>' % (self.k, self.i, os.path.basename(self.file), self.line)


def synth_binary(fn, op, lhs, rhs, at):
    """a synthetic BinaryOperator node `lhs op rhs` (used for the implicit comparison of a switch edge): its operands
    are the real nodes, its location is that of `at` (the case label)"""
    key = ('synth', op, lhs.i, rhs.i)
    cache = fn.__dict__.setdefault('_synth', {})
    if key in cache:
        return cache[key]
    n = Node.__new__(Node)
    n.j = {'k': 'BinaryOperator', 'op': op, 'i': -1000 - len(cache), 'l': at.j['l'], 'synthetic': True}
    n.parent = at
    n.fn = fn
    n.idx = 0
    n.c = [lhs, rhs]
    fn.nodes[n.j['i']] = n
    cache[key] = n
    return n


class Block(object):
    __slots__ = ('id', 'elems', 'succ', 'succ_all', 'preds', 'term', 'termk', 'tc', 'noreturn', 'j')

    def __init__(self, j):
        self.j = j
        self.id = j['id']
        self.elems = j['e']
        self.succ = j['s']
        self.succ_all = [u if u is not None else r for r, u in zip(j['s'], j['su'])]
        self.term = j.get('term')
        self.termk = j.get('termk')
        self.tc = j.get('tc')
        self.noreturn = j.get('noreturn', False)
        self.preds = []


class CFG(object):
    def __init__(self, j, fn):
        self.fn = fn
        self.entry = j['entry']
        self.exit = j['exit']
        self.blocks = {}
        for bj in j['blocks']:
            b = Block(bj)
            self.blocks[b.id] = b
        # assertion failures are not program paths: prune the edges into `__assert_fail` blocks so that
        # code after an assert() is not control dependent on the asserted condition
        self.assert_blocks = set()
        for b in self.blocks.values():
            if not b.noreturn:
                continue
            for e in b.elems:
                n = fn.nodes.get(e) if e is not None and e >= 0 else None
                if n is not None and n.k in ('CallExpr',) and n.callee and n.callee.get('noreturn') and \
                        n.callee['name'].startswith('__assert'):
                    self.assert_blocks.add(b.id)
        if self.assert_blocks:
            for b in self.blocks.values():
                b.succ = [None if s in self.assert_blocks else s for s in b.succ]
        for b in self.blocks.values():
            for s in b.succ:
                if s is not None:
                    self.blocks[s].preds.append(b.id)
        self._pos = None
        self._dom = None
        self._pdom = None
        self._cd = None

    # element positions ---------------------------------------------------------------------
    def positions(self):
        if self._pos is None:
            pos = {}
            for b in self.blocks.values():
                for n, e in enumerate(b.elems):
                    if e is None:
                        continue
                    if e <= -2:
                        e = -2 - e
                    if e >= 0 and e not in pos:
                        pos[e] = (b.id, n)
                if b.tc is not None and b.tc >= 0 and b.tc not in pos:
                    pos[b.tc] = (b.id, len(b.elems))
            # statements that only appear as terminators (break, continue, goto)
            for b in self.blocks.values():
                if b.term is not None and b.term >= 0 and b.term not in pos and b.termk in ('BreakStmt', 'ContinueStmt', 'GotoStmt'):
                    pos[b.term] = (b.id, len(b.elems))
            self._pos = pos
        return self._pos

    def pos_of(self, node):
        """(block, index) where the evaluation of node completes; for statements that are not CFG
        elements the position of their first evaluated descendant"""
        pos = self.positions()
        if node.i in pos:
            return pos[node.i]
        if node.k == 'VarDecl':
            # position of the DeclStmt element = after the init
            for ch in node.c:
                p = self.pos_of(ch)
                if p:
                    return p
        best = None
        for d in node.walk():
            if d.i in pos:
                p = pos[d.i]
                if best is None:
                    best = p
                    break
        return best

    def last_pos_of(self, node):
        pos = self.positions()
        if node.i in pos:
            return pos[node.i]
        res = None
        for d in node.walk():
            if d.i in pos:
                res = pos[d.i]
        return res

    # dominators ----------------------------------------------------------------------------
    def _idoms(self, root, succ_of, pred_of):
        order = []
        seen = set()
        stack = [(root, iter(succ_of(root)))]
        seen.add(root)
        while stack:
            n, it = stack[-1]
            adv = False
            for s in it:
                if s is not None and s not in seen:
                    seen.add(s)
                    stack.append((s, iter(succ_of(s))))
                    adv = True
                    break
            if not adv:
                order.append(n)
                stack.pop()
        rpo = list(reversed(order))
        num = {b: i for i, b in enumerate(rpo)}
        idom = {root: root}
        changed = True
        while changed:
            changed = False
            for b in rpo[1:]:
                new = None
                for p in pred_of(b):
                    if p in idom and p in num:
                        if new is None:
                            new = p
                        else:
                            a, c = p, new
                            while a != c:
                                while num[a] > num[c]:
                                    a = idom[a]
                                while num[c] > num[a]:
                                    c = idom[c]
                            new = a
                if new is not None and idom.get(b) != new:
                    idom[b] = new
                    changed = True
        return idom

    def dom(self):
        if self._dom is None:
            self._dom = self._idoms(self.entry, lambda b: self.blocks[b].succ, lambda b: self.blocks[b].preds)
        return self._dom

    def pdom(self):
        if self._pdom is None:
            self._pdom = self._idoms(self.exit, lambda b: self.blocks[b].preds,
                                     lambda b: [s for s in self.blocks[b].succ if s is not None])
        return self._pdom

    def block_dominates(self, a, b):
        idom = self.dom()
        if b not in idom:
            return True  # b unreachable: vacuous
        while True:
            if a == b:
                return True
            nb = idom.get(b)
            if nb is None or nb == b:
                return False
            b = nb

    def block_postdominates(self, a, b):
        idom = self.pdom()
        if b not in idom:
            return True
        while True:
            if a == b:
                return True
            nb = idom.get(b)
            if nb is None or nb == b:
                return False
            b = nb

    def dominates(self, a_node, b_node):
        pa, pb = self.pos_of(a_node), self.pos_of(b_node)
        if pa is None or pb is None:
            return False
        if pa[0] == pb[0]:
            return pa[1] <= pb[1]
        return self.block_dominates(pa[0], pb[0])

    def reachable_blocks(self, start, avoid=()):
        seen = set()
        stack = [start]
        while stack:
            b = stack.pop()
            if b in seen or b in avoid:
                continue
            seen.add(b)
            for s in self.blocks[b].succ:
                if s is not None:
                    stack.append(s)
        return seen

    def reaches(self, a_node, b_node):
        """is there a CFG path from (after) a to b"""
        pa, pb = self.pos_of(a_node), self.pos_of(b_node)
        if pa is None or pb is None:
            return False
        if pa[0] == pb[0] and pa[1] < pb[1]:
            return True
        succs = [s for s in self.blocks[pa[0]].succ if s is not None]
        seen = set()
        stack = list(succs)
        while stack:
            b = stack.pop()
            if b in seen:
                continue
            seen.add(b)
            if b == pb[0]:
                return True
            stack.extend(s for s in self.blocks[b].succ if s is not None)
        return False

    # control dependence ----------------------------------------------------------------------
    def control_deps(self):
        """block -> set of (branch block, successor index) it is directly control dependent on"""
        if self._cd is None:
            pd = self.pdom()
            cd = {b: set() for b in self.blocks}
            for a in self.blocks.values():
                succs = [s for s in a.succ]
                if len([s for s in succs if s is not None]) < 2:
                    continue
                for ix, s in enumerate(succs):
                    if s is None:
                        continue
                    # walk from s up the post-dominator tree until ipdom(a)
                    stop = pd.get(a.id)
                    cur = s
                    guard = 0
                    while cur is not None and cur != stop and guard < 100000:
                        cd[cur].add((a.id, ix))
                        nxt = pd.get(cur)
                        if nxt is None or nxt == cur:
                            break
                        cur = nxt
                        guard += 1
            self._cd = cd
        return self._cd

    def transitive_control_deps(self, block):
        """control dependences of `block` within the current loop iteration: dependences that only exist
        through a back edge (the branch lies inside a loop whose header is the dependent block) are
        skipped, otherwise a condition and its negation from different iterations would be conjoined"""
        cd = self.control_deps()
        res = set()
        work = [block]
        seen = set()
        while work:
            b = work.pop()
            if b in seen:
                continue
            seen.add(b)
            for (a, ix) in cd.get(b, ()):
                if a != b and self.block_dominates(b, a):
                    continue  # cross-iteration dependence
                if a == b:
                    continue
                if (a, ix) not in res:
                    res.add((a, ix))
                    work.append(a)
        return res

    def guards_of(self, node, transitive=True):
        """list of (condition node, polarity) the node is control dependent on.  polarity True = the
        condition held (successor 0 of the branch)"""
        p = self.pos_of(node)
        if p is None:
            return []
        deps = self.transitive_control_deps(p[0]) if transitive else set(
            (a, ix) for (a, ix) in self.control_deps().get(p[0], set()) if a != p[0] and not self.block_dominates(p[0], a))
        res = []
        for (a, ix) in deps:
            blk = self.blocks[a]
            cn = self.effective_cond(blk)
            if cn is None:
                continue
            res.append((cn, ix == 0, blk))
        return res

    def effective_cond(self, blk):
        """the condition decided at the end of blk.  With setAllAlwaysAdd a short-circuit operator
        `a && b` used as an if-condition gets its own join block whose terminator is the `if` and
        whose condition is the whole `a && b`; the block evaluating `a` ends in terminator `&&` with
        condition `a`.  In both cases the recorded condition is the right one."""
        if blk.tc is None or blk.tc < 0:
            return None
        cn = self.fn.nodes.get(blk.tc)
        if cn is None:
            return None
        return cn.strip()

    def switch_edges(self, blk):
        """for a block ending in `switch (E)`: (E node, [(succ index, synthetic `E == c` node | None for default)]) or None.
        A case label whose value is not a constant makes the switch unsupported (None)."""
        if blk.termk != 'SwitchStmt' or blk.tc is None or blk.tc < 0:
            return None
        e = self.fn.nodes.get(blk.tc)
        if e is None:
            return None
        out = []
        for ix, s in enumerate(blk.succ_all):
            if s is None:
                out.append((ix, None))
                continue
            lb = self.blocks[s].j.get('label_id')
            ln = self.fn.nodes.get(lb) if lb is not None and lb >= 0 else None
            if ln is not None and ln.k == 'CaseStmt' and ln.c and ln.parent is not None and self._switch_of(ln) is self.fn.nodes.get(blk.term):
                if len(ln.c) != 2 or ln.c[0].cv is None:
                    return None
                out.append((ix, synth_binary(self.fn, '==', e, ln.c[0], ln)))
            else:
                out.append((ix, None))     # default label, or the statement after the switch
        if len([1 for (_ix, c) in out if c is None]) != 1:
            return None
        return e, out

    def _switch_of(self, case):
        p = case.parent
        while p is not None and p.k != 'SwitchStmt':
            p = p.parent
        return p

    def branch_blocks(self):
        """blocks that end in a two-way branch with a condition"""
        return [b for b in self.blocks.values() if len(b.succ) == 2 and b.tc is not None and b.tc >= 0]


class Function(object):
    def __init__(self, j, prog):
        self.j = j
        self.prog = prog
        self.nodes = {}
        self.id = j['id']
        self.g = j['g']
        self.q = j['q']
        self.full = j.get('full', j['q'])
        self.fref_id = j['fref']
        self.file = prog.files[j['loc'][0]]
        self.line = j['loc'][1]
        self.body = Node(j['body'], None, self) if j.get('body') else None
        self.ctor_inits = []
        for ci in j.get('ctor_inits', ()):
            ent = dict(ci)
            if 'init' in ci and ci['init']:
                ent['node'] = Node(ci['init'], None, self)
            self.ctor_inits.append(ent)
        self._cfg = None

    @property
    def cfg(self):
        if self._cfg is None and self.j.get('cfg'):
            self._cfg = CFG(self.j['cfg'], self)
        return self._cfg

    @property
    def fref(self):
        return self.prog.frefs[self.fref_id]

    @property
    def params(self):
        return [self.prog.vars[p] for p in self.j['params']]

    @property
    def param_ids(self):
        return self.j['params']

    @property
    def site(self):
        return '%s:%d' % (self.file, self.line)

    @property
    def is_lambda(self):
        return bool(self.j.get('lambda'))

    @property
    def lambda_parent(self):
        lp = self.j.get('lambda_parent')
        if lp is None:
            return None
        return self.prog.fn_by_fref.get(lp)

    @property
    def implicit(self):
        return bool(self.j.get('implicit'))

    def walk(self):
        if self.body is not None:
            for n in self.body.walk():
                yield n
        for ci in self.ctor_inits:
            if 'node' in ci:
                for n in ci['node'].walk():
                    yield n

    def calls(self):
        for n in self.walk():
            if n.k in ('CallExpr', 'CXXMemberCallExpr', 'CXXOperatorCallExpr', 'CXXConstructExpr',
                       'CXXTemporaryObjectExpr'):
                yield n

    def __repr__(self):
        return '<fn %s %s:%d>' % (self.g, os.path.basename(self.file), self.line)


class Program(object):
    def __init__(self, path):
        with open(path) as fh:
            j = json.load(fh)
        self.path = path
        self.j = j
        self.errors = j.get('errors', 0)
        self.files = j['files']
        self.all_files = j.get('all_files', [])
        self.types = j['types']
        self.vars = j['vars']
        for n, v in enumerate(self.vars):
            if isinstance(v, dict):
                v['id'] = n
        self.frefs = j['frefs']
        for n, f in enumerate(self.frefs):
            if isinstance(f, dict):
                f['id'] = n
        self.records = j['records']
        self.header_decls = j['header_decls']
        self.functions = [Function(fj, self) for fj in j['functions']]
        self.fn_by_fref = {}
        for f in self.functions:
            self.fn_by_fref[f.fref_id] = f
        self.by_g = {}
        for f in self.functions:
            self.by_g.setdefault(f.g, []).append(f)

    def fns(self, gname):
        return self.by_g.get(gname, [])

    def fns_matching(self, pred):
        return [f for f in self.functions if pred(f)]

    def fn_of_fref(self, fref_id):
        return self.fn_by_fref.get(fref_id)

    def type(self, t):
        return self.types[t] if t is not None and t >= 0 else None

    def base_type(self, t):
        """type dict with references / top-level const removed"""
        ty = self.type(t) if isinstance(t, int) else t
        if ty is None:
            return None
        if 'base' in ty:
            return self.types[ty['base']]
        return ty

    def var_loc(self, v):
        l = v['loc']
        return '%s:%d:%d' % (self.files[l[0]], l[1], l[2])

    def rec_name(self, t):
        ty = self.base_type(t)
        return ty.get('rec', '') if ty else ''
