"""Build environment of the checker: synthesises config.hpp and the compile commands from /repo's
working tree on every invocation, runs the libTooling extractor on the requested translation units
in parallel, and hands back model.Program objects.  Nothing is cached across invocations.
"""
import atexit
import concurrent.futures
import glob
import os
import re
import shutil
import subprocess
import sys
import tempfile
import time

from . import model

VERIF = os.path.dirname(os.path.dirname(os.path.dirname(os.path.abspath(__file__))))
REPO = os.environ.get('PARMCB_REPO', '/repo')
TOOL = os.path.join(VERIF, 'build', 'parmcb-sa')
TOOL_SRC = os.path.join(VERIF, 'sa', 'parmcb-sa.cc')
WITNESS = os.path.join(VERIF, 'witness')

MPI_INC = ['/usr/lib/x86_64-linux-gnu/openmpi/include', '/usr/lib/x86_64-linux-gnu/openmpi/include/openmpi']

VARIANTS = {
    # name: (defines switched on in config.hpp)
    'full': ['PARMCB_HAVE_BOOST', 'PARMCB_HAVE_TBB', 'PARMCB_HAVE_MPI', 'PARMCB_INVARIANTS_CHECK'],
    'nompi': ['PARMCB_HAVE_BOOST', 'PARMCB_HAVE_TBB', 'PARMCB_INVARIANTS_CHECK'],
    'notbb_nompi': ['PARMCB_HAVE_BOOST', 'PARMCB_INVARIANTS_CHECK'],
    'full_logging': ['PARMCB_HAVE_BOOST', 'PARMCB_HAVE_TBB', 'PARMCB_HAVE_MPI', 'PARMCB_INVARIANTS_CHECK',
                     'PARMCB_LOGGING'],
    'full_noinv': ['PARMCB_HAVE_BOOST', 'PARMCB_HAVE_TBB', 'PARMCB_HAVE_MPI'],
}

_scratch = None
_resource_dir = None


def scratch():
    global _scratch
    if _scratch is None:
        _scratch = tempfile.mkdtemp(prefix='parmcb-sa.')
        atexit.register(lambda: shutil.rmtree(_scratch, ignore_errors=True))
    return _scratch


def resource_dir():
    global _resource_dir
    if _resource_dir is None:
        _resource_dir = subprocess.check_output(['clang++', '-print-resource-dir']).decode().strip()
    return _resource_dir


def ensure_tool():
    """(re)build the extractor when missing or older than its source"""
    if os.path.exists(TOOL) and os.path.getmtime(TOOL) >= os.path.getmtime(TOOL_SRC):
        return
    os.makedirs(os.path.dirname(TOOL), exist_ok=True)
    cxxflags = subprocess.check_output(['llvm-config-14', '--cxxflags']).decode().split()
    cmd = ['clang++'] + cxxflags + ['-fno-rtti', '-O1', TOOL_SRC, '-o', TOOL + '.tmp',
                                    '/usr/lib/llvm-14/lib/libclang-cpp.so.14', '/usr/lib/llvm-14/lib/libLLVM-14.so']
    subprocess.check_call(cmd)
    os.replace(TOOL + '.tmp', TOOL)


def config_dir(variant):
    """emulation of CMake's configure_file for include/parmcb/config.hpp.in"""
    d = os.path.join(scratch(), 'cfg_' + variant)
    out = os.path.join(d, 'parmcb', 'config.hpp')
    if os.path.exists(out):
        return d
    os.makedirs(os.path.dirname(out), exist_ok=True)
    on = set(VARIANTS[variant])
    src = os.path.join(REPO, 'include', 'parmcb', 'config.hpp.in')
    lines = []
    with open(src) as fh:
        for ln in fh:
            m = re.match(r'\s*#cmakedefine\s+(\w+)', ln)
            if m:
                if m.group(1) in on:
                    lines.append('#define %s\n' % m.group(1))
                else:
                    lines.append('/* #undef %s */\n' % m.group(1))
            else:
                lines.append(ln)
    with open(out, 'w') as fh:
        fh.writelines(lines)
    return d


BOOST_DEFS = ['-DBOOST_ATOMIC_DYN_LINK', '-DBOOST_ATOMIC_NO_LIB', '-DBOOST_PROGRAM_OPTIONS_DYN_LINK',
              '-DBOOST_PROGRAM_OPTIONS_NO_LIB', '-DBOOST_THREAD_DYN_LINK', '-DBOOST_THREAD_NO_LIB',
              '-DBOOST_TIMER_DYN_LINK', '-DBOOST_TIMER_NO_LIB', '-DBOOST_MPI_DYN_LINK', '-DBOOST_MPI_NO_LIB',
              '-DBOOST_SERIALIZATION_DYN_LINK', '-DBOOST_SERIALIZATION_NO_LIB']


def flags(variant='full', extra=()):
    """the real build's flags (taken from `ninja -t compdb` of the pinned build: -std=c++14,
    -I include, -I <generated>/include, Boost DYN_LINK defines, -isystem OpenMPI) with -UNDEBUG so
    that asserts are part of the analysed program"""
    pre = [e[len('first:'):] for e in extra if e.startswith('first:')]
    extra = [e for e in extra if not e.startswith('first:')]
    f = ['-std=c++14'] + pre + ['-I' + os.path.join(REPO, 'include'), '-I' + config_dir(variant)]
    f += BOOST_DEFS
    for inc in MPI_INC:
        f += ['-isystem', inc]
    f += ['-UNDEBUG', '-Wno-everything']
    f += list(extra)
    return f


def repo_tus():
    tus = sorted(glob.glob(os.path.join(REPO, 'src', '*.cpp')))
    tus += sorted(glob.glob(os.path.join(REPO, 'test', 'test_*.cpp')))
    tus += sorted(glob.glob(os.path.join(REPO, 'examples', '*.cpp')))
    return tus


def demo_tus():
    return sorted(glob.glob(os.path.join(REPO, 'src', '*.cpp')))


def witness_tu():
    return os.path.join(WITNESS, 'all_entry_points.cc')


_extract_cache = {}
stats = {'extract_s': 0.0, 'tus': 0}


def _run_extract(job):
    src, variant, extra, out = job
    cmd = [TOOL, '--out=' + out, '--root=' + REPO.rstrip('/') + '/', '--root=' + WITNESS.rstrip('/') + '/']
    for r in os.environ.get('PARMCB_EXTRA_ROOTS', '').split(':'):
        if r:
            cmd.append('--root=' + r)
    cmd += [src, '--'] + flags(variant, extra) + ['-resource-dir', resource_dir()]
    t0 = time.time()
    p = subprocess.run(cmd, stdout=subprocess.PIPE, stderr=subprocess.PIPE)
    return (src, variant, extra, out, p.returncode, p.stderr.decode(errors='replace'), time.time() - t0, cmd)


def extract(tus, variant='full', extra=()):
    """run the extractor on each TU (parallel) and return {tu: Program}.  A TU that does not parse
    raises AnalysisBroken: the checker never passes or alarms on a program it could not read."""
    ensure_tool()
    extra = tuple(extra)
    jobs = []
    for tu in tus:
        key = (tu, variant, extra)
        if key in _extract_cache:
            continue
        out = os.path.join(scratch(), 'x_%d.json' % (len(_extract_cache) + len(jobs)))
        jobs.append((tu, variant, extra, out))
    if jobs:
        t0 = time.time()
        with concurrent.futures.ThreadPoolExecutor(max_workers=min(16, len(jobs))) as ex:
            results = list(ex.map(_run_extract, jobs))
        stats['extract_s'] += time.time() - t0
        for (src, variant_, extra_, out, rc, err, dt, cmd) in results:
            if rc != 0 or not os.path.exists(out):
                raise AnalysisBroken('translation unit does not parse: %s (variant %s)\n%s' % (
                    src, variant_, '\n'.join(err.splitlines()[:25])))
            prog = model.Program(out)
            prog.tu = src
            prog.variant = variant_
            prog.cmd = ' '.join(cmd)
            os.unlink(out)
            if prog.errors:
                raise AnalysisBroken('translation unit has %d errors: %s\n%s' % (prog.errors, src, err[:2000]))
            _extract_cache[(src, variant_, extra_)] = prog
            stats['tus'] += 1
    return {tu: _extract_cache[(tu, variant, extra)] for tu in tus}


class AnalysisBroken(Exception):
    pass
