// parmcb-sa: libTooling front half of the parmcb static checker.
//
// For one translation unit it type-checks the program with clang, instantiates the templates the
// unit instantiates, and writes the *resolved* program of every function defined in a repo file
// (roots given with --root=) as JSON: AST with resolved callees / declarations / types, the clang
// CFG (BuildOptions::setAllAlwaysAdd) per function, the records, and all definitions that live in
// headers (for the ODR rule).  Nothing is executed; the python rule engine (/verif/sa/rules) works
// on this output only.
//
// usage: parmcb-sa --out=FILE --root=/repo/ [--root=/verif/witness/] SRC -- <compile flags>

#include <cmath>
#include "clang/AST/ASTConsumer.h"
#include "clang/AST/ASTContext.h"
#include "clang/AST/DeclCXX.h"
#include "clang/AST/DeclTemplate.h"
#include "clang/AST/ExprCXX.h"
#include "clang/AST/RecursiveASTVisitor.h"
#include "clang/AST/StmtCXX.h"
#include "clang/Analysis/CFG.h"
#include "clang/Basic/SourceManager.h"
#include "clang/Frontend/CompilerInstance.h"
#include "clang/Frontend/FrontendAction.h"
#include "clang/Lex/Lexer.h"
#include "clang/Tooling/CompilationDatabase.h"
#include "clang/Tooling/Tooling.h"
#include "llvm/Support/JSON.h"
#include "llvm/Support/raw_ostream.h"

#include <map>
#include <set>
#include <string>
#include <vector>

using namespace clang;
namespace json = llvm::json;

static std::vector<std::string> g_roots;
static std::string g_out;

namespace {

struct Extractor {
    ASTContext &Ctx;
    SourceManager &SM;
    PrintingPolicy PP;

    std::map<std::string, int> fileIdx;
    std::vector<std::string> files;
    std::map<const void *, int> typeIdx;
    std::vector<json::Value> types;
    std::map<const Decl *, int> varIdx;
    std::vector<json::Value> vars;
    std::map<const FunctionDecl *, int> frefIdx;
    std::vector<json::Value> frefs;
    std::map<const FunctionDecl *, int> fnId;          // emitted functions
    std::vector<const FunctionDecl *> worklist;
    std::vector<json::Value> functions;
    std::map<const CXXRecordDecl *, int> recIdx;
    std::vector<json::Value> records;
    std::vector<json::Value> hdrDecls;
    std::set<std::string> hdrDeclSeen;

    Extractor(ASTContext &C) : Ctx(C), SM(C.getSourceManager()), PP(C.getPrintingPolicy()) {
        PP.SuppressTagKeyword = true;
        PP.Bool = true;
    }

    // ---------------------------------------------------------------- locations
    std::string fileOf(SourceLocation L) {
        if (L.isInvalid()) return "";
        SourceLocation S = SM.getFileLoc(L);
        PresumedLoc P = SM.getPresumedLoc(S, false);
        if (P.isInvalid()) return "";
        llvm::SmallString<256> Path(P.getFilename());
        SM.getFileManager().makeAbsolutePath(Path);
        llvm::sys::path::remove_dots(Path, true);
        return std::string(Path.str());
    }
    bool inRoots(SourceLocation L) {
        std::string F = fileOf(L);
        if (F.empty()) return false;
        for (auto &R : g_roots)
            if (F.compare(0, R.size(), R) == 0) {
                if (F.find("/doctest.h") != std::string::npos) return false;
                if (F.find("/_build/") != std::string::npos) return false;
                return true;
            }
        return false;
    }
    int fileId(const std::string &F) {
        auto it = fileIdx.find(F);
        if (it != fileIdx.end()) return it->second;
        int id = files.size();
        files.push_back(F);
        fileIdx[F] = id;
        return id;
    }
    json::Value loc(SourceLocation B, SourceLocation E) {
        json::Array A;
        SourceLocation FB = SM.getFileLoc(B);
        SourceLocation FE = SM.getFileLoc(E);
        A.push_back(fileId(fileOf(B)));
        A.push_back((int64_t)SM.getSpellingLineNumber(FB));
        A.push_back((int64_t)SM.getSpellingColumnNumber(FB));
        if (E.isValid()) {
            SourceLocation EE = Lexer::getLocForEndOfToken(FE, 0, SM, Ctx.getLangOpts());
            if (EE.isInvalid()) EE = FE;
            A.push_back((int64_t)SM.getSpellingLineNumber(EE));
            A.push_back((int64_t)SM.getSpellingColumnNumber(EE));
        }
        return std::move(A);
    }

    // ---------------------------------------------------------------- names
    static std::string genericName(const NamedDecl *D) {
        std::vector<std::string> parts;
        std::string self;
        if (D->getDeclName().isIdentifier())
            self = D->getName().str();
        else
            self = D->getDeclName().getAsString();
        if (auto *RD = dyn_cast<CXXRecordDecl>(D))
            if (RD->isLambda()) self = "(lambda)";
        parts.push_back(self);
        const DeclContext *DC = D->getDeclContext();
        while (DC && !DC->isTranslationUnit()) {
            if (auto *NS = dyn_cast<NamespaceDecl>(DC)) {
                if (!NS->isInline() && !NS->isAnonymousNamespace()) parts.push_back(NS->getName().str());
            } else if (auto *RD = dyn_cast<CXXRecordDecl>(DC)) {
                if (RD->isLambda())
                    parts.push_back("(lambda)");
                else if (RD->getDeclName().isIdentifier())
                    parts.push_back(RD->getName().str());
            } else if (auto *FD = dyn_cast<FunctionDecl>(DC)) {
                if (FD->getDeclName().isIdentifier())
                    parts.push_back(FD->getName().str());
                else
                    parts.push_back(FD->getDeclName().getAsString());
            }
            DC = DC->getParent();
        }
        std::string R;
        for (auto it = parts.rbegin(); it != parts.rend(); ++it) {
            if (!R.empty()) R += "::";
            R += *it;
        }
        return R;
    }

    // ---------------------------------------------------------------- types
    int typeId(QualType T) {
        if (T.isNull()) return -1;
        const void *K = T.getAsOpaquePtr();
        auto it = typeIdx.find(K);
        if (it != typeIdx.end()) return it->second;
        int id = types.size();
        typeIdx[K] = id;
        types.emplace_back(nullptr);
        json::Object O;
        O["s"] = T.getAsString(PP);
        QualType C = T.getCanonicalType();
        O["canon"] = C.getAsString(PP);
        bool isRef = C->isReferenceType();
        O["ref"] = isRef;
        if (C->isRValueReferenceType()) O["rref"] = true;
        QualType V = C.getNonReferenceType();
        O["const"] = V.isConstQualified();
        if (V->isPointerType()) {
            O["ptr"] = true;
            O["pointee"] = typeId(V->getPointeeType());
        }
        if (V->isArrayType()) {
            O["array"] = true;
            if (auto *CA = Ctx.getAsConstantArrayType(V)) {
                O["array_size"] = (int64_t)CA->getSize().getZExtValue();
                O["elem"] = typeId(CA->getElementType());
            }
        }
        if (V->isArithmeticType()) O["arith"] = true;
        if (V->isEnumeralType()) O["enum"] = true;
        if (V->isBooleanType()) O["bool"] = true;
        if (V->isIntegerType()) O["int"] = true;
        if (V->isUnsignedIntegerType()) O["unsigned"] = true;
        if (V->isFloatingType()) O["float"] = true;
        if (isRef || T.hasLocalQualifiers()) O["base"] = typeId(V.getUnqualifiedType());
        if (const CXXRecordDecl *RD = V->getAsCXXRecordDecl()) {
            O["rec"] = genericName(RD);
            if (RD->isLambda()) O["lambda"] = true;
            if (RD->hasDefinition()) {
                O["empty"] = RD->isEmpty();
                if (inRoots(RD->getLocation())) O["repo_rec"] = recordId(RD);
            }
            if (auto *SD = dyn_cast<ClassTemplateSpecializationDecl>(RD)) {
                json::Array TA;
                for (const TemplateArgument &A : SD->getTemplateArgs().asArray()) {
                    if (A.getKind() == TemplateArgument::Type)
                        TA.push_back(typeId(A.getAsType()));
                    else if (A.getKind() == TemplateArgument::Integral)
                        TA.push_back(json::Object{{"int", (int64_t)A.getAsIntegral().getExtValue()}});
                    else if (A.getKind() == TemplateArgument::Pack) {
                        for (const TemplateArgument &B : A.pack_elements())
                            if (B.getKind() == TemplateArgument::Type) TA.push_back(typeId(B.getAsType()));
                            else TA.push_back(nullptr);
                    } else
                        TA.push_back(nullptr);
                }
                O["targs"] = std::move(TA);
            }
        }
        types[id] = std::move(O);
        return id;
    }

    // ---------------------------------------------------------------- records
    int recordId(const CXXRecordDecl *RD) {
        RD = RD->getDefinition() ? RD->getDefinition() : RD;
        auto it = recIdx.find(RD);
        if (it != recIdx.end()) return it->second;
        int id = records.size();
        recIdx[RD] = id;
        records.emplace_back(nullptr);
        json::Object O;
        O["g"] = genericName(RD);
        O["q"] = RD->getQualifiedNameAsString();
        {
            std::string S;
            llvm::raw_string_ostream OS(S);
            RD->getNameForDiagnostic(OS, PP, true);
            O["full"] = OS.str();
        }
        O["loc"] = loc(RD->getLocation(), SourceLocation());
        O["is_inst"] = isa<ClassTemplateSpecializationDecl>(RD);
        O["lambda"] = RD->isLambda();
        if (RD->hasDefinition()) {
            O["empty"] = RD->isEmpty();
            json::Array F;
            for (const FieldDecl *FD : RD->fields()) F.push_back(varId(FD));
            O["fields"] = std::move(F);
            json::Array B;
            for (const auto &Base : RD->bases()) B.push_back(typeId(Base.getType()));
            O["bases"] = std::move(B);
            json::Array M;
            for (const Decl *D : RD->decls()) {
                const FunctionDecl *FD = dyn_cast<FunctionDecl>(D);
                if (auto *FT = dyn_cast<FunctionTemplateDecl>(D)) {
                    json::Object MO;
                    MO["name"] = FT->getDeclName().getAsString();
                    MO["template"] = true;
                    M.push_back(std::move(MO));
                    continue;
                }
                if (!FD) continue;
                json::Object MO;
                MO["name"] = FD->getDeclName().getAsString();
                MO["fref"] = frefId(FD);
                if (auto *CD = dyn_cast<CXXConstructorDecl>(FD)) {
                    MO["ctor"] = true;
                    MO["implicit"] = CD->isImplicit();
                }
                M.push_back(std::move(MO));
            }
            O["methods"] = std::move(M);
        }
        records[id] = std::move(O);
        return id;
    }

    // ---------------------------------------------------------------- variables / fields
    int varId(const Decl *D) {
        auto it = varIdx.find(D);
        if (it != varIdx.end()) return it->second;
        int id = vars.size();
        varIdx[D] = id;
        vars.emplace_back(nullptr);
        json::Object O;
        if (auto *ND = dyn_cast<NamedDecl>(D)) O["name"] = ND->getDeclName().getAsString();
        O["loc"] = loc(D->getLocation(), SourceLocation());
        if (auto *VD = dyn_cast<VarDecl>(D)) {
            O["ty"] = typeId(VD->getType());
            if (isa<ParmVarDecl>(VD)) {
                O["kind"] = "param";
                O["pindex"] = (int64_t)cast<ParmVarDecl>(VD)->getFunctionScopeIndex();
            } else if (VD->isStaticLocal())
                O["kind"] = "static_local";
            else if (VD->isLocalVarDecl())
                O["kind"] = "local";
            else if (VD->isStaticDataMember())
                O["kind"] = "static_member";
            else
                O["kind"] = "global";
            if (VD->getType().isConstQualified()) O["constq"] = true;
            if (VD->getTLSKind() != VarDecl::TLS_None) O["tls"] = true;
            if (const DeclContext *DC = VD->getParentFunctionOrMethod())
                if (auto *FD = dyn_cast<FunctionDecl>(DC)) O["fn"] = frefId(FD);
        } else if (auto *FD = dyn_cast<FieldDecl>(D)) {
            O["ty"] = typeId(FD->getType());
            O["kind"] = "field";
            O["rec"] = genericName(FD->getParent());
            O["findex"] = (int64_t)FD->getFieldIndex();
        } else if (auto *BD = dyn_cast<BindingDecl>(D)) {
            O["ty"] = typeId(BD->getType());
            O["kind"] = "binding";
        } else if (auto *ED = dyn_cast<EnumConstantDecl>(D)) {
            O["ty"] = typeId(ED->getType());
            O["kind"] = "enumconst";
            O["value"] = (int64_t)ED->getInitVal().getExtValue();
        } else {
            O["kind"] = "other";
        }
        vars[id] = std::move(O);
        return id;
    }

    // ---------------------------------------------------------------- function references
    int frefId(const FunctionDecl *FD) {
        FD = FD->getCanonicalDecl();
        auto it = frefIdx.find(FD);
        if (it != frefIdx.end()) return it->second;
        int id = frefs.size();
        frefIdx[FD] = id;
        frefs.emplace_back(nullptr);
        json::Object O;
        O["q"] = FD->getQualifiedNameAsString();
        O["g"] = genericName(FD);
        O["name"] = FD->getDeclName().getAsString();
        const FunctionDecl *Def = FD->getDefinition();
        const FunctionDecl *L = Def ? Def : FD;
        SourceLocation DL = L->getLocation();
        if (const FunctionDecl *Pat = L->getTemplateInstantiationPattern()) DL = Pat->getLocation();
        O["loc"] = loc(DL, SourceLocation());
        O["in_repo"] = inRoots(DL);
        O["ret"] = typeId(FD->getReturnType());
        json::Array P;
        for (const ParmVarDecl *PD : FD->parameters()) P.push_back(typeId(PD->getType()));
        O["params"] = std::move(P);
        O["noreturn"] = FD->isNoReturn();
        if (auto *MD = dyn_cast<CXXMethodDecl>(FD)) {
            O["method"] = true;
            O["static"] = MD->isStatic();
            O["constm"] = MD->isConst();
            O["rec"] = genericName(MD->getParent());
            O["rec_ty"] = typeId(Ctx.getRecordType(MD->getParent()));
            if (MD->getParent()->isLambda()) O["lambda_op"] = true;
            if (isa<CXXConstructorDecl>(MD)) O["ctor"] = true;
            if (isa<CXXDestructorDecl>(MD)) O["dtor"] = true;
            if (MD->isCopyAssignmentOperator()) O["copy_assign"] = true;
            if (MD->isMoveAssignmentOperator()) O["move_assign"] = true;
            if (auto *CD = dyn_cast<CXXConstructorDecl>(MD)) {
                if (CD->isCopyConstructor()) O["copy_ctor"] = true;
                if (CD->isMoveConstructor()) O["move_ctor"] = true;
                if (CD->isDefaultConstructor()) O["default_ctor"] = true;
            }
        }
        if (FD->isOverloadedOperator()) O["op"] = getOperatorSpelling(FD->getOverloadedOperator());
        if (const TemplateArgumentList *TAL = FD->getTemplateSpecializationArgs()) {
            json::Array TA;
            for (const TemplateArgument &A : TAL->asArray()) {
                if (A.getKind() == TemplateArgument::Type)
                    TA.push_back(typeId(A.getAsType()));
                else if (A.getKind() == TemplateArgument::Integral)
                    TA.push_back(json::Object{{"int", (int64_t)A.getAsIntegral().getExtValue()}});
                else
                    TA.push_back(nullptr);
            }
            O["targs"] = std::move(TA);
        }
        frefs[id] = std::move(O);
        // schedule the body for emission when it is a repo function
        if (Def && Def->hasBody() && !Def->isDependentContext() && inRoots(DL)) schedule(Def);
        return id;
    }

    void schedule(const FunctionDecl *Def) {
        if (fnId.count(Def)) return;
        int id = fnId.size();
        fnId[Def] = id;
        worklist.push_back(Def);
    }

    // ---------------------------------------------------------------- AST
    struct FnCtx {
        std::map<const Stmt *, int> ids;
        int next = 0;
    };

    json::Value node(const Stmt *S, FnCtx &F) {
        json::Object O;
        int id = F.next++;
        F.ids[S] = id;
        O["i"] = id;
        O["k"] = S->getStmtClassName();
        O["l"] = loc(S->getBeginLoc(), S->getEndLoc());
        json::Array Children;

        if (auto *E = dyn_cast<Expr>(S)) {
            O["t"] = typeId(E->getType());
            if (E->isLValue())
                O["vk"] = "l";
            else if (E->isXValue())
                O["vk"] = "x";
            if (!E->isValueDependent() && !E->isTypeDependent() && E->getType()->isIntegralOrEnumerationType() &&
                E->isPRValue() && !isa<IntegerLiteral>(E) && !isa<CXXBoolLiteralExpr>(E) &&
                !isa<CharacterLiteral>(E)) {
                Expr::EvalResult R;
                if (E->EvaluateAsInt(R, Ctx, Expr::SE_NoSideEffects)) O["cv"] = (int64_t)R.Val.getInt().getExtValue();
            }
            if (!E->isValueDependent() && !E->isTypeDependent() && E->getType()->isRealFloatingType() && E->isPRValue() &&
                !isa<FloatingLiteral>(E)) {
                llvm::APFloat FV(0.0);
                if (E->EvaluateAsFloat(FV, Ctx, Expr::SE_NoSideEffects)) {
                    bool lose = false;
                    FV.convert(llvm::APFloat::IEEEdouble(), llvm::APFloat::rmNearestTiesToEven, &lose);
                    { double dv_ = FV.convertToDouble(); if (std::isfinite(dv_)) O["fv"] = dv_; else O["fv_nonfinite"] = dv_ > 0 ? "inf" : (dv_ < 0 ? "-inf" : "nan"); }
                }
            }
        }

        if (auto *DR = dyn_cast<DeclRefExpr>(S)) {
            const ValueDecl *D = DR->getDecl();
            if (auto *FD = dyn_cast<FunctionDecl>(D))
                O["fn"] = frefId(FD);
            else
                O["d"] = varId(D);
        } else if (auto *ME = dyn_cast<MemberExpr>(S)) {
            const ValueDecl *D = ME->getMemberDecl();
            if (auto *FD = dyn_cast<FunctionDecl>(D))
                O["fn"] = frefId(FD);
            else
                O["d"] = varId(D);
            O["arrow"] = ME->isArrow();
        } else if (auto *IL = dyn_cast<IntegerLiteral>(S)) {
            O["v"] = (int64_t)IL->getValue().getLimitedValue();
        } else if (auto *BL = dyn_cast<CXXBoolLiteralExpr>(S)) {
            O["v"] = BL->getValue();
        } else if (auto *CL = dyn_cast<CharacterLiteral>(S)) {
            O["v"] = (int64_t)CL->getValue();
        } else if (auto *FL = dyn_cast<FloatingLiteral>(S)) {
            { double dv_ = FL->getValueAsApproximateDouble(); if (std::isfinite(dv_)) O["v"] = dv_; else O["fv_nonfinite"] = "inf"; }
        } else if (auto *SL = dyn_cast<clang::StringLiteral>(S)) {
            if (SL->getCharByteWidth() == 1) O["v"] = SL->getString().str();
        } else if (auto *BO = dyn_cast<BinaryOperator>(S)) {
            O["op"] = BO->getOpcodeStr().str();
        } else if (auto *UO = dyn_cast<UnaryOperator>(S)) {
            O["op"] = UnaryOperator::getOpcodeStr(UO->getOpcode()).str();
            O["postfix"] = UO->isPostfix();
        } else if (auto *CE = dyn_cast<CastExpr>(S)) {
            O["ck"] = CE->getCastKindName();
        } else if (auto *UE = dyn_cast<UnaryExprOrTypeTraitExpr>(S)) {
            O["trait"] = (int64_t)UE->getKind();
        }

        if (auto *CE = dyn_cast<CallExpr>(S)) {
            if (const FunctionDecl *FD = CE->getDirectCallee()) O["callee"] = frefId(FD);
            if (auto *OC = dyn_cast<CXXOperatorCallExpr>(S)) O["op"] = getOperatorSpelling(OC->getOperator());
        } else if (auto *CC = dyn_cast<CXXConstructExpr>(S)) {
            O["callee"] = frefId(CC->getConstructor());
            if (CC->isElidable()) O["elidable"] = true;
            if (CC->isListInitialization()) O["listinit"] = true;
        } else if (auto *NE = dyn_cast<CXXNewExpr>(S)) {
            O["alloc_ty"] = typeId(NE->getAllocatedType());
        }

        // children with roles
        auto addChild = [&](const Stmt *C) -> int {
            if (!C) return -1;
            Children.push_back(node(C, F));
            return (int)Children.size() - 1;
        };

        if (auto *IS = dyn_cast<IfStmt>(S)) {
            json::Object R;
            if (IS->getInit()) R["init"] = addChild(IS->getInit());
            if (IS->getConditionVariableDeclStmt()) R["condvar"] = addChild(IS->getConditionVariableDeclStmt());
            R["cond"] = addChild(IS->getCond());
            R["then"] = addChild(IS->getThen());
            if (IS->getElse()) R["else"] = addChild(IS->getElse());
            O["r"] = std::move(R);
        } else if (auto *FS = dyn_cast<ForStmt>(S)) {
            json::Object R;
            if (FS->getInit()) R["init"] = addChild(FS->getInit());
            if (FS->getCond()) R["cond"] = addChild(FS->getCond());
            if (FS->getInc()) R["inc"] = addChild(FS->getInc());
            R["body"] = addChild(FS->getBody());
            O["r"] = std::move(R);
        } else if (auto *WS = dyn_cast<WhileStmt>(S)) {
            json::Object R;
            R["cond"] = addChild(WS->getCond());
            R["body"] = addChild(WS->getBody());
            O["r"] = std::move(R);
        } else if (auto *DS = dyn_cast<DoStmt>(S)) {
            json::Object R;
            R["body"] = addChild(DS->getBody());
            R["cond"] = addChild(DS->getCond());
            O["r"] = std::move(R);
        } else if (auto *RS = dyn_cast<CXXForRangeStmt>(S)) {
            json::Object R;
            if (RS->getInit()) R["init"] = addChild(RS->getInit());
            R["range"] = addChild(RS->getRangeStmt());
            R["begin"] = addChild(RS->getBeginStmt());
            R["end"] = addChild(RS->getEndStmt());
            R["cond"] = addChild(RS->getCond());
            R["inc"] = addChild(RS->getInc());
            R["loopvar"] = addChild(RS->getLoopVarStmt());
            R["body"] = addChild(RS->getBody());
            O["r"] = std::move(R);
        } else if (auto *CO = dyn_cast<ConditionalOperator>(S)) {
            json::Object R;
            R["cond"] = addChild(CO->getCond());
            R["then"] = addChild(CO->getTrueExpr());
            R["else"] = addChild(CO->getFalseExpr());
            O["r"] = std::move(R);
        } else if (auto *DS2 = dyn_cast<DeclStmt>(S)) {
            for (const Decl *D : DS2->decls()) {
                if (auto *VD = dyn_cast<VarDecl>(D)) {
                    json::Object V;
                    V["i"] = F.next++;
                    V["k"] = "VarDecl";
                    V["d"] = varId(VD);
                    V["l"] = loc(VD->getLocation(), VD->getEndLoc());
                    V["t"] = typeId(VD->getType());
                    json::Array VC;
                    if (VD->hasInit()) {
                        VC.push_back(node(VD->getInit(), F));
                        V["initstyle"] = (int64_t)VD->getInitStyle();
                    }
                    V["c"] = std::move(VC);
                    Children.push_back(std::move(V));
                } else if (auto *DD = dyn_cast<DecompositionDecl>(D)) {
                    (void)DD;
                }
            }
        } else if (auto *LE = dyn_cast<LambdaExpr>(S)) {
            json::Array Caps;
            auto CI = LE->capture_init_begin();
            for (const LambdaCapture &C : LE->captures()) {
                json::Object CO2;
                if (C.capturesThis())
                    CO2["this"] = true;
                else if (C.capturesVariable())
                    CO2["d"] = varId(C.getCapturedVar());
                CO2["byref"] = C.getCaptureKind() == LCK_ByRef;
                CO2["implicit"] = C.isImplicit();
                Caps.push_back(std::move(CO2));
                if (CI != LE->capture_init_end()) {
                    if (*CI) addChild(*CI);
                    ++CI;
                }
            }
            O["captures"] = std::move(Caps);
            json::Array Ops;
            const CXXMethodDecl *Op = LE->getCallOperator();
            if (FunctionTemplateDecl *FT = LE->getLambdaClass()->getDependentLambdaCallOperator()) {
                for (FunctionDecl *Spec : FT->specializations())
                    if (Spec->hasBody() && !Spec->isDependentContext()) {
                        Ops.push_back(frefId(Spec));
                    }
            } else if (Op && Op->hasBody() && !Op->isDependentContext()) {
                Ops.push_back(frefId(Op));
            }
            O["lambda_ops"] = std::move(Ops);
            O["lambda_rec"] = genericName(LE->getLambdaClass());
        } else {
            for (const Stmt *C : S->children())
                if (C) Children.push_back(node(C, F));
        }
        O["c"] = std::move(Children);
        return std::move(O);
    }

    // ---------------------------------------------------------------- CFG
    json::Value cfgOf(const FunctionDecl *FD, FnCtx &F) {
        CFG::BuildOptions BO;
        BO.setAllAlwaysAdd();
        BO.AddImplicitDtors = false;
        BO.AddTemporaryDtors = false;
        BO.AddInitializers = true;
        BO.AddEHEdges = false;
        BO.PruneTriviallyFalseEdges = true;
        std::unique_ptr<CFG> G = CFG::buildCFG(FD, FD->getBody(), &Ctx, BO);
        if (!G) return nullptr;
        json::Object O;
        O["entry"] = (int64_t)G->getEntry().getBlockID();
        O["exit"] = (int64_t)G->getExit().getBlockID();
        // synthetic DeclStmts
        std::map<const Stmt *, const Stmt *> synth;
        for (auto it = G->synthetic_stmt_begin(); it != G->synthetic_stmt_end(); ++it) synth[it->first] = it->second;
        auto idOf = [&](const Stmt *S) -> int64_t {
            if (!S) return -1;
            auto it = F.ids.find(S);
            if (it != F.ids.end()) return it->second;
            auto st = synth.find(S);
            if (st != synth.end()) {
                // a synthetic single-variable DeclStmt: map to the VarDecl's init expr or the original DeclStmt
                if (auto *DS = dyn_cast<DeclStmt>(S))
                    if (DS->isSingleDecl())
                        if (auto *VD = dyn_cast<VarDecl>(DS->getSingleDecl()))
                            if (VD->hasInit()) {
                                auto i2 = F.ids.find(VD->getInit());
                                if (i2 != F.ids.end()) return -2 - i2->second;  // encoded: decl of init node
                            }
                auto i3 = F.ids.find(st->second);
                if (i3 != F.ids.end()) return i3->second;
            }
            return -1;
        };
        json::Array Blocks;
        for (const CFGBlock *B : *G) {
            json::Object BOj;
            BOj["id"] = (int64_t)B->getBlockID();
            json::Array Elems;
            for (const CFGElement &E : *B) {
                if (auto CS = E.getAs<CFGStmt>()) {
                    Elems.push_back(idOf(CS->getStmt()));
                } else if (auto CI = E.getAs<CFGInitializer>()) {
                    const CXXCtorInitializer *I = CI->getInitializer();
                    if (I->getInit()) Elems.push_back(idOf(I->getInit()));
                }
            }
            BOj["e"] = std::move(Elems);
            json::Array Succ, SuccU;
            for (auto SI = B->succ_begin(); SI != B->succ_end(); ++SI) {
                if (const CFGBlock *R = SI->getReachableBlock())
                    Succ.push_back((int64_t)R->getBlockID());
                else
                    Succ.push_back(nullptr);
                if (const CFGBlock *U = SI->getPossiblyUnreachableBlock())
                    SuccU.push_back((int64_t)U->getBlockID());
                else
                    SuccU.push_back(nullptr);
            }
            BOj["s"] = std::move(Succ);
            BOj["su"] = std::move(SuccU);
            if (const Stmt *T = B->getTerminatorStmt()) {
                BOj["term"] = idOf(T);
                BOj["termk"] = T->getStmtClassName();
            }
            if (const Stmt *TC = B->getTerminatorCondition()) BOj["tc"] = idOf(TC);
            if (B->hasNoReturnElement()) BOj["noreturn"] = true;
            if (const Stmt *Lb = B->getLabel()) {
                BOj["label"] = Lb->getStmtClassName();
                BOj["label_id"] = idOf(Lb);
            }
            if (const Stmt *LT = B->getLoopTarget()) BOj["looptarget"] = idOf(LT);
            Blocks.push_back(std::move(BOj));
        }
        O["blocks"] = std::move(Blocks);
        return std::move(O);
    }

    // ---------------------------------------------------------------- functions
    void emitFunction(const FunctionDecl *FD) {
        json::Object O;
        O["id"] = fnId[FD];
        O["fref"] = frefId(FD);
        O["q"] = FD->getQualifiedNameAsString();
        O["g"] = genericName(FD);
        {
            std::string S;
            llvm::raw_string_ostream OS(S);
            FD->getNameForDiagnostic(OS, PP, true);
            O["full"] = OS.str();
        }
        SourceLocation DL = FD->getLocation();
        const FunctionDecl *Pat = FD->getTemplateInstantiationPattern();
        O["loc"] = loc(Pat ? Pat->getLocation() : DL, SourceLocation());
        O["is_inst"] = FD->isTemplateInstantiation();
        O["implicit"] = FD->isImplicit() || FD->isDefaulted();
        json::Array P;
        for (const ParmVarDecl *PD : FD->parameters()) P.push_back(varId(PD));
        O["params"] = std::move(P);
        O["ret"] = typeId(FD->getReturnType());
        if (auto *MD = dyn_cast<CXXMethodDecl>(FD)) {
            O["rec"] = genericName(MD->getParent());
            O["rec_id"] = recordId(MD->getParent());
            if (MD->getParent()->isLambda()) {
                O["lambda"] = true;
                // parent function of the lambda
                const DeclContext *DC = MD->getParent()->getDeclContext();
                while (DC && !isa<FunctionDecl>(DC)) DC = DC->getParent();
                if (DC) O["lambda_parent"] = frefId(cast<FunctionDecl>(DC));
            }
        }
        FnCtx F;
        json::Array Inits;
        if (auto *CD = dyn_cast<CXXConstructorDecl>(FD)) {
            for (const CXXCtorInitializer *I : CD->inits()) {
                json::Object IO;
                if (I->isAnyMemberInitializer()) IO["field"] = varId(I->getAnyMember());
                if (I->isBaseInitializer()) IO["base"] = typeId(QualType(I->getBaseClass(), 0));
                IO["written"] = I->isWritten();
                if (I->getInit()) IO["init"] = node(I->getInit(), F);
                Inits.push_back(std::move(IO));
            }
            O["ctor_inits"] = std::move(Inits);
        }
        O["body"] = node(FD->getBody(), F);
        O["cfg"] = cfgOf(FD, F);
        functions.push_back(std::move(O));
    }

    // ---------------------------------------------------------------- header definitions (ODR rule)
    void headerDecl(const NamedDecl *D, const char *kind, bool isInline, bool templated, bool external,
                    bool inClass, bool isConstexpr) {
        json::Object O;
        O["kind"] = kind;
        O["q"] = D->getQualifiedNameAsString();
        O["loc"] = loc(D->getLocation(), SourceLocation());
        std::string key = std::string(kind) + fileOf(D->getLocation()) + ":" +
                          std::to_string(SM.getSpellingLineNumber(SM.getFileLoc(D->getLocation()))) + ":" +
                          std::to_string(SM.getSpellingColumnNumber(SM.getFileLoc(D->getLocation())));
        if (!hdrDeclSeen.insert(key).second) return;
        O["file"] = fileOf(D->getLocation());
        O["inline"] = isInline;
        O["templated"] = templated;
        O["external"] = external;
        O["in_class"] = inClass;
        O["constexpr"] = isConstexpr;
        hdrDecls.push_back(std::move(O));
    }
};

class Visitor : public RecursiveASTVisitor<Visitor> {
public:
    Extractor &X;
    explicit Visitor(Extractor &X) : X(X) {}
    bool shouldVisitTemplateInstantiations() const { return true; }
    bool shouldVisitImplicitCode() const { return false; }

    bool VisitFunctionDecl(FunctionDecl *FD) {
        if (!FD->isThisDeclarationADefinition()) return true;
        SourceLocation L = FD->getLocation();
        if (const FunctionDecl *Pat = FD->getTemplateInstantiationPattern()) L = Pat->getLocation();
        if (!X.inRoots(L)) return true;
        // ODR bookkeeping: definitions written in headers
        // a definition is exempt from the one-definition rule across TUs when it is a template (dependent) or an implicit /
        // explicit *instantiation* of one; a full explicit specialisation is an ordinary function and is NOT implicitly inline
        TemplateSpecializationKind TSK = FD->getTemplateSpecializationKind();
        bool templated = FD->isTemplated() || FD->isDependentContext() || TSK == TSK_ImplicitInstantiation ||
                         TSK == TSK_ExplicitInstantiationDeclaration || TSK == TSK_ExplicitInstantiationDefinition;
        if (TSK == TSK_Undeclared && FD->getTemplatedKind() == FunctionDecl::TK_MemberSpecialization) templated = true;
        bool inClass = isa<CXXMethodDecl>(FD) && !FD->isOutOfLine();
        if (isa<CXXMethodDecl>(FD) && cast<CXXMethodDecl>(FD)->getParent()->isLambda()) {
            // lambdas have no linkage issue
        } else {
            X.headerDecl(FD, "function", FD->isInlined(), templated, FD->isExternallyVisible(), inClass,
                         FD->isConstexpr());
        }
        if (FD->isDependentContext()) return true;
        if (!FD->hasBody()) return true;
        X.frefId(FD);  // schedules the body
        return true;
    }
    bool VisitVarDecl(VarDecl *VD) {
        if (!VD->isFileVarDecl() && !VD->isStaticDataMember()) return true;
        if (VD->isThisDeclarationADefinition() != VarDecl::Definition) return true;
        if (!X.inRoots(VD->getLocation())) return true;
        bool templated = VD->isTemplated() || VD->getDeclContext()->isDependentContext() ||
                         isa<VarTemplateSpecializationDecl>(VD) || VD->getTemplateInstantiationPattern() != nullptr;
        X.headerDecl(VD, "variable", VD->isInline(), templated, VD->isExternallyVisible(), VD->isStaticDataMember(),
                     VD->isConstexpr());
        return true;
    }
    bool VisitCXXRecordDecl(CXXRecordDecl *RD) {
        if (!RD->isThisDeclarationADefinition()) return true;
        if (RD->isDependentContext()) return true;
        if (!X.inRoots(RD->getLocation())) return true;
        if (RD->isLambda()) return true;
        X.recordId(RD);
        return true;
    }
};

class Consumer : public ASTConsumer {
public:
    void HandleTranslationUnit(ASTContext &Ctx) override {
        Extractor X(Ctx);
        Visitor V(X);
        V.TraverseDecl(Ctx.getTranslationUnitDecl());
        // worklist: emitting a function may schedule its (lambda) callees
        for (size_t i = 0; i < X.worklist.size(); ++i) X.emitFunction(X.worklist[i]);

        std::error_code EC;
        llvm::raw_fd_ostream OS(g_out, EC);
        if (EC) {
            llvm::errs() << "cannot write " << g_out << ": " << EC.message() << "\n";
            return;
        }
        json::Object Top;
        Top["errors"] = (int64_t)Ctx.getDiagnostics().getClient()->getNumErrors();
        json::Array Fs;
        for (auto &S : X.files) Fs.push_back(S);
        Top["files"] = std::move(Fs);
        json::Array AllFiles;
        for (auto it = X.SM.fileinfo_begin(); it != X.SM.fileinfo_end(); ++it) {
            llvm::SmallString<256> Path(it->first->getName());
            X.SM.getFileManager().makeAbsolutePath(Path);
            llvm::sys::path::remove_dots(Path, true);
            AllFiles.push_back(std::string(Path.str()));
        }
        Top["all_files"] = std::move(AllFiles);
        Top["types"] = json::Array(std::move(X.types));
        Top["vars"] = json::Array(std::move(X.vars));
        Top["frefs"] = json::Array(std::move(X.frefs));
        Top["records"] = json::Array(std::move(X.records));
        Top["functions"] = json::Array(std::move(X.functions));
        Top["header_decls"] = json::Array(std::move(X.hdrDecls));
        // fref -> emitted function id
        json::Object Map;
        for (auto &KV : X.fnId) Map[std::to_string(X.frefIdx[KV.first->getCanonicalDecl()])] = KV.second;
        Top["fref_to_fn"] = std::move(Map);
        OS << json::Value(std::move(Top));
        OS << "\n";
    }
};

class Action : public ASTFrontendAction {
public:
    std::unique_ptr<ASTConsumer> CreateASTConsumer(CompilerInstance &, StringRef) override {
        return std::make_unique<Consumer>();
    }
};

}  // namespace

int main(int argc, const char **argv) {
    std::vector<std::string> srcs;
    int dd = -1;
    for (int i = 1; i < argc; ++i) {
        std::string A = argv[i];
        if (A == "--") {
            dd = i;
            break;
        }
        if (A.rfind("--out=", 0) == 0)
            g_out = A.substr(6);
        else if (A.rfind("--root=", 0) == 0)
            g_roots.push_back(A.substr(7));
        else
            srcs.push_back(A);
    }
    if (g_out.empty() || srcs.size() != 1 || dd < 0) {
        llvm::errs() << "usage: parmcb-sa --out=FILE --root=DIR... SRC -- flags\n";
        return 2;
    }
    std::vector<std::string> flags;
    for (int i = dd + 1; i < argc; ++i) flags.push_back(argv[i]);
    clang::tooling::FixedCompilationDatabase DB(".", flags);
    clang::tooling::ClangTool Tool(DB, srcs);
    int rc = Tool.run(clang::tooling::newFrontendActionFactory<Action>().get());
    return rc;
}
