"""C02 - exact algorithms return a minimum-weight cycle basis and its weight.

Minimality of each phase's cycle (stopping rule, pruning limit, tie-breaking, candidate sufficiency) is value-level: NOT claimed.
R02a  returned value = sum over phases of the weight component of the very triple whose cycle is emitted
R02b  while a cycle is assembled every inserted edge has its weight (same edge, weight map) added, and vice versa
R02c  sequential running best: replaced only under found(x) & (!found(best) | less(w(x), w(best)))   (A3)
R02d  ShortestOddCycleLookup with sorted_cycles == true only over a vector sorted ascending by weight on every path
R02e  the pruning limit handed to a search is (found, weight) of one and the same running best
R02f  the hidden-edge heuristic removes the current signed edge from the hidden set on every iteration
R02h  relaxation contract: a label is overwritten iff the vertex was unvisited or the new label compares less (4 searches)
R02i  the bidirectional search breaks / prunes / skips only when the compared quantity is not less than its bound; the best meeting
      point is replaced iff the new path is less
R12a  lexicographic comparators test and compare the same field in each rung (shared with the tree-based variants' tie-breaking)
"""
from lib import env
from . import c01, phase

TITLE = 'C02: weight bookkeeping and the min-selection contract of the sequential exact algorithms.'
RULES = {'R02a': 5, 'R02b': 5, 'R02c': 3, 'R02d': 2, 'R02e': 8, 'R02f': 1, 'R01f': 2}


def run(rep, tier):
    from . import c12, search

    def extra(rep_, prog):
        c12.check_comparators(rep_, prog)
        c12.check_first_in_path(rep_, prog)
        search.check_relaxation(rep_, prog)
        search.check_pruning(rep_, prog)
        from . import c07, c14, c17
        c17.check_program(rep_, prog, rules=('R17a', 'R17c'))
        c07.r07k(rep_, prog)
        search.check_combine_types(rep_, prog)
        from . import c16
        c16.shared(rep_, prog, rules=('R16b', 'R16c', 'R16h'))
        c14.check_no_candidate_removed(rep_, prog)
        c07.r07t(rep_, prog, only_files=('lex_dijkstra', 'sptrees', 'signed_dijkstra', 'cycles.hpp'))
        # root weight of the shortest-path trees (candidate sort keys): shared with C14
        sub14 = type(rep_)(rep_.prop, rep_.tier)
        c14.check_program(sub14, prog)
        for i in sub14.instances.values():
            if i.rule == 'R14d':
                rep_.add(i.rule, i.site, i.function, i.what, i.status, i.detail, key=i.key)
    rep.rule('R17a', 'support-vector sum / dot product are merges of strictly increasing lists (an incomplete sum leaves a support non-orthogonal: the phase then picks a heavier or dependent cycle)', floor=0)
    rep.rule('R17c', 'compound support-vector operators are alias-safe', floor=0)
    rep.rule('R07t', 'the set algorithms behind the tree labels see sorted ranges (inconsistent trees make the isometric variant return a heavier basis)', floor=1)
    rep.rule('R16b', 'forest index: dimension formula m - n + c (number of phases = number of cycles summed into the returned weight)', floor=1)
    rep.rule('R16c', 'spanning_forest reports 0 components only for the graph without vertices', floor=1)
    rep.rule('R16h', 'n, m and the component count are assigned on every path through create_index (an edgeless graph must yield weight 0, not 2^64 - n phases)', floor=1)
    rep.rule('R02j', 'the saturating sum of the searches is applied in the distance type (no floating -> integral truncation of weights)', floor=4)
    rep.rule('R07k', 'numeric_limits<T>::infinity() only for floating-point T (0 for integral weight types)', floor=0)
    rep.rule('R14d', 'the root node of a shortest-path tree has weight zero (candidate weights are the sort keys of the first-found lookup)', floor=0)
    c01.run_rules(rep, tier, RULES, c01.DOCS, extra=extra)
    rep.rule('R02h', 'relaxation contract of every label-setting search', floor=4)
    rep.rule('R02i', 'pruning / stopping / best-update conditions of the bidirectional search are sound', floor=5)
    c01.search_positive(rep, ('R02h', 'R02i'))
    rep.rule('R12a', 'lexicographic comparator rungs are consistent', floor=1)
    rep.rule('R12b', 'every visited tree node (root included) gets the first-in-path label the candidate filter compares (a wrongly discarded candidate makes the tree variants return a heavier basis)', floor=1)
    rep.note('NOT claimed: that each phase finds a minimum-weight odd cycle; optimality of the basis')
