"""C15 - the intermediate spanner is a weighted (2k-1)-spanner of girth > 2k.

Claimed: every structural clause of the construction loop; the hop semantics of is_bfs_reachable is assumed.
R15a  every scanned edge is retained or dropped, exactly one of the two; the whole edge set is scanned
R15b  the hop bound normalises to 2k-1 and an edge is retained exactly when the endpoints are NOT within it
R15c  edges are scanned by non-decreasing input weight
R05c  (=R15d) retained edges carry the input weight        R05d  and are recorded in the translation table
R15e  world discipline of every BGL call in the loop
"""
from lib import env, ex
from . import c05

TITLE = 'C15: structure of the greedy spanner construction loop (partition, hop bound, scan order, weights, translation).'
RULES = {'R15a': 2, 'R15b': 2, 'R15c': 1, 'R05c': 1, 'R05d': 2, 'R15e': 10}


def r15g(rep, prog):
    """the hop counters of the bounded BFS are at least as wide as the hop bound: a counter narrower than `max_hops` wraps around before the
    bound is reached (for k >= 128 with an 8-bit counter the level 256 becomes 0, the cut-off never fires and "within 2k-1 hops" degenerates to
    "connected")"""
    from .c17 import int_shape
    n = 0
    for fn in prog.fns('parmcb::is_bfs_reachable'):
        if len(fn.param_ids) < 4:
            continue
        hw, _hs = int_shape(prog, prog.vars[fn.param_ids[-1]]['ty'])
        what = 'hop counters of is_bfs_reachable are as wide as the hop bound'
        for d in fn.walk():
            if d.k != 'VarDecl' or prog.vars[d.decl_id].get('kind') != 'local':
                continue
            t = prog.base_type(d.j.get('t')) or {}
            if (t.get('rec') or '') not in ('std::vector', 'std::deque', 'std::array'):
                continue
            targs = [a for a in (t.get('targs') or []) if isinstance(a, int)]
            if not targs:
                continue
            et = prog.base_type(targs[0]) or {}
            if not et.get('int') or et.get('bool'):
                continue
            ew, _es = int_shape(prog, targs[0])
            n += 1
            if hw is not None and ew is not None and ew < hw:
                rep.violation('R15g', d, fn, what, 'the per-vertex hop counters `%s` are %d bits wide, the bound is %d bits: for a bound of %d hops or more the '
                              'counter wraps to 0 and the cut-off never fires (an edge is dropped although its endpoints are farther apart than 2k-1)' % (
                                  prog.vars[d.decl_id]['name'], ew, hw, 2 ** ew - 1), key='R15g|%s|narrow-counter' % fn.g)
            else:
                rep.ok('R15g', d, fn, what, '%s: %s bits' % (prog.vars[d.decl_id]['name'], ew))
    return n


def _is_forwarder(fn):
    """an overload that only forwards to a sibling overload of the same name (judged through that sibling)"""
    return not [x for x in fn.walk() if x.k in ('WhileStmt', 'ForStmt', 'CXXForRangeStmt')] and \
        bool([x for x in fn.walk() if x.k == 'CallExpr' and x.callee and x.callee['g'] == fn.g and len(x.args()) != len(fn.param_ids)])


def r15f(rep, prog):
    """the bounded BFS answers `true` only for a vertex within the hop bound.  Conditions over the hop bound h are evaluated over
    the four regions of the popped vertex's distance d_u:  A: d_u + 1 < h,  B: d_u + 1 == h,  E: d_u == h,  G: d_u > h.
    * `return true` for the popped vertex needs d_u <= h: either its guards exclude G, or no vertex beyond the bound is queued
      (every non-source push only in A or B);
    * `return true` for a neighbour discovered from the popped vertex (one hop further) needs d_u < h: either its guards exclude
      E and G, or every queued vertex is closer than h (non-source pushes only in A, the source queued only when h != 0)."""
    import itertools
    from .c10 import guards_formula
    what = 'is_bfs_reachable answers true only when the target is within max_hops'
    n = 0
    REG = ('A', 'B', 'E', 'G')
    for fn in prog.fns('parmcb::is_bfs_reachable'):
        n += 1
        cfg = fn.cfg
        # (g, [index map,] s, t, max_hops): the three search parameters are the last three
        hparam = fn.param_ids[-1] if len(fn.param_ids) >= 4 else None
        tparam = fn.param_ids[-2] if len(fn.param_ids) >= 3 else None
        sparam = fn.param_ids[-3] if len(fn.param_ids) >= 3 else None
        if _is_forwarder(fn):
            n -= 1
            continue
        trues = [r for r in ex.returns_of(fn) if r.c and r.c[0].strip_all().cv == 1]
        if not trues or hparam is None:
            rep.undecided('R15f', fn.body, fn, what, 'no `return true` / no hop parameter')
            continue
        A, B, E, G = [ex.f_atom(x) for x in REG]

        def f_any(*xs):
            r = xs[0]
            for x in xs[1:]:
                r = ex.f_or(r, x)
            return r

        def atomize(leaf):
            s = leaf.strip_all()
            if s.k == 'BinaryOperator' and s.op in ('<', '<=', '>', '>=') and len(s.c) == 2:
                a, b = s.c
                op = s.op
                if ex.var_of(b) == hparam and ex.var_of(a) is not None:
                    pass
                elif ex.var_of(a) == hparam and ex.var_of(b) is not None:
                    op = {'<': '>', '<=': '>=', '>': '<', '>=': '<='}[op]
                    a, b = b, a
                elif ex.var_of(a) == hparam and a is not None and b.strip_all().cv == 0 and op in ('>', '<='):
                    f = ex.f_atom('h0')
                    return ex.f_not(f) if op == '>' else f
                elif ex.var_of(b) == hparam and a.strip_all().cv == 0 and op in ('<', '>='):
                    f = ex.f_atom('h0')
                    return ex.f_not(f) if op == '<' else f
                else:
                    return None
                dv = ex.var_of(a)
                d = ex.unique_def(fn, dv)
                # d_u must be the distance of the vertex just popped
                if d is None:
                    return None
                # a variable defined as combine(d_u, 1) / d_u + 1 is the distance of the vertex being discovered
                dd = d.strip_all()
                plus1 = (dd.k in ('BinaryOperator',) and dd.op == '+' and (dd.c[0].strip_all().cv == 1 or dd.c[1].strip_all().cv == 1)) or \
                    (dd.k in ex.CALL_KINDS and len(dd.c) >= 2 and dd.c[-1].strip_all().cv == 1 and any(ex.var_of(x) is not None for x in dd.c[1:-1]))
                if plus1:
                    return {'<': A, '<=': f_any(A, B), '>': f_any(E, G), '>=': f_any(B, E, G)}[op]
                return {'<': f_any(A, B), '<=': f_any(A, B, E), '>': G, '>=': f_any(E, G)}[op]
            if s.k == 'BinaryOperator' and s.op in ('==', '!=') and sparam is not None and {ex.var_of(s.c[0]), ex.var_of(s.c[1])} == {sparam, tparam}:
                f = ex.f_atom('s_is_t')
                return f if s.op == '==' else ex.f_not(f)
            if s.k == 'BinaryOperator' and s.op in ('==', '!=') and (ex.var_of(s.c[0]) == tparam or ex.var_of(s.c[1]) == tparam):
                ov_ = ex.var_of(s.c[1]) if ex.var_of(s.c[0]) == tparam else ex.var_of(s.c[0])
                f = ex.f_atom('is_t' if ov_ is None else 'is_t:%s' % ov_)     # `u == t` and `w == t` are different facts
                return f if s.op == '==' else ex.f_not(f)
            if s.k == 'BinaryOperator' and s.op in ('==', '!=') and hparam in (ex.var_of(s.c[0]), ex.var_of(s.c[1])) and \
                    0 in (s.c[0].strip_all().cv, s.c[1].strip_all().cv):
                f = ex.f_atom('h0')
                return f if s.op == '==' else ex.f_not(f)
            return None

        def reach(f, region=None, **fixed):
            """is f satisfiable with d_u in `region` (None: regions unconstrained atoms absent)"""
            atoms = ex.f_atoms(f)
            others = [a_ for a_ in atoms if a_ not in REG and a_ not in fixed]
            for vals in itertools.product((False, True), repeat=len(others)):
                envv = dict(zip(others, vals))
                envv.update({r_: (r_ == region) for r_ in REG})
                envv.update(fixed)
                if ex.f_eval(f, envv):
                    return True
            return False

        def has_regions(f):
            return any(a_ in REG for a_ in ex.f_atoms(f))

        def opaque_atoms(f):
            return [a_ for a_ in ex.f_atoms(f) if isinstance(a_, tuple)]

        def neighbour_var(v):
            ds = ex.assignments_to(fn, v) if v is not None else []
            for (_, rhs) in ds:
                r_ = rhs.strip_all() if rhs is not None else None
                if r_ is not None and r_.k == 'CallExpr' and r_.callee and r_.callee['g'] in ('boost::target', 'boost::opposite', 'boost::source'):
                    return True
            return False
        pushes = [x for x in fn.walk() if x.k == 'CXXMemberCallExpr' and x.callee and x.callee['name'] in ('push', 'push_back', 'emplace', 'emplace_back')
                  and (prog.base_type(x.object_arg().strip_all().j.get('t')) or {}).get('rec') in ('std::queue', 'std::deque', 'std::list', 'std::vector')
                  and x.args() and 'tuple' not in ((prog.base_type(x.args()[0].strip_all().j.get('t')) or {}).get('canon') or '')]
        for rt in trues:
            f = guards_formula(cfg, rt, atomize)
            atoms = ex.f_atoms(f)
            if 's_is_t' in atoms and not reach(f, None, s_is_t=False) and not any(reach(f, r_, s_is_t=False) for r_ in REG):
                rep.ok('R15f', rt, fn, what, '`return true` for source == target: zero hops')
                continue
            if has_regions(f) and not any(reach(f, r_) for r_ in REG):
                rep.undecided('R15f', rt, fn, what, 'the guards of this `return true` hold in no distance region as far as recognised (dead code or atoms conflated)')
                continue
            # is the vertex found equal to the target the popped one, or a neighbour discovered from it (one hop further)?
            nb = False
            for (c_, pol_) in ex.ast_conditions(rt):
                for x in c_.walk():
                    if x.k == 'BinaryOperator' and x.op in ('==', '!=') and tparam in (ex.var_of(x.c[0]), ex.var_of(x.c[1])):
                        ov = ex.var_of(x.c[0]) if ex.var_of(x.c[1]) == tparam else ex.var_of(x.c[1])
                        if neighbour_var(ov):
                            nb = True
            if has_regions(f):
                if nb:
                    if not reach(f, 'E') and not reach(f, 'G'):
                        rep.ok('R15f', rt, fn, what, '`return true` for a discovered neighbour is only reached with d_u < max_hops for the popped vertex')
                        continue
                    if not reach(f, 'G'):
                        rep.violation('R15f', rt, fn, what, '`return true` for a neighbour of the popped vertex is reachable when the popped vertex is exactly '
                                      'max_hops away: the target is then max_hops+1 hops away', key='R15f|%s|unbounded-true' % fn.g)
                        continue
                elif not reach(f, 'G'):
                    rep.ok('R15f', rt, fn, what, '`return true` is only reached with d_u <= max_hops for the popped vertex')
                    continue
            # alternative idiom: what is queued is bounded
            src_pushes = [pu for pu in pushes if ex.var_of(pu.args()[0]) == sparam]
            oth_pushes = [pu for pu in pushes if pu not in src_pushes]
            allowed = ('A',) if nb else ('A', 'B')
            witness, unknown = [], []
            for pu in oth_pushes:
                g = guards_formula(cfg, pu, atomize)
                if not has_regions(g):
                    (unknown if opaque_atoms(g) else witness).append((pu, 'is not guarded by the hop bound'))
                    continue
                badr = [r_ for r_ in REG if r_ not in allowed and reach(g, r_)]
                if badr:
                    witness.append((pu, 'is reachable when the popped vertex is %s' % {'B': 'max_hops-1 away', 'E': 'exactly max_hops away', 'G': 'beyond max_hops'}[badr[0]]))
            if nb:
                for pu in src_pushes:
                    g = guards_formula(cfg, pu, atomize)
                    if reach(g, None, h0=True) if 'h0' in ex.f_atoms(g) else True:
                        (unknown if opaque_atoms(g) else witness).append((pu, 'queues the source also for max_hops == 0'))
            if not pushes:
                rep.undecided('R15f', rt, fn, what, 'no queue push found')
            elif not witness and not unknown:
                rep.ok('R15f', rt, fn, what, 'every queued vertex is %s' % ('closer than max_hops, so a discovered neighbour is within the bound' if nb else 'within the bound'))
            elif witness:
                pu, why = witness[0]
                rep.violation('R15f', rt, fn, what,
                              '`return true` (%s) is not guarded by the hop cut-off and the push at line %d %s: an edge whose endpoints are '
                              'max_hops+1 apart is dropped' % ('discovered neighbour' if nb else 'popped vertex', pu.line, why),
                              key='R15f|%s|unbounded-true' % fn.g)
            else:
                rep.undecided('R15f', rt, fn, what, 'the push at line %d %s as far as recognised; its guards contain `%s`' % (
                    unknown[0][0].line, unknown[0][1], fn.nodes[opaque_atoms(guards_formula(cfg, unknown[0][0], atomize))[0][1]].text(30)))
    return n


def r15h(rep, prog):
    """every neighbour of the popped vertex that has not been seen yet is discovered: the discovery (mark + queue) of w is conditioned only on
    identity tests between vertices (self-loop, the source), the visited mark and the hop bound.  A structural filter on w (`out_degree(w) == 1:
    nothing is reached through a leaf`) also filters the *target* when it is such a vertex - the target is recognised when it is popped, so
    it is never found, the edge is retained and closes a cycle of at most 2k edges in the spanner."""
    from .c10 import guards_formula
    what = 'the discovery of a neighbour in is_bfs_reachable is filtered only by vertex identity, the visited mark and the hop bound'
    n = 0
    for fn in prog.fns('parmcb::is_bfs_reachable'):
        cfg = fn.cfg
        if len(fn.param_ids) < 4:
            continue
        sparam, tparam, hparam = fn.param_ids[-3], fn.param_ids[-2], fn.param_ids[-1]
        if _is_forwarder(fn):
            continue
        pushes = [x for x in fn.walk() if x.k == 'CXXMemberCallExpr' and x.callee and x.callee['name'] in ('push', 'push_back', 'emplace', 'emplace_back')
                  and (prog.base_type(x.object_arg().strip_all().j.get('t')) or {}).get('rec') in ('std::queue', 'std::deque', 'std::list', 'std::vector')
                  and x.args() and ex.var_of(x.args()[0]) not in (None, sparam)]
        for pu in pushes:
            lp = pu.enclosing('ForStmt', 'CXXForRangeStmt', 'WhileStmt')
            if lp is None:
                continue
            n += 1
            wv = ex.var_of(pu.args()[0])

            def vertexish(e):
                t_ = prog.type(e.strip_all().j.get('t')) or {}
                return 'ertex' in (t_.get('s') or '') or ex.var_of(e) in (sparam, tparam, wv)

            def atomize(leaf):
                s_ = leaf.strip_all()
                if s_.k == 'BinaryOperator' and s_.op in ('==', '!=') and len(s_.c) == 2 and ex.var_of(s_.c[0]) is not None and ex.var_of(s_.c[1]) is not None \
                        and (vertexish(s_.c[0]) or vertexish(s_.c[1])):
                    return ex.f_atom(('ident', leaf.i))
                if s_.k == 'BinaryOperator' and s_.op in ('<', '<=', '>', '>=') and hparam in (ex.var_of(s_.c[0]), ex.var_of(s_.c[1])):
                    return ex.f_atom(('bound', leaf.i))
                if s_.k == 'CallExpr' and s_.callee and s_.callee['g'] == 'std::get' and s_.args():
                    return ex.f_atom(('visited', leaf.i))
                v_ = ex.var_of(s_)
                if v_ is not None and ((prog.base_type(prog.vars[v_].get('ty')) or {}).get('bool') or (prog.type(s_.j.get('t')) or {}).get('canon') == 'bool'):
                    d_ = ex.unique_def(fn, v_)
                    if d_ is not None and any(x.k == 'CallExpr' and x.callee and x.callee['g'] in ('std::get', 'boost::get') for x in [d_.strip_all()] + list(d_.walk())):
                        return ex.f_atom(('visited', leaf.i))
                if s_.k in ('CXXOperatorCallExpr',) and s_.op == '[]':
                    return ex.f_atom(('visited', leaf.i))
                return None
            g = guards_formula(cfg, pu, atomize)
            opq = [a_ for a_ in ex.f_atoms(g) if isinstance(a_, tuple) and a_ and a_[0] == 'opaque' and lp.body is not None and lp.body.is_ancestor_of(fn.nodes[a_[1]])]
            bad = und = None
            gparam = fn.param_ids[0]
            for a_ in opq:
                cn = fn.nodes[a_[1]]
                # a *structural* test of the neighbour: a call that takes the graph and the neighbour (out_degree(w, g), edge(w, x, g), ...)
                structural = any(x.k in ex.CALL_KINDS and x.callee and any(ex.var_of(y) == gparam for y in (x.args() if x.k != 'CXXOperatorCallExpr' else x.c[1:])) and
                                 any(ex.refs_var(y, wv) for y in (x.args() if x.k != 'CXXOperatorCallExpr' else x.c[1:])) for x in [cn.strip_all()] + list(cn.walk()))
                # search state of the neighbour: a per-vertex table / property map of this search read at w (distance sentinel, colour, visited flag)
                state = any((x.k == 'CallExpr' and x.callee and x.callee['g'] == 'boost::get' and len(x.args()) == 2 and ex.var_of(x.args()[1]) == wv and ex.var_of(x.args()[0]) != gparam) or
                            (x.k == 'CXXOperatorCallExpr' and x.op == '[]' and len(x.c) == 3 and ex.refs_var(x.c[2], wv) and ex.var_of(x.c[1]) != gparam)
                            for x in [cn.strip_all()] + list(cn.walk()))
                if structural and ex.refs_var(cn, wv) and not ex.refs_var(cn, tparam):
                    bad = cn
                elif state and not structural:
                    pass
                else:
                    und = cn
            if bad is not None:
                rep.violation('R15h', pu, fn, what, 'the neighbour is skipped under `%s` (line %d), a test of the neighbour that does not exempt the target: when the target is '
                              'such a vertex it is never discovered, is_bfs_reachable answers false for an endpoint that is within the hop bound, and the edge '
                              'closes a short cycle in the spanner' % (bad.text(50), bad.line), key='R15h|%s|filter' % fn.g)
            elif und is not None:
                rep.undecided('R15h', pu, fn, what, 'discovery also depends on `%s`' % und.text(50))
            else:
                rep.ok('R15h', pu, fn, what)
    return n


def r02h_bfs(rep, names=('is_bfs_reachable',)):
    """hop distances of the bounded BFS are set once, at discovery (R02h restricted to is_bfs_reachable; C06 adds the closing-path Dijkstra)"""
    from . import search
    rep.rule('R02h', 'bounded BFS: a hop distance is stored exactly once, when the vertex is discovered and marked', floor=1)
    for prog in env.extract([env.witness_tu()], 'full').values():
        sub = type(rep)(rep.prop, rep.tier)
        search.check_relaxation(sub, prog)
        for i in sub.instances.values():
            if any(i.function.endswith('::' + nm) or i.function == 'parmcb::' + nm for nm in names):
                rep.add(i.rule, i.site, i.function, i.what, i.status, i.detail, key=i.key)


def run(rep, tier):
    c05.run_rules(rep, tier, list(RULES), RULES)
    rep.rule('R15f', 'bounded BFS answers true only within the hop bound', floor=1)
    rep.rule('R15g', 'hop counters of the bounded BFS are as wide as the hop bound', floor=1)
    rep.rule('R15h', 'the bounded BFS discovers every unseen neighbour within the bound (no structural pruning that can hide the target)', floor=1)
    n = 0
    rep.rule('R07k', 'numeric_limits<T>::infinity() only for floating-point T (the hop counter combines with closed_plus<size_t>, whose closed value must not be 0)', floor=0)
    from . import c07
    for prog in env.extract([env.witness_tu()], 'full').values():
        n += r15f(rep, prog)
        r15g(rep, prog)
        r15h(rep, prog)
        c07.r07k(rep, prog)
    if n == 0:
        rep.analysis_broken('parmcb::is_bfs_reachable is not instantiated (anchor vanished)')
    r02h_bfs(rep)
    rep.assume('BFS pops vertices in order of hop distance (queue discipline of std::queue); given that, R15f makes '
               'is_bfs_reachable(g, s, t, h) true only if dist(s, t) <= h; completeness of the search is not decided')
