"""C15 - the intermediate spanner is a weighted (2k-1)-spanner of girth > 2k.

Claimed: every structural clause of the construction loop; the hop semantics of is_bfs_reachable is assumed.
R15a  every scanned edge is retained or dropped, exactly one of the two; the whole edge set is scanned
R15b  the hop bound normalises to 2k-1 and an edge is retained exactly when the endpoints are NOT within it
R15c  edges are scanned by non-decreasing input weight
R05c  (=R15d) retained edges carry the input weight        R05d  and are recorded in the translation table
R15e  world discipline of every BGL call in the loop
"""
from lib import env, ex
from . import c05

TITLE = 'C15: structure of the greedy spanner construction loop (partition, hop bound, scan order, weights, translation).'
RULES = {'R15a': 2, 'R15b': 2, 'R15c': 1, 'R05c': 1, 'R05d': 2, 'R15e': 10}


def r15g(rep, prog):
    """the hop counters of the bounded BFS are at least as wide as the hop bound: a counter narrower than `max_hops` wraps around before the
    bound is reached (for k >= 128 with an 8-bit counter the level 256 becomes 0, the cut-off never fires and "within 2k-1 hops" degenerates to
    "connected")"""
    from .c17 import int_shape
    n = 0
    for fn in prog.fns('parmcb::is_bfs_reachable'):
        if len(fn.param_ids) < 4:
            continue
        hw, _hs = int_shape(prog, prog.vars[fn.param_ids[3]]['ty'])
        what = 'hop counters of is_bfs_reachable are as wide as the hop bound'
        for d in fn.walk():
            if d.k != 'VarDecl' or prog.vars[d.decl_id].get('kind') != 'local':
                continue
            t = prog.base_type(d.j.get('t')) or {}
            if (t.get('rec') or '') not in ('std::vector', 'std::deque', 'std::array'):
                continue
            targs = [a for a in (t.get('targs') or []) if isinstance(a, int)]
            if not targs:
                continue
            et = prog.base_type(targs[0]) or {}
            if not et.get('int') or et.get('bool'):
                continue
            ew, _es = int_shape(prog, targs[0])
            n += 1
            if hw is not None and ew is not None and ew < hw:
                rep.violation('R15g', d, fn, what, 'the per-vertex hop counters `%s` are %d bits wide, the bound is %d bits: for a bound of %d hops or more the '
                              'counter wraps to 0 and the cut-off never fires (an edge is dropped although its endpoints are farther apart than 2k-1)' % (
                                  prog.vars[d.decl_id]['name'], ew, hw, 2 ** ew - 1), key='R15g|%s|narrow-counter' % fn.g)
            else:
                rep.ok('R15g', d, fn, what, '%s: %s bits' % (prog.vars[d.decl_id]['name'], ew))
    return n


def r15f(rep, prog):
    """the bounded BFS answers `true` only for a vertex popped within the hop bound: either the `return true` is
    guarded by d_u <= max_hops for the popped vertex, or no vertex beyond the bound is ever queued"""
    what = 'is_bfs_reachable answers true only when the target is within max_hops'
    n = 0
    for fn in prog.fns('parmcb::is_bfs_reachable'):
        n += 1
        cfg = fn.cfg
        hparam = fn.param_ids[3] if len(fn.param_ids) >= 4 else None
        tparam = fn.param_ids[2] if len(fn.param_ids) >= 3 else None
        sparam = fn.param_ids[1] if len(fn.param_ids) >= 3 else None
        trues = [r for r in ex.returns_of(fn) if r.c and r.c[0].strip_all().cv == 1]
        if not trues or hparam is None:
            rep.undecided('R15f', fn.body, fn, what, 'no `return true` / no hop parameter')
            continue

        new_dist_tests = []

        def atomize(leaf):
            s = leaf.strip_all()
            if s.k == 'BinaryOperator' and s.op in ('<', '<=', '>', '>=') and len(s.c) == 2:
                a, b = s.c
                op = s.op
                if ex.var_of(b) == hparam and ex.var_of(a) is not None:
                    pass
                elif ex.var_of(a) == hparam and ex.var_of(b) is not None:
                    op = {'<': '>', '<=': '>=', '>': '<', '>=': '<='}[op]
                    a, b = b, a
                else:
                    return None
                dv = ex.var_of(a)
                d = ex.unique_def(fn, dv)
                # d_u must be the distance of the vertex just popped
                if d is None:
                    return None
                # a variable defined as combine(d_u, 1) / d_u + 1 is the distance of the vertex being discovered: its test
                # `c <= max_hops` says d_u < max_hops
                dd = d.strip_all()
                plus1 = (dd.k in ('BinaryOperator',) and dd.op == '+' and (dd.c[0].strip_all().cv == 1 or dd.c[1].strip_all().cv == 1)) or \
                    (dd.k in ex.CALL_KINDS and len(dd.c) >= 2 and dd.c[-1].strip_all().cv == 1 and any(ex.var_of(x) is not None for x in dd.c[1:-1]))
                lt, eq, gt = ex.f_atom('lt'), ex.f_atom('eq'), ex.f_atom('gt')
                if plus1:
                    # (d_u + 1) op h  over the orderings of d_u vs h:  d_u+1 < h iff d_u < h-1 (finer than the three orderings): approximate
                    # soundly for the use below - `<=`/`>` are exact: d_u + 1 <= h  iff  d_u < h
                    if op == '<=':
                        return lt
                    if op == '>':
                        return ex.f_or(eq, gt)
                    return None
                new_dist_tests.append(leaf)
                return {'<': lt, '<=': ex.f_or(lt, eq), '>': gt, '>=': ex.f_or(gt, eq)}[op]
            if s.k == 'BinaryOperator' and s.op in ('==', '!=') and sparam is not None and {ex.var_of(s.c[0]), ex.var_of(s.c[1])} == {sparam, tparam}:
                f = ex.f_atom('s_is_t')
                return f if s.op == '==' else ex.f_not(f)
            if s.k == 'BinaryOperator' and s.op in ('==', '!=') and (ex.var_of(s.c[0]) == tparam or ex.var_of(s.c[1]) == tparam):
                f = ex.f_atom('is_t')
                return f if s.op == '==' else ex.f_not(f)
            return None
        from .c10 import guards_formula
        for rt in trues:
            f = guards_formula(cfg, rt, atomize)
            atoms = ex.f_atoms(f)
            # orderings of d_u vs max_hops: exactly one of lt/eq/gt
            import itertools
            ok_all = True
            if 's_is_t' in atoms:
                rest = [a for a in atoms if a != 's_is_t']
                if not any(ex.f_eval(f, dict(zip(rest, vals), s_is_t=False)) for vals in itertools.product((False, True), repeat=len(rest))):
                    rep.ok('R15f', rt, fn, what, '`return true` for source == target: zero hops')
                    continue
            others = [a for a in atoms if a not in ('lt', 'eq', 'gt')]
            for vals in itertools.product((False, True), repeat=len(others)):
                envv = dict(zip(others, vals))
                envv.update({'lt': False, 'eq': False, 'gt': True})
                if ex.f_eval(f, envv):
                    ok_all = False   # `return true` reachable with d_u > max_hops
            if any(a in ('lt', 'eq', 'gt') for a in atoms) and ok_all:
                # is the vertex found equal to the target the popped one, or a neighbour discovered from it (one hop further)?
                nb = False
                for (c_, pol_) in ex.ast_conditions(rt):
                    for x in c_.walk():
                        if x.k == 'BinaryOperator' and x.op in ('==', '!=') and tparam in (ex.var_of(x.c[0]), ex.var_of(x.c[1])):
                            ov = ex.var_of(x.c[0]) if ex.var_of(x.c[1]) == tparam else ex.var_of(x.c[1])
                            dv_ = ex.unique_def(fn, ov) if ov is not None else None
                            if dv_ is not None and dv_.strip_all().k == 'CallExpr' and dv_.strip_all().callee and \
                                    dv_.strip_all().callee['g'] in ('boost::target', 'boost::opposite', 'boost::source'):
                                nb = True
                if nb:
                    # discovered vertex: needs d_u < max_hops
                    bad_eq = False
                    for vals in itertools.product((False, True), repeat=len(others)):
                        envv = dict(zip(others, vals))
                        envv.update({'lt': False, 'eq': True, 'gt': False})
                        if ex.f_eval(f, envv):
                            bad_eq = True
                    if bad_eq:
                        rep.violation('R15f', rt, fn, what, '`return true` for a neighbour of the popped vertex is reachable when the popped vertex is exactly '
                                      'max_hops away: the target is then max_hops+1 hops away', key='R15f|%s|unbounded-true' % fn.g)
                        continue
                rep.ok('R15f', rt, fn, what, '`return true` is only reached with d_u <= max_hops for the popped vertex')
                continue
            # alternative idiom: pushes are bounded
            pushes = [x for x in fn.walk() if x.k == 'CXXMemberCallExpr' and x.callee and x.callee['name'] == 'push']
            bounded = 0
            for pu in pushes:
                # the bound must hold for the *pushed* vertex: a guard on the popped vertex's distance d_u bounds the
                # new distance d_u + 1 only if it is strict (d_u < max_hops)
                g = guards_formula(cfg, pu, atomize)
                ats = ex.f_atoms(g)
                if any(a in ('lt', 'eq', 'gt') for a in ats):
                    def holds(which):
                        import itertools
                        others = [a for a in ats if a not in ('lt', 'eq', 'gt')]
                        for vals in itertools.product((False, True), repeat=len(others)):
                            envv = dict(zip(others, vals))
                            envv.update({'lt': which == 'lt', 'eq': which == 'eq', 'gt': which == 'gt'})
                            if ex.f_eval(g, envv):
                                return True
                        return False
                    if not holds('gt') and not holds('eq'):
                        bounded += 1
            if pushes and bounded >= len(pushes) - 1 and bounded > 0:
                rep.ok('R15f', rt, fn, what, 'vertices beyond the bound are never queued')
            else:
                rep.violation('R15f', rt, fn, what,
                              '`return true` is reachable for a popped vertex whose distance exceeds max_hops (the hop cut-off is not '
                              'tested before the target test): an edge whose endpoints are max_hops+1 apart is dropped',
                              key='R15f|%s|unbounded-true' % fn.g)
    return n


def r02h_bfs(rep, names=('is_bfs_reachable',)):
    """hop distances of the bounded BFS are set once, at discovery (R02h restricted to is_bfs_reachable; C06 adds the closing-path Dijkstra)"""
    from . import search
    rep.rule('R02h', 'bounded BFS: a hop distance is stored exactly once, when the vertex is discovered and marked', floor=1)
    for prog in env.extract([env.witness_tu()], 'full').values():
        sub = type(rep)(rep.prop, rep.tier)
        search.check_relaxation(sub, prog)
        for i in sub.instances.values():
            if any(i.function.endswith('::' + nm) or i.function == 'parmcb::' + nm for nm in names):
                rep.add(i.rule, i.site, i.function, i.what, i.status, i.detail, key=i.key)


def run(rep, tier):
    c05.run_rules(rep, tier, list(RULES), RULES)
    rep.rule('R15f', 'bounded BFS answers true only within the hop bound', floor=1)
    rep.rule('R15g', 'hop counters of the bounded BFS are as wide as the hop bound', floor=1)
    n = 0
    for prog in env.extract([env.witness_tu()], 'full').values():
        n += r15f(rep, prog)
        r15g(rep, prog)
    if n == 0:
        rep.analysis_broken('parmcb::is_bfs_reachable is not instantiated (anchor vanished)')
    r02h_bfs(rep)
    rep.assume('BFS pops vertices in order of hop distance (queue discipline of std::queue); given that, R15f makes '
               'is_bfs_reachable(g, s, t, h) true only if dist(s, t) <= h; completeness of the search is not decided')
