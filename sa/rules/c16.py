"""C16 - ForestIndex is a bijection that numbers non-forest edges first.

That the BFS forest is spanning and acyclic is value-level: NOT claimed.  Decided:
R16a  create_index runs once over boost::edges(g); each arm does index[e] = c; reverse_index[c] = e; ++c with the same e and counter,
      one arm per counter; the counters start at 0 and at m - n + k; the arm is chosen by membership of e in the forest set
R16b  cycle_space_dimension() normalises to num_edges - num_vertices + <return of spanning_forest>; is_on_forest(e) is
      index(e) >= that value; operator()(Edge) / operator()(size_type) read index / reverse_index; weak_connected_components() is k
R16c  spanning_forest returns the constant 0 early only for a graph without vertices; otherwise it returns its component counter,
      incremented exactly once per outer (component) iteration
R16d  the hand-written copy constructor and assignment copy every data member
R16e  indices are not assigned in an order derived from addresses
R16f  spanning_forest emits an edge only towards a still-unreached vertex and marks/queues it on the same path
"""
import itertools
import os

from lib import env, ex
from . import c04, c17
from .c10 import guards_formula

TITLE = 'C16: inverse-pair numbering, dimension formula, component counter, member-wise copies, address-free order of ForestIndex.'
CLS = 'parmcb::ForestIndex'


def class_field_defs(prog, rec_id):
    """field -> list of (fn, rhs) assignments in non-copy member functions of the class instance rec_id"""
    res = {}
    for fn in prog.functions:
        if fn.j.get('rec_id') != rec_id or fn.implicit:
            continue
        fr = fn.fref
        if fr.get('copy_ctor') or fr.get('move_ctor') or fr.get('copy_assign') or fr.get('move_assign'):
            continue
        if fr.get('ctor') and len(fn.param_ids) == 1 and CLS.split('::')[-1] in (prog.type(prog.vars[fn.param_ids[0]]['ty']) or {}).get('canon', '') \
                and 'adjacency_list' not in (prog.type(prog.vars[fn.param_ids[0]]['ty']) or {}).get('canon', '').split('ForestIndex')[0]:
            continue
        for d in fn.walk():
            if d.k == 'BinaryOperator' and d.op == '=':
                v = ex.var_of(d.c[0])
                if v is not None and prog.vars[v]['kind'] == 'field':
                    res.setdefault(v, []).append((fn, d.c[1]))
    # members set in the member-initialiser list of the (non-copy) constructors and never assigned in a body
    inits = {}
    for fn in prog.functions:
        if fn.j.get('rec_id') != rec_id or fn.implicit or not fn.fref.get('ctor'):
            continue
        fr = fn.fref
        if fr.get('copy_ctor') or fr.get('move_ctor'):
            continue
        if len(fn.param_ids) == 1 and 'adjacency_list' not in (prog.type(prog.vars[fn.param_ids[0]]['ty']) or {}).get('canon', '').split('ForestIndex')[0] and \
                CLS.split('::')[-1] in (prog.type(prog.vars[fn.param_ids[0]]['ty']) or {}).get('canon', ''):
            continue
        for ci in fn.ctor_inits:
            if 'field' in ci and 'node' in ci and ci.get('written') and ci['field'] not in res:
                inits.setdefault(ci['field'], []).append((fn, ci['node']))
    for f_, lst in inits.items():
        res[f_] = lst
    return res


def check_create_index(rep, prog, fn):
    cfg = fn.cfg
    what = 'edge -> index and index -> edge are filled as an inverse pair, off-forest edges from 0, forest edges from m-n+k'
    loops = [n for n in fn.body.walk() if n.k in ('ForStmt', 'WhileStmt', 'CXXForRangeStmt')]
    edge_loops = []
    for lp in loops:
        rng = [d for d in lp.walk() if d.k == 'CallExpr' and d.callee and d.callee['g'] == 'boost::edges']
        hdr = lp.role('init') if lp.k == 'ForStmt' else lp.role('range')
        if hdr is not None and any(hdr.is_ancestor_of(r) for r in rng):
            edge_loops.append(lp)
    stores = {}
    for d in fn.walk():
        if d.k in ('BinaryOperator', 'CXXOperatorCallExpr') and d.op == '=':
            ops = d.c if d.k == 'BinaryOperator' else d.c[1:]
            l = ops[0].strip_all()
            if l.k == 'CXXOperatorCallExpr' and l.op == '[]' and ex.var_of(l.c[1]) is not None and prog.vars[ex.var_of(l.c[1])]['kind'] == 'field':
                stores.setdefault(ex.var_of(l.c[1]), []).append((d, l.c[2], ops[1]))
    if not edge_loops:
        # the edges may be numbered without an explicit loop over edges(g): bulk fill + algorithm, or a loop over a copy of the edge list
        edges_called = [d for d in fn.walk() if d.k == 'CallExpr' and d.callee and d.callee['g'] == 'boost::edges']
        bulk = [d for d in fn.walk() if d.k == 'CXXMemberCallExpr' and d.callee and d.callee['name'] in ('assign', 'insert', 'push_back', 'emplace_back', 'emplace')
                and ex.var_of(d.object_arg()) is not None and prog.vars[ex.var_of(d.object_arg())]['kind'] == 'field']
        if edges_called and (stores or bulk):
            rep.undecided('R16a', edges_called[0], fn, what, 'edges(g) is read but the numbering is not the recognised single pass with two counters '
                          '(bulk fill / algorithm over a copy of the edge list)')
            return
        rep.violation('R16a', fn.body, fn, what, 'no loop over boost::edges(g): no edge is numbered', key='R16a|%s|loops' % fn.g)
        return
    # several sweeps over edges(g) are fine as long as the arms (index stores) are selected by forest membership so that every edge is
    # numbered by exactly one of them (decided below arm by arm)
    edge_loops = [lp for lp in edge_loops if not any(o is not lp and o.is_ancestor_of(lp) for o in edge_loops)]
    loop = edge_loops[0]
    # the single pass must be reached whenever the graph has an edge: an early return in front of it may only fire for m == 0
    for r in ex.returns_of(fn):
        if loop.is_ancestor_of(r) or cfg.reaches(loop.cond if loop.cond is not None else loop.body, r):
            continue
        fdx = class_field_defs(prog, fn.j.get('rec_id'))
        defs = {}
        for d in fn.walk():
            if d.k == 'VarDecl' and d.c and len(ex.assignments_to(fn, d.decl_id)) == 1:
                defs[d.decl_id] = d.c[0]
        for fid, lst in fdx.items():
            if len(lst) == 1:
                defs[fid] = lst[0][1]
        bad = None
        unknown = None
        import itertools as _it
        for m_, n_, k_ in _it.product(range(0, 5), range(0, 6), range(0, 4)):
            if k_ > n_ or (n_ > 0 and k_ == 0) or m_ - n_ + k_ < 0 or m_ > n_ * (n_ - 1) // 2:
                continue

            def bind(s_, m_=m_, n_=n_, k_=k_):
                if s_.k == 'CallExpr' and s_.callee:
                    return {'boost::num_edges': m_, 'boost::num_vertices': n_, 'parmcb::detail::spanning_forest': k_}.get(s_.callee['g'])
                return None
            try:
                holds = all(bool(ex.ceval(c, bind, defs)) == pol for (c, pol) in ex.ast_conditions(r))
            except ex.Unknown as e:
                unknown = str(e)
                break
            if holds and m_ > 0:
                bad = (m_, n_, k_)
                break
        whatr = 'the numbering pass is skipped only for a graph without edges'
        if unknown:
            rep.undecided('R16a', r, fn, whatr, 'early return under a condition that could not be evaluated: ' + unknown)
        elif bad:
            rep.violation('R16a', r, fn, whatr, 'create_index returns before numbering for a graph with m=%d, n=%d, %d component(s): its edges get no '
                          'index (index.at(e) throws, reverse_index holds null descriptors)' % bad, key='R16a|%s|early-return' % fn.g)
        else:
            rep.ok('R16a', r, fn, whatr)
    outside = [d for lst in stores.values() for (d, _k, _v) in lst if not any(lp.is_ancestor_of(d) for lp in edge_loops)]
    if outside:
        rep.violation('R16a', outside[0], fn, what, 'index tables are also written outside the single pass over edges(g) (line %d)' % outside[0].line,
                      key='R16a|%s|outside' % fn.g)
        return
    # identify the map (key = edge) and the vector (key = counter)
    maps = [f for f in stores if (prog.base_type(prog.vars[f]['ty']) or {}).get('rec') in ('std::map', 'std::unordered_map')]
    vecs = [f for f in stores if (prog.base_type(prog.vars[f]['ty']) or {}).get('rec') in ('std::vector',)]
    if len(maps) != 1 or len(vecs) != 1:
        rep.undecided('R16a', loop, fn, what, 'index tables not recognised (maps %d, vectors %d)' % (len(maps), len(vecs)))
        return
    mstores, vstores = stores[maps[0]], stores[vecs[0]]
    problems = []
    # the index -> edge table is written through operator[]: it must have been given its size (resize / assign / sized construction); reserve()
    # changes the capacity only - size() stays 0, the element writes are out of bounds and the copy operations copy nothing
    sizing = [x for x in fn.walk() if x.k == 'CXXMemberCallExpr' and x.callee and x.object_arg() is not None and ex.var_of(x.object_arg()) == vecs[0] and
              x.callee['name'] in ('resize', 'assign', 'reserve', 'clear', 'push_back', 'emplace_back', 'insert')]
    grows = [x for x in sizing if x.callee['name'] in ('resize', 'assign', 'push_back', 'emplace_back', 'insert')]
    ctor_sized = any('field' in ci and ci['field'] == vecs[0] and 'node' in ci and len(ci['node'].c) >= 1 for f_ in prog.functions
                     if f_.j.get('rec_id') == fn.j.get('rec_id') and f_.fref.get('ctor') for ci in f_.ctor_inits)
    if not grows and not ctor_sized and any(x.callee['name'] == 'reserve' for x in sizing):
        rv_ = [x for x in sizing if x.callee['name'] == 'reserve'][0]
        rep.violation('R16a', rv_, fn, what, '`%s` only reserves capacity: the table keeps size() == 0 while its slots are written through operator[] (out of bounds), and '
                      'the copy constructor / assignment of the index copy an empty table' % rv_.text(40), key='R16a|%s|reserve-only' % fn.g)
        return
    counters = {}
    for (d, keyn, valn) in mstores:
        c = ex.var_of(valn)
        e = ex.key(keyn)
        myloop = [lp for lp in edge_loops if lp.is_ancestor_of(d)][0]
        if c is None or e is None or not current_edge(fn, keyn, myloop):
            problems.append('`%s` does not store a counter for the edge being visited' % d.text(40))
            continue
        # matching vector store in the same block
        pd = cfg.pos_of(d)
        mate = [v for v in vstores if cfg.pos_of(v[0]) and cfg.pos_of(v[0])[0] == pd[0] and ex.var_of(v[1]) == c and ex.key(v[2]) == e]
        if not mate:
            problems.append('index[%s] = %s has no matching reverse_index[%s] = %s on the same path' % (keyn.text(12), prog.vars[c]['name'], prog.vars[c]['name'], keyn.text(12)))
            continue
        incs = [x for x in myloop.walk() if x.k == 'UnaryOperator' and x.op == '++' and ex.var_of(x.c[0]) == c and cfg.pos_of(x) and cfg.pos_of(x)[0] == pd[0]]
        incs += [x for x in myloop.walk() if x.k == 'CompoundAssignOperator' and x.op == '+=' and ex.var_of(x.c[0]) == c and x.c[1].strip_all().cv == 1
                 and cfg.pos_of(x) and cfg.pos_of(x)[0] == pd[0]]
        # the counter must not be touched anywhere else (another sweep re-using it would number two edges alike)
        other_writes = [a_ for (a_, _r) in ex.assignments_to(fn, c) if a_.k != 'VarDecl' and a_ not in incs]
        if other_writes:
            problems.append('counter %s is also modified at line %d' % (prog.vars[c]['name'], other_writes[0].line))
        if len(incs) != 1:
            problems.append('counter %s is incremented %d times in the arm that uses it' % (prog.vars[c]['name'], len(incs)))
        else:
            # both stores use the value before the increment
            pi = cfg.pos_of(incs[0])
            if not (cfg.pos_of(d)[1] < pi[1] and cfg.pos_of(mate[0][0])[1] < pi[1]):
                problems.append('counter %s is incremented before it is stored' % prog.vars[c]['name'])
        counters.setdefault(c, []).append(d)
    for (v, keyn, valn) in vstores:
        if not any(cfg.pos_of(v)[0] == cfg.pos_of(m[0])[0] for m in mstores):
            problems.append('reverse_index store at line %d has no matching index store' % v.line)
    refc = [c for c in counters if (prog.type(prog.vars[c].get('ty')) or {}).get('s', '').rstrip().endswith('&')]
    if refc:
        rep.undecided('R16a', counters[refc[0]][0], fn, what, 'the counter `%s` is a reference that selects the real counter at run time' % prog.vars[refc[0]]['name'])
        return
    if len(counters) != 2:
        problems.append('%d counters used (expected two: off-forest and forest)' % len(counters))
    for c, ds in counters.items():
        if len(ds) != 1:
            problems.append('counter %s is used by %d arms' % (prog.vars[c]['name'], len(ds)))
    # initial values
    fd = class_field_defs(prog, fn.j.get('rec_id'))

    def resolve(vid):
        d = ex.unique_def(fn, vid)
        if d is not None:
            return d
        lst = fd.get(vid)
        if lst and len(lst) == 1:
            return lst[0][1]
        return None
    starts = {}
    for c in counters:
        d = ex.assignments_to(fn, c)
        ini = [rhs for (dn, rhs) in d if dn.k == 'VarDecl' and rhs is not None]
        if len(ini) != 1:
            problems.append('counter %s has no unique initial value' % prog.vars[c]['name'])
            continue
        starts[c] = ex.lin(ini[0], resolve)
    want_hi = dimension_form(prog)
    zero = [c for c, L in starts.items() if L.is_const() and L.const == 0]
    high = [c for c, L in starts.items() if not L.is_const()]
    if len(zero) != 1 or len(high) != 1:
        problems.append('counters do not start at 0 and at the cycle space dimension (%s)' % {prog.vars[c]['name']: repr(L) for c, L in starts.items()})
    else:
        if not same_dimension(starts[high[0]], prog, resolve):
            problems.append('the forest counter starts at %r, not at num_edges - num_vertices + components' % starts[high[0]])
        # arm selection: the zero counter is used when e is NOT in the forest set
        lowstore = counters[zero[0]][0]

        unsorted = []

        def atomize(leaf):
            m = ex.membership(leaf)
            if m is not None and forest_set(prog, fn, ex.var_of(m[0])):
                s_ = leaf.strip_all()
                if any(x.k == 'CallExpr' and x.callee and x.callee['g'] == 'std::binary_search' for x in [s_] + list(s_.walk())) and \
                        not ex.sorted_before(fn, ex.var_of(m[0]), leaf):
                    unsorted.append(leaf)
                f = ex.f_atom('in_forest')
                return f if m[2] else ex.f_not(f)
            return None
        pc = guards_formula(cfg, lowstore, atomize)
        if unsorted:
            problems.append('forest membership is tested with std::binary_search on a sequence that is not sorted before the numbering pass')
        atoms = ex.f_atoms(pc)
        if 'in_forest' not in atoms:
            if ex.opaque_nodes(fn, pc):
                rep.undecided('R16a', loop, fn, what, 'arm guard `%s` is outside the membership idiom table' % ex.opaque_nodes(fn, pc)[0].text(40))
                return
            problems.append('the arm is not chosen by membership of the edge in the spanning forest')
        else:
            others = [a for a in atoms if a != 'in_forest']
            reach_in = reach_out = False
            for vals in itertools.product((False, True), repeat=len(others)):
                e = dict(zip(others, vals))
                if ex.f_eval(pc, dict(e, in_forest=True)):
                    reach_in = True
                if ex.f_eval(pc, dict(e, in_forest=False)):
                    reach_out = True
            if reach_in or not reach_out:
                problems.append('forest edges are numbered from 0 and off-forest edges from the dimension (arms swapped)')
            # the other arm: exactly the forest edges
            pch = guards_formula(cfg, counters[high[0]][0], atomize)
            ah = ex.f_atoms(pch)
            if 'in_forest' not in ah:
                if len(edge_loops) > 1:
                    if ex.opaque_nodes(fn, pch):
                        rep.undecided('R16a', loop, fn, what, 'arm guard `%s` is outside the membership idiom table' % ex.opaque_nodes(fn, pch)[0].text(40))
                        return
                    problems.append('the second sweep numbers every edge, not only the forest edges: off-forest edges are numbered twice')
            else:
                oh = [a for a in ah if a != 'in_forest']
                r_in = any(ex.f_eval(pch, dict(zip(oh, vals), in_forest=True)) for vals in itertools.product((False, True), repeat=len(oh)))
                r_out = any(ex.f_eval(pch, dict(zip(oh, vals), in_forest=False)) for vals in itertools.product((False, True), repeat=len(oh)))
                if r_out or not r_in:
                    problems.append('the arm that numbers from the dimension is not taken exactly for the forest edges')
    if problems:
        rep.violation('R16a', loop, fn, what, '; '.join(sorted(set(problems))), key='R16a|%s|numbering' % fn.g)
    else:
        rep.ok('R16a', loop, fn, what, 'one pass over edges(g); two arms, each index[e] = c; reverse_index[c] = e; c++')


def check_fields_set(rep, prog, fn):
    """R16h: the members that cycle_space_dimension() / weak_connected_components() read (n, m, k) are assigned on every path
    through create_index: a return in front of `k = spanning_forest(..)` leaves the default 0 and m - n + 0 wraps for every
    graph that has vertices (isolated vertices, a single vertex)"""
    what = 'every member the dimension formula reads is assigned before create_index returns'
    cfg = fn.cfg
    rid = fn.j.get('rec_id')
    readers = [f for f in prog.functions if f.j.get('rec_id') == rid and not f.implicit and f.body is not None and
               f.fref['name'] in ('cycle_space_dimension', 'weak_connected_components')]
    fields = set()
    for f in readers:
        for x in f.walk():
            if x.k == 'MemberExpr' and x.decl_id is not None and x.decl_id < len(prog.vars) and prog.vars[x.decl_id].get('kind') == 'field':
                fields.add(x.decl_id)
    if not fields:
        rep.undecided('R16h', fn.body, fn, what, 'the accessors read no member')
        return
    probs = []
    n_ret = 0
    rets = list(ex.returns_of(fn))
    for fid in sorted(fields):
        asg = [d for (d, _r) in ex.assignments_to(fn, fid)]
        if not asg:
            continue            # set elsewhere (constructor)
        targets = rets + [None]
        for r in targets:
            n_ret += 1
            if r is None:
                ok = all(any(cfg.pos_of(a) and cfg.block_dominates(cfg.pos_of(a)[0], fb) for a in asg) for fb in _falling_blocks(cfg))
            else:
                ok = any(cfg.dominates(a, r) for a in asg)
            if not ok:
                where = ('the return at line %d' % r.line) if r is not None else 'the end of the function'
                conds = [c.text(30) for (c, pol) in ex.ast_conditions(r)] if r is not None else []
                probs.append((r, 'member `%s` is still unset at %s%s' % (prog.vars[fid]['name'], where, (' (taken when `%s`)' % conds[-1]) if conds else '')))
    if probs:
        rep.violation('R16h', probs[0][0] if probs[0][0] is not None else fn.body, fn, what,
                      '; '.join(sorted(set(p_[1] for p_ in probs))) + ': the dimension m - n + k is then computed from a default value',
                      key='R16h|%s|unset' % fn.g)
    else:
        rep.ok('R16h', fn.body, fn, what, '%d member(s) x %d exit(s)' % (len(fields), len(rets) + 1))


def _falling_blocks(cfg):
    """blocks from which control reaches the exit block without a return statement"""
    out = []
    for b in cfg.blocks.values():
        if cfg.exit in [x for x in b.succ if x is not None]:
            last = [cfg.fn.nodes.get(e) for e in b.elems if e is not None and e >= 0]
            last = [n_ for n_ in last if n_ is not None]
            if not any(n_.k in ('ReturnStmt', 'CXXThrowExpr') for n_ in last):
                out.append(b.id)
    return out


def shared(rep, prog, rules=('R16a', 'R16b', 'R16c', 'R16h')):
    """the rules of the forest index that the exact algorithms rely on for "exactly m - n + c cycles" (shared into C01 / C02)"""
    sub = type(rep)(rep.prop, rep.tier)
    n = 0
    for fn in prog.fns(CLS + '::create_index'):
        check_create_index(sub, prog, fn)
        check_fields_set(sub, prog, fn)
        n += 1
    check_accessors(sub, prog)
    check_spanning_forest(sub, prog)
    for i in sub.instances.values():
        if i.rule in rules:
            rep.add(i.rule, i.site, i.function, i.what, i.status, i.detail, key=i.key)
    return n


def current_edge(fn, keyn, loop):
    """does keyn denote the edge the loop is visiting: *it of the loop iterator, the range-for variable, or a local defined from one of them"""
    from .phase import is_current_element
    s = keyn.strip_all()
    if is_current_element(fn, s, loop):
        return True
    v = ex.var_of(s)
    if v is not None:
        d = ex.unique_def(fn, v)
        if d is not None and loop.is_ancestor_of(d):
            s = d.strip_all()
    if s.k in ('UnaryOperator', 'CXXOperatorCallExpr') and s.op == '*':
        it = ex.var_of(s.c[-1])
        # iterator assigned in the loop header through boost::tie(it, end) = edges(g)
        hdr = loop.role('init') if loop.k == 'ForStmt' else None
        if it is not None and hdr is not None and any(x.k == 'DeclRefExpr' and x.decl_id == it for x in hdr.walk()):
            return True
    return False


def forest_set(prog, fn, v):
    """is v the set filled by spanning_forest(g, inserter(v))"""
    if v is None:
        return False
    for n in fn.walk():
        if n.k == 'CallExpr' and n.callee and n.callee['g'] == 'parmcb::detail::spanning_forest' and len(n.args()) == 2:
            d = n.args()[1].strip_all()
            if d.k == 'CallExpr' and d.callee and d.callee['name'] in ('inserter', 'back_inserter') and ex.var_of(d.args()[0]) == v:
                return True
    return False


def dimension_form(prog):
    return None


def same_dimension(L, prog=None, fd=None, depth=0):
    """L == num_edges(g) - num_vertices(g) + spanning_forest(...); calls of the class's own nullary accessors (`cycle_space_dimension()`
    used inside create_index) are expanded through their single return expression"""
    if prog is not None and depth < 3:
        for a, c in list(L.terms.items()):
            if a[0] == 'call' and a[1].startswith(CLS + '::') and tuple(a[2]) == ('this',):
                cands = [f for f in prog.fns(a[1]) if f.body is not None and not f.param_ids]
                # one body per class instantiation (the field ids differ): the one over the caller's fields resolves
                for hf in cands:
                    rets = ex.returns_of(hf)
                    if len(rets) != 1 or not rets[0].c:
                        continue

                    def resolve(vid, hf=hf):
                        d = ex.unique_def(hf, vid) if prog.vars[vid]['kind'] != 'field' else None
                        if d is not None:
                            return d
                        return fd(vid) if callable(fd) else None
                    sub = ex.lin(rets[0].c[0], resolve)
                    L2 = ex.Lin({k_: v_ for k_, v_ in L.terms.items() if k_ != a}, L.const).add(sub.scale(c))
                    if same_dimension(L2, prog, fd, depth + 1):
                        return True
                return False
    coeffs = {}
    for a, c in L.terms.items():
        name = a[1] if a[0] == 'call' else None
        coeffs[name] = coeffs.get(name, 0) + c
    return L.const == 0 and coeffs == {'boost::num_edges': 1, 'boost::num_vertices': -1, 'parmcb::detail::spanning_forest': 1}


def lookup_of(prog, fn, e, pid, depth=0):
    """(container node, key var) of a table read `c.at(k)` / `c[k]` / `c.find(k)->second` / a one-parameter helper of the class that
    returns such a read of its own parameter; None when `e` is not such a read"""
    s = e.strip_all() if e is not None else None
    if s is None or depth > 3:
        return None
    if s.k == 'CXXMemberCallExpr' and s.callee and s.callee['name'] == 'at' and s.args():
        return s.object_arg(), ex.var_of(s.args()[0])
    if s.k == 'CXXOperatorCallExpr' and s.op == '[]' and len(s.c) == 3:
        return s.c[1], ex.var_of(s.c[2])
    if s.k == 'MemberExpr' and s.decl and s.decl.get('name') == 'second' and s.c:
        b = s.c[0].strip_all()
        while b.k in ('CXXOperatorCallExpr', 'UnaryOperator') and b.op in ('->', '*') and b.c:
            b = b.c[-1].strip_all()
        iv = ex.var_of(b)
        d = ex.unique_def(fn, iv) if iv is not None else b
        d = d.strip_all() if d is not None else None
        if d is not None and d.k == 'CXXMemberCallExpr' and d.callee and d.callee['name'] == 'find' and d.args():
            return d.object_arg(), ex.var_of(d.args()[0])
        return None
    if s.k == 'CXXMemberCallExpr' and s.callee and s.callee.get('in_repo') and s.callee_id is not None and len(s.args()) == 1:
        hf = prog.fn_of_fref(s.callee_id)
        if hf is not None and hf.body is not None and hf.j.get('rec_id') == fn.j.get('rec_id') and len(hf.param_ids) == 1:
            got = set()
            for r in ex.returns_of(hf):
                lk = lookup_of(prog, hf, r.c[0], hf.param_ids[0], depth + 1) if r.c else None
                if lk is None:
                    return None
                got.add((ex.var_of(lk[0]), lk[1] == hf.param_ids[0]))
            if len(got) == 1:
                (cv, keyed), = got
                if keyed:
                    for r in ex.returns_of(hf):
                        return lookup_of(prog, hf, r.c[0], hf.param_ids[0], depth + 1)[0], ex.var_of(s.args()[0])
    return None


def check_accessors(rep, prog):
    n = 0
    for rec in prog.records:
        if not isinstance(rec, dict) or rec.get('g') != CLS or rec.get('fields') is None:
            continue
        rid = prog.records.index(rec)
        fd = class_field_defs(prog, rid)
        fns = [f for f in prog.functions if f.j.get('rec_id') == rid and not f.implicit]
        create = [f for f in fns if f.fref['name'] == 'create_index']

        def make_resolve(fn):
            def resolve(vid):
                d = ex.unique_def(fn, vid) if prog.vars[vid]['kind'] != 'field' else None
                if d is not None:
                    return d
                lst = fd.get(vid)
                if lst and len(lst) == 1:
                    return lst[0][1]
                return None
            return resolve
        for fn in fns:
            name = fn.fref['name']
            if name == 'cycle_space_dimension':
                n += 1
                what = 'cycle_space_dimension() is num_edges - num_vertices + number of components'
                rets = ex.returns_of(fn)
                if len(rets) != 1 or not rets[0].c:
                    rep.undecided('R16b', fn.body, fn, what, 'not a single return')
                    continue
                L = ex.lin(rets[0].c[0], make_resolve(fn))
                if same_dimension(L, prog, make_resolve(fn)):
                    rep.ok('R16b', rets[0], fn, what, 'normalises to num_edges(g) - num_vertices(g) + spanning_forest(g, .)')
                else:
                    rep.violation('R16b', rets[0], fn, what, 'normalises to %r' % L, key='R16b|%s|formula' % fn.g)
            elif name == 'weak_connected_components':
                n += 1
                what = 'weak_connected_components() is the value returned by spanning_forest'
                rets = ex.returns_of(fn)
                L = ex.lin(rets[0].c[0], make_resolve(fn)) if rets and rets[0].c else None
                if L is not None and L.const == 0 and len(L.terms) == 1 and list(L.terms.items())[0][0][:2] == ('call', 'parmcb::detail::spanning_forest') and list(L.terms.values())[0] == 1:
                    rep.ok('R16b', rets[0], fn, what)
                else:
                    rep.violation('R16b', fn.body, fn, what, 'returns %r' % L, key='R16b|%s|components' % fn.g)
            elif name == 'is_on_forest':
                n += 1
                what = 'is_on_forest(e) is index(e) >= cycle space dimension'
                rets = ex.returns_of(fn)
                if len(rets) != 1 or not rets[0].c:
                    rep.undecided('R16b', fn.body, fn, what, 'not a single return expression')
                    continue

                def dim(node):
                    s = node.strip_all()
                    if s.k == 'CXXMemberCallExpr' and s.callee and s.callee['name'] == 'cycle_space_dimension':
                        return True
                    return same_dimension(ex.lin(node, make_resolve(fn)), prog, make_resolve(fn))

                def is_index(node):
                    s = node.strip_all()
                    lk = lookup_of(prog, fn, s, fn.param_ids[0])
                    return (lk is not None and lk[1] == fn.param_ids[0]) or \
                           (s.k == 'CXXOperatorCallExpr' and s.op in ('[]', '()') and ex.var_of(s.c[-1]) == fn.param_ids[0])

                def atomize(leaf):
                    e = leaf.strip_all()
                    if e.k == 'BinaryOperator' and e.op in ('>=', '<', '>', '<=', '==', '!='):
                        l, r = e.c
                        op = e.op
                        if is_index(r) and dim(l):
                            l, r = r, l
                            op = {'<': '>', '<=': '>=', '>': '<', '>=': '<=', '==': '==', '!=': '!='}[op]
                        if is_index(l) and dim(r):
                            lt, eq, gt = ex.f_atom('lt'), ex.f_atom('eq'), ex.f_atom('gt')
                            return {'<': lt, '<=': ex.f_or(lt, eq), '>': gt, '>=': ex.f_or(gt, eq), '==': eq, '!=': ex.f_or(lt, gt)}[op]
                    return None
                f = ex.formula(rets[0].c[0], atomize)
                if f is None or [a for a in ex.f_atoms(f) if a not in ('lt', 'eq', 'gt')]:
                    rep.undecided('R16b', rets[0], fn, what, '`%s` is not a comparison of index(e) with the dimension' % rets[0].text(50))
                    continue
                table = {o: ex.f_eval(f, {'lt': o == 'lt', 'eq': o == 'eq', 'gt': o == 'gt'}) for o in ('lt', 'eq', 'gt')}
                if table == {'lt': False, 'eq': True, 'gt': True}:
                    rep.ok('R16b', rets[0], fn, what)
                elif table == {'lt': False, 'eq': False, 'gt': True}:
                    rep.violation('R16b', rets[0], fn, what, 'strict comparison: the forest edge with index exactly m-n+k is reported off-forest',
                                  key='R16b|%s|strict' % fn.g)
                else:
                    rep.violation('R16b', fn.body, fn, what, '`%s` is not index(e) >= dimension (true for index %s the dimension)' % (
                        rets[0].text(50), '/'.join({'lt': 'below', 'eq': 'equal to', 'gt': 'above'}[o] for o in ('lt', 'eq', 'gt') if table[o]) or 'never'),
                                  key='R16b|%s|on-forest' % fn.g)
            elif name == 'operator()' and len(fn.param_ids) == 1:
                n += 1
                pt = prog.base_type(prog.vars[fn.param_ids[0]]['ty']) or {}
                rets = ex.returns_of(fn)
                e = rets[0].c[0].strip_all() if rets and rets[0].c else None
                want = 'std::map' if 'edge_desc_impl' in (pt.get('canon') or '') else 'std::vector'
                what = 'operator()(%s) reads the %s table with its argument' % ('Edge' if want == 'std::map' else 'index', 'edge -> index' if want == 'std::map' else 'index -> edge')
                lk = lookup_of(prog, fn, e, fn.param_ids[0]) if len(rets) == 1 else None
                if lk is not None and (prog.base_type(lk[0].strip_all().j.get('t')) or {}).get('rec') == want and lk[1] == fn.param_ids[0]:
                    rep.ok('R16b', fn.body, fn, what)
                elif lk is not None or (e is not None and len(rets) == 1 and not ex.refs_var(e, fn.param_ids[0])):
                    rep.violation('R16b', fn.body, fn, what, 'returns `%s`' % (e.text(40) if e is not None else '?'), key='R16b|%s|lookup-%s' % (fn.g, want))
                else:
                    rep.undecided('R16b', fn.body, fn, what, 'the returned `%s` is not a recognised table read' % (e.text(40) if e is not None else '?'))
    return n


def check_spanning_forest(rep, prog):
    n = 0
    for fn in prog.fns('parmcb::detail::spanning_forest'):
        n += 1
        cfg = fn.cfg
        g = fn.param_ids[0]
        rets = ex.returns_of(fn)
        consts = [r for r in rets if r.c and r.c[0].strip_all().cv is not None]
        varrets = [r for r in rets if r.c and r.c[0].strip_all().cv is None]
        what0 = 'spanning_forest reports 0 components only for a graph without vertices'
        for r in consts:
            val = r.c[0].strip_all().cv
            conds = [(c, pol, None) for (c, pol) in ex.ast_conditions(r)]
            bad = None
            unknown = False
            for m, nn in itertools.product(range(0, 5), range(0, 5)):
                if m > nn * (nn - 1) // 2:
                    continue

                def bind(s):
                    if s.k == 'CallExpr' and s.callee and s.callee['g'] in ('boost::num_edges', 'boost::num_vertices') and ex.var_of(s.args()[0]) == g:
                        return m if s.callee['name'] == 'num_edges' else nn
                    return None
                holds = True
                try:
                    for (c, pol, _b) in conds:
                        if bool(ex.ceval(c, bind)) != pol:
                            holds = False
                except ex.Unknown:
                    unknown = True
                    break
                if holds and val != nn and not (val == 0 and nn == 0):
                    # a graph with nn vertices has at least ... components; the constant is right only if it equals the count
                    if val == 0 and nn > 0:
                        bad = (m, nn)
                        break
            if unknown:
                rep.undecided('R16c', r, fn, what0, 'early return under a condition that is not over num_vertices/num_edges')
            elif bad:
                rep.violation('R16c', r, fn, what0, 'returns 0 for a graph with %d vertices and %d edges, which has %d component(s): the cycle space '
                              'dimension m - n + 0 underflows' % (bad[1], bad[0], bad[1] if bad[0] == 0 else 1), key='R16c|%s|early-zero' % fn.g)
            else:
                rep.ok('R16c', r, fn, what0)
        whatc = 'the returned counter starts at 0 and is incremented exactly once per component (outer loop iteration)'
        for r in varrets:
            c = ex.var_of(r.c[0])
            if c is None:
                verdict = _early_forest_complete(prog, fn, r, g)
                if verdict is not None and verdict[0] == 'bad':
                    rep.violation('R16c', r, fn, 'a return from inside the component loop is taken only when every vertex has been reached', verdict[1],
                                  key='R16c|%s|early-complete' % fn.g)
                elif verdict is not None and verdict[0] == 'ok':
                    rep.ok('R16c', r, fn, 'a return from inside the component loop is taken only when every vertex has been reached', verdict[1])
                else:
                    rep.undecided('R16c', r, fn, whatc, 'does not return a counter variable')
                continue
            defs = ex.assignments_to(fn, c)
            ini = [rhs for (d, rhs) in defs if d.k == 'VarDecl']
            incs = [d for (d, rhs) in defs if d.k != 'VarDecl']
            loops = [x for x in fn.body.c if x.k in ('WhileStmt', 'ForStmt')] + [x for x in fn.body.walk() if x.k == 'WhileStmt']
            outer = None
            for lp in loops:
                if lp.cond is not None and any(d.k == 'CXXMemberCallExpr' and d.callee and d.callee['name'] == 'empty' for d in lp.cond.walk()) and \
                        lp.enclosing('WhileStmt', 'ForStmt') is None:
                    outer = lp
                    break
            probs = []
            if not ini or ini[0] is None or ini[0].strip_all().cv != 0:
                probs.append('counter does not start at 0')
            if len(incs) != 1:
                probs.append('counter is modified at %d places' % len(incs))
            elif outer is None:
                probs.append('outer component loop not recognised')
            else:
                inc = incs[0]
                if inc.enclosing('WhileStmt', 'ForStmt', 'CXXForRangeStmt') is not outer:
                    probs.append('the increment is not directly inside the per-component loop (it runs once per vertex or edge instead)')
                elif not (inc.k == 'UnaryOperator' and inc.op == '++'):
                    probs.append('the counter is not incremented by one')
                else:
                    from .phase import post_dominates_within
                    first = cfg.pos_of(outer.body)
                    pi = cfg.pos_of(inc)
                    if first and pi and not post_dominates_within(cfg, pi[0], first[0], outer):
                        probs.append('some path through the component loop skips the increment')
            if probs:
                rep.violation('R16c', r, fn, whatc, '; '.join(probs), key='R16c|%s|counter' % fn.g)
            else:
                rep.ok('R16c', r, fn, whatc)
    return n


def _early_forest_complete(prog, fn, r, g):
    """`if (++found == X) return c + 1;` next to the emission of a tree edge: `found` counts emitted tree edges, so the forest spans every
    vertex (and the current tree is the last one) exactly when found == n - 1.  X is evaluated in its C++ arithmetic over small graph
    shapes: a shape with X < n - 1 for which a forest with X edges exists (X <= m) makes the function return while vertices - at least
    isolated ones - are still unreached, so the component count is too small and m - n + c underflows."""
    conds = ex.ast_conditions(r)
    if not conds:
        return None
    cnode, pol = conds[-1]
    s_ = cnode.strip_all()
    if not (s_.k == 'BinaryOperator' and s_.op in ('==', '>=') and pol and len(s_.c) == 2):
        return None
    lhs, rhs = s_.c[0].strip_all(), s_.c[1]
    cnt = None
    if lhs.k == 'UnaryOperator' and lhs.op == '++':
        cnt = ex.var_of(lhs.c[0])
    else:
        cnt = ex.var_of(lhs)
    if cnt is None:
        return None
    # the counter counts emissions: every other write to it is an increment in a block that also stores through the output iterator
    outp = fn.param_ids[-1]
    writes = [d for (d, _r) in ex.assignments_to(fn, cnt) if d.k != 'VarDecl']
    cfg = fn.cfg
    for w_ in writes:
        if not (w_.k == 'UnaryOperator' and w_.op == '++'):
            return None
        pw = cfg.pos_of(w_)
        if not pw or not any(x.k == 'DeclRefExpr' and x.decl_id == outp and cfg.pos_of(x) and
                             (cfg.pos_of(x)[0] == pw[0] or cfg.block_dominates(cfg.pos_of(x)[0], pw[0])) and x.enclosing('ForStmt', 'WhileStmt') is w_.enclosing('ForStmt', 'WhileStmt')
                             for x in fn.walk()):
            return None
    ini = [rhs_ for (d, rhs_) in ex.assignments_to(fn, cnt) if d.k == 'VarDecl']
    if not ini or ini[0] is None or ini[0].strip_all().cv != 0:
        return None
    # value returned must be counter + 1 of the component counter: not checked further (R16c's other clause covers the fall-through return)
    defs = {}
    for d in fn.walk():
        if d.k == 'VarDecl' and d.c and len(ex.assignments_to(fn, d.decl_id)) == 1:
            defs[d.decl_id] = d.c[0]
    bad = None
    evaluated = 0
    for nn in range(1, 7):
        for m in range(0, 8):
            if m > nn * (nn - 1) // 2:
                continue

            def bind(x, m=m, nn=nn):
                if x.k == 'CallExpr' and x.callee and x.callee['g'] in ('boost::num_edges', 'boost::num_vertices') and ex.var_of(x.args()[0]) == g:
                    return m if x.callee['name'] == 'num_edges' else nn
                return None
            try:
                X = ex.ceval(rhs, bind, defs)
            except ex.Unknown:
                return None
            evaluated += 1
            if X < nn - 1 and X <= m and X >= 1 and bad is None:
                bad = (m, nn, X)
    if bad:
        return ('bad', '`%s` returns from inside the component loop after %d tree edge(s) for a graph with %d vertices and %d edges: a forest with that many edges leaves %d '
                'vertex/vertices unreached (isolated vertices, further trees), so the reported component count is too small and the cycle space dimension m - n + c '
                'underflows' % (cnode.text(40), bad[2], bad[1], bad[0], bad[1] - bad[2] - 1))
    return ('ok', 'the early return fires after n - 1 tree edges (every vertex reached) in all %d graph shapes' % evaluated)


def check_dimension_types(rep, prog):
    """R16b (types): m - n + c is computed in one unsigned type.  The three members must be declared with the same type: when n and m are
    declared with the graph's own size types (graph_traits<G>::vertices_size_type / edges_size_type - 32-bit for compact graph types) and
    the component count with std::size_t, `m - n` wraps at 2^32 before it is widened, so every graph with m < n (forests, sparse graphs with
    many components) gets dimension 2^32 + (m - n + c).  With adjacency_list all three are size_t, so nothing shows in the usual instantiation."""
    what = 'the operands of m - n + c are declared with one and the same unsigned type'
    n = 0
    for rec in prog.records:
        if not isinstance(rec, dict) or rec.get('g') != CLS or rec.get('fields') is None:
            continue
        rid = prog.records.index(rec)
        fns = [f for f in prog.functions if f.j.get('rec_id') == rid and not f.implicit and f.body is not None and f.fref['name'] == 'cycle_space_dimension']
        for f in fns:
            n += 1
            fields = []
            for x in f.walk():
                if x.k == 'MemberExpr' and x.decl_id is not None and prog.vars[x.decl_id].get('kind') == 'field' and x.decl_id not in fields:
                    fields.append(x.decl_id)
            spell = {fid: ((prog.type(prog.vars[fid].get('ty')) or {}).get('s') or '').replace('const ', '').strip() for fid in fields}
            graph_dep = [fid for fid, sp in spell.items() if sp.split('::')[-1] in ('vertices_size_type', 'edges_size_type', 'degree_size_type')]
            if len(set(spell.values())) > 1 and graph_dep:
                rep.violation('R16b', f.body, f, what, 'members %s: `%s` is declared with a size type of the graph, another operand with %s - for a graph type whose size types '
                              'are 32-bit the difference m - n wraps at 2^32 before it is widened (dimension 2^32 + true value whenever m < n)' % (
                                  ', '.join('%s: %s' % (prog.vars[fid]['name'], sp) for fid, sp in spell.items()), prog.vars[graph_dep[0]]['name'],
                                  [sp for fid, sp in spell.items() if fid not in graph_dep][0]), key='R16b|%s|mixed-types' % CLS)
            else:
                rep.ok('R16b', f.body, f, what, ', '.join(sorted(set(spell.values()))))
    return n


def check_self_references(rep, prog):
    """R16d (extension): a data member that holds iterators or pointers (a table of std::map iterators, raw pointers) into a sibling member is
    only valid for the object it was built in.  A copy operation that copies such a table member-wise - hand-written `x = other.x` or a
    defaulted / implicit copy - leaves the copy pointing into the *source* object's container: lookups through the copy read freed nodes
    once the source is gone (a ForestIndex kept in a growing std::vector is copied and its source destroyed on reallocation)."""
    what = 'no table of iterators / pointers into a sibling member is copied member-wise'
    n = 0
    for rec in prog.records:
        if not isinstance(rec, dict) or rec.get('g') != CLS or rec.get('fields') is None:
            continue
        rid = prog.records.index(rec)
        refs = []
        for fid in rec.get('fields', []):
            t = prog.base_type(prog.vars[fid].get('ty')) or {}
            canon = t.get('canon') or ''
            inner = canon[canon.find('<') + 1:] if '<' in canon else ''
            if (t.get('rec') or '').startswith('std::') and ('_Rb_tree_const_iterator' in inner or '_Rb_tree_iterator' in inner or '_Node_iterator' in inner or
                                                             '__normal_iterator' in inner or '_List_iterator' in inner or inner.split(',')[0].strip().endswith('*')):
                refs.append(fid)
        n += 1
        if not refs:
            rep.ok('R16d', None, None, what, 'no member of %s holds iterators or pointers' % CLS, key='R16d|%s|self-ref' % CLS)
            continue
        fns = [f for f in prog.functions if f.j.get('rec_id') == rid]
        copies = [f for f in fns if f.fref.get('copy_ctor') or f.fref.get('copy_assign') or f.fref.get('move_ctor') or f.fref.get('move_assign')]
        bad = None
        for f in copies:
            if f.implicit or f.fref.get('defaulted'):
                bad = (f, 'the %s copy operation copies' % ('defaulted' if not f.implicit else 'implicit'))
                break
            for d in f.walk():
                if d.k == 'MemberExpr' and d.decl_id in refs and d.c and ex.var_of(d.c[0]) in f.param_ids:
                    bad = (f, '`%s` copies' % (d.enclosing_stmt() or d).text(40))
                    break
            for ci in f.ctor_inits:
                if 'field' in ci and ci['field'] in refs and 'node' in ci and any(x.k == 'MemberExpr' and x.decl_id == ci['field'] for x in ci['node'].walk()):
                    bad = (f, 'the member initialiser copies')
            if bad:
                break
        fld = prog.vars[refs[0]]['name']
        if bad:
            rep.violation('R16d', bad[0].body, bad[0], what, '%s `%s`, a table of iterators / pointers into a sibling member of the source object: the copy refers to the source\'s '
                          'container and dangles once the source is destroyed' % (bad[1], fld), key='R16d|%s|self-ref' % CLS)
        elif copies:
            rep.ok('R16d', copies[0].body, copies[0], what, '`%s` is rebuilt, not copied' % fld)
        else:
            rep.undecided('R16d', None, None, what, 'member `%s` holds iterators / pointers and no copy operation of %s was found to judge' % (fld, CLS))
    return n


def check_forest_emission(rep, prog):
    """R16f: spanning_forest emits an edge only when its far endpoint is still unreached, and on that path removes the endpoint from
    the unreached set and queues it (so that every vertex is attached once: acyclic, and every reached vertex is explored)"""
    n = 0
    for fn in prog.fns('parmcb::detail::spanning_forest'):
        cfg = fn.cfg
        out = fn.param_ids[1] if len(fn.param_ids) > 1 else None
        g = fn.param_ids[0]
        emits = []
        for d in fn.walk():
            if d.k in ('CXXOperatorCallExpr', 'BinaryOperator') and d.op == '=':
                ops = d.c[1:] if d.k == 'CXXOperatorCallExpr' else d.c
                l = ops[0].strip_all()
                if l.k in ('CXXOperatorCallExpr', 'UnaryOperator') and l.op == '*':
                    inner = (l.c[1] if l.k == 'CXXOperatorCallExpr' else l.c[0]).strip_all()
                    while inner.k in ('CXXOperatorCallExpr', 'UnaryOperator') and inner.op in ('++', '--'):
                        inner = (inner.c[1] if inner.k == 'CXXOperatorCallExpr' else inner.c[0]).strip_all()
                    if ex.var_of(inner) == out:
                        emits.append((d, ops[1]))
        what = 'a forest edge is emitted only towards a still-unreached vertex, which is then marked reached and queued'
        for (d, val) in emits:
            n += 1
            evar = ex.var_of(val)
            sets = {}
            erased_by_test = []

            def atomize(leaf):
                m = ex.membership(leaf)
                if m is not None:
                    sv = ex.var_of(m[0])
                    if sv is not None and (prog.base_type(prog.vars[sv]['ty']) or {}).get('rec') in ('std::set', 'std::unordered_set'):
                        sets[sv] = m[1]
                        if any(x.k == 'CXXMemberCallExpr' and x.callee and x.callee['name'] == 'erase' for x in leaf.walk()):
                            erased_by_test.append(leaf)     # the test is erase(key) != 0: it removes the endpoint exactly when it answers true
                        f = ex.f_atom('unreached')
                        return f if m[2] else ex.f_not(f)
                # iterator form: wit = unreached.find(w); wit == unreached.end()
                s_ = leaf.strip_all()
                if s_.k == 'CXXOperatorCallExpr' and s_.op in ('==', '!=') and len(s_.c) == 3:
                    for x, y in ((s_.c[1], s_.c[2]), (s_.c[2], s_.c[1])):
                        xv = ex.var_of(x)
                        yy = y.strip_all()
                        if xv is not None and yy.k == 'CXXMemberCallExpr' and yy.callee and yy.callee['name'] in ('end', 'cend'):
                            dd = ex.unique_def(fn, xv)
                            if dd is not None:
                                q = dd.strip_all()
                                if q.k == 'CXXMemberCallExpr' and q.callee and q.callee['name'] == 'find' and ex.key(q.object_arg()) == ex.key(yy.object_arg()):
                                    sets[ex.var_of(q.object_arg())] = q.args()[0]
                                    f = ex.f_atom('unreached')
                                    return ex.f_not(f) if s_.op == '==' else f
                return None
            pc = guards_formula(cfg, d, atomize)
            atoms = ex.f_atoms(pc)
            if 'unreached' not in atoms:
                if ex.opaque_nodes(fn, pc) and any(o.enclosing('ForStmt', 'WhileStmt') is not None and any(
                        x.k == 'CXXMemberCallExpr' and x.callee and x.callee['name'] in ('find', 'count') for x in o.walk()) for o in ex.opaque_nodes(fn, pc)):
                    rep.undecided('R16f', d, fn, what, 'membership guard outside the idiom table')
                else:
                    rep.violation('R16f', d, fn, what,
                                  '`%s` is not conditioned on the far endpoint being unreached: the edge may close a cycle or be emitted twice, '
                                  'and the component count no longer matches the emitted forest' % d.text(50), key='R16f|%s|unguarded-emission' % fn.g)
                continue
            rest = [a for a in atoms if a != 'unreached']
            import itertools as _it
            reach_without = any(ex.f_eval(pc, dict(dict(zip(rest, vals)), unreached=False)) for vals in _it.product((False, True), repeat=len(rest)))
            if reach_without:
                rep.violation('R16f', d, fn, what, 'the emission is also reached when the endpoint was already reached', key='R16f|%s|guard-polarity' % fn.g)
                continue
            # any further condition that keeps a still-unreached neighbour from being attached (other than the self-loop test and the loop
            # headers) may lose a tree edge: the forest would not span its component.  Whether it can hold for an unreached vertex is value-level.
            extra = []
            for o_ in ex.opaque_nodes(fn, pc):
                lp_ = o_.enclosing('ForStmt', 'WhileStmt', 'CXXForRangeStmt', 'DoStmt')
                if lp_ is not None and lp_.cond is not None and (lp_.cond.strip() is o_ or lp_.cond.is_ancestor_of(o_)):
                    continue
                s_ = o_.strip_all()
                if s_.k in ('BinaryOperator', 'CXXOperatorCallExpr') and s_.op in ('==', '!='):
                    ops_ = s_.c if s_.k == 'BinaryOperator' else s_.c[1:]
                    if len(ops_) == 2 and all(ex.var_of(x) is not None for x in ops_) and any(ex.key(x) == ex.key(kn) for x in ops_ for kn in sets.values()):
                        continue        # w == u: the self-loop test between two plain vertex variables
                inner_ = d.enclosing('ForStmt', 'WhileStmt', 'CXXForRangeStmt', 'DoStmt')
                if inner_ is None or inner_.body is None or not inner_.body.is_ancestor_of(o_):
                    continue            # a condition outside the neighbour loop (early return for the empty graph, component loop)
                extra.append(o_)
            if extra:
                rep.undecided('R16f', d, fn, what, 'the emission additionally depends on `%s`: if that can hold for a still-unreached neighbour a tree edge is lost' % extra[0].text(50))
                continue
            # erase + push on the same path
            pd = cfg.pos_of(d)
            erased = bool(erased_by_test)
            pushed = False
            inner_loop = d.enclosing('ForStmt', 'WhileStmt', 'CXXForRangeStmt', 'DoStmt')
            for x in fn.walk():
                px = cfg.pos_of(x)
                if px is None or pd is None:
                    continue
                # on every path through the emission within the same iteration: before it (dominates) or after it (post-dominates)
                same_iter = inner_loop is not None and inner_loop.is_ancestor_of(x)
                on_path = px[0] == pd[0] or (same_iter and (cfg.block_dominates(px[0], pd[0]) or
                                                            (cfg.block_dominates(pd[0], px[0]) and cfg.block_postdominates(px[0], pd[0]))))
                if not on_path:
                    continue
                if x.k == 'CXXMemberCallExpr' and x.callee and x.callee['name'] == 'erase' and ex.var_of(x.object_arg()) in sets:
                    erased = True
                if x.k == 'CXXMemberCallExpr' and x.callee and x.callee['name'] in ('push', 'push_back', 'emplace', 'emplace_back', 'push_front') and x.args() and \
                        ex.var_of(x.object_arg()) not in sets and any(ex.key(x.args()[-1]) == ex.key(kn) for kn in sets.values()):
                    pushed = True       # the endpoint goes into the work list (queue, stack or vector with a read cursor)
            cond_push = [x for x in fn.walk() if x.k == 'CXXMemberCallExpr' and x.callee and x.callee['name'] in ('push', 'push_back', 'emplace', 'emplace_back', 'push_front')
                         and x.args() and ex.var_of(x.object_arg()) not in sets and any(ex.key(x.args()[-1]) == ex.key(kn) for kn in sets.values())
                         and inner_loop is not None and inner_loop.is_ancestor_of(x) and cfg.reaches(d, x)]
            if erased and pushed:
                rep.ok('R16f', d, fn, what, 'guarded by membership in the unreached set; erase + push in the same block')
            elif erased and cond_push:
                rep.undecided('R16f', d, fn, what, 'the endpoint is queued (line %d) on some paths after the emission only: whether the skipped case needs the endpoint explored is not decided' % cond_push[0].line)
            else:
                rep.violation('R16f', d, fn, what, 'on the emitting path the endpoint is %s' % ('not removed from the unreached set' if not erased else 'not queued for exploration'),
                              key='R16f|%s|bookkeeping' % fn.g)
    return n


def check_table_lifecycle(rep, prog):
    """R16g: every container member of ForestIndex is filled on the construction path, or - if it is filled lazily by another member function - every
    member function that reads it calls that function first (typestate: no read of a table that may not have been built yet)"""
    allm = [f for f in prog.functions if f.fref.get('rec') == CLS and not f.implicit and f.body is not None]
    total = 0
    for rid in sorted(set(f.j.get('rec_id') for f in allm if f.j.get('rec_id') is not None)):
        total += _table_lifecycle_one(rep, prog, [f for f in allm if f.j.get('rec_id') == rid])
    return total


def _table_lifecycle_one(rep, prog, members):
    if not members:
        return 0
    byid = {f.fref_id: f for f in members}
    rec = prog.records[members[0].j['rec_id']] if members[0].j.get('rec_id') is not None else None
    if rec is None:
        return 0
    n = 0
    ctors = [f for f in members if f.fref.get('ctor') and not (f.fref.get('copy_ctor') or f.fref.get('move_ctor'))]
    for fld in rec.get('fields', []):
        ft = prog.base_type(prog.vars[fld]['ty']) or {}
        if (ft.get('rec') or '') not in ('std::map', 'std::vector', 'std::unordered_map'):
            continue

        def writes(f):
            for d in f.walk():
                if d.k == 'CXXMemberCallExpr' and d.callee and d.callee['name'] in ('emplace', 'emplace_hint', 'insert', 'push_back', 'emplace_back', 'resize', 'assign') and \
                        ex.var_of(d.object_arg()) == fld:
                    return True
                if d.k in ('BinaryOperator', 'CXXOperatorCallExpr') and d.op == '=':
                    ops = d.c if d.k == 'BinaryOperator' else d.c[1:]
                    l = ops[0].strip_all() if ops else None
                    if l is not None and l.k == 'CXXOperatorCallExpr' and l.op == '[]' and len(l.c) == 3 and ex.var_of(l.c[1]) == fld:
                        return True
            return False
        writers = [f for f in members if writes(f) and not (f.fref.get('copy_ctor') or f.fref.get('move_ctor') or f.fref.get('copy_assign') or f.fref.get('move_assign'))]
        if not writers:
            continue
        wids = {f.fref_id for f in writers}

        def calls_writer(f, depth=0):
            cs = ex.callees_of(f)
            if cs & wids:
                return True
            return depth < 3 and any(calls_writer(byid[c], depth + 1) for c in cs if c in byid and c != f.fref_id)
        eager = bool(ctors) and all(f.fref_id in wids or calls_writer(f) for f in ctors)
        n += 1
        what = 'the table `%s` is built before any member function reads it' % prog.vars[fld]['name']
        if eager:
            rep.ok('R16g', ctors[0].body, ctors[0], what, 'filled on every construction path')
            continue
        bad = []
        for f in members:
            if f.fref_id in wids or f.fref.get('ctor') or f.fref.get('copy_assign') or f.fref.get('move_assign'):
                continue
            reads = [d for d in f.walk() if (d.k == 'CXXMemberCallExpr' and d.callee and d.callee['name'] in ('at', 'find', 'count', 'begin', 'end', 'size') and
                                              ex.var_of(d.object_arg()) == fld) or
                     (d.k == 'CXXOperatorCallExpr' and d.op == '[]' and len(d.c) == 3 and ex.var_of(d.c[1]) == fld)]
            if not reads:
                continue
            wcalls = [d for d in f.walk() if d.k in ex.CALL_KINDS and d.j.get('callee') in wids]
            for r_ in reads:
                if any(c.is_ancestor_of(r_) for c in [x.enclosing('IfStmt') for x in wcalls] if c is not None):
                    continue      # the emptiness test that triggers the build
                if not any(f.cfg.reaches(c, r_) and not f.cfg.reaches(r_, c) for c in wcalls):
                    bad.append((f, r_))
        if bad:
            f, r_ = bad[0]
            rep.violation('R16g', r_, f, what, '`%s` is filled lazily by %s, but %s reads it (`%s`) without building it first: on a fresh object the look-up fails '
                          '(map::at throws) or answers from an empty table' % (prog.vars[fld]['name'], ', '.join(sorted(w.g.split('::')[-1] for w in writers)), f.g.split('::')[-1], r_.text(30)),
                          key='R16g|%s|%s' % (prog.vars[fld]['name'], f.g))
        else:
            rep.ok('R16g', writers[0].body, writers[0], what, 'lazily built; every reader builds it first')
    return n


def run_on(rep, prog):
    n = 0
    for fn in prog.fns(CLS + '::create_index'):
        check_create_index(rep, prog, fn)
        check_fields_set(rep, prog, fn)
        n += 1
    check_accessors(rep, prog)
    check_spanning_forest(rep, prog)
    check_forest_emission(rep, prog)
    c17.check_copy_ops(rep, prog, CLS, 'R16d')
    check_self_references(rep, prog)
    check_dimension_types(rep, prog)
    c04.check_forest_order(rep, prog)
    check_table_lifecycle(rep, prog)
    from . import c07
    c07.r07g(rep, prog, only_files=('forestindex', 'spanning_forest'))
    c07.r07h(rep, prog, only_files=('forestindex', 'spanning_forest'))
    c07.r07j(rep, prog, only_files=('forestindex', 'spanning_forest'))
    c07.r07r(rep, prog, only_files=('forestindex', 'spanning_forest'))
    return n


def run(rep, tier):
    rep.rule('R16a', 'inverse-pair numbering in a single pass over edges(g)', floor=1)
    rep.rule('R16b', 'dimension formula and accessors', floor=5)
    rep.rule('R16c', 'spanning_forest component counter', floor=2)
    rep.rule('R16d', 'copy operations copy every member', floor=2)
    rep.rule('R16f', 'spanning_forest emission sites are guarded and paired with the unreached/queue bookkeeping', floor=1)
    rep.rule('R16e', 'index order is address-free', floor=1)
    rep.rule('R16g', 'index tables are built before they are read', floor=2)
    rep.rule('R16h', 'n, m and the component count are assigned on every path through create_index', floor=1)
    rep.rule('R07r', 'the forest construction keeps no reference into a work list across a push (any graph size, any heap state)', floor=0)
    rep.rule('R07j', 'the forest is built without recursion along the graph (any graph size)', floor=0)
    rep.rule('R07h', 'sizes used while building the index do not wrap for the empty graph (ForestIndex of the empty graph: c = 0, dimension 0)', floor=0)
    rep.rule('R07g', 'the index construction keeps no function-local static state (each ForestIndex is built from its own graph only)', floor=0)
    tus = [env.witness_tu()]
    if tier == 'thorough':
        tus += [t for t in env.repo_tus() if 'forest' in os.path.basename(t) or 'mcb' in os.path.basename(t)]
    progs = env.extract(tus, 'full')
    rep.saw_programs(progs.values())
    n = 0
    for prog in progs.values():
        n += run_on(rep, prog)
    if n == 0:
        rep.analysis_broken('ForestIndex::create_index not instantiated (anchor vanished)')
    pos = os.path.join(env.WITNESS, 'positive', 'c16_forest.cc')
    try:
        pp = env.extract([pos], 'full', ('first:-I' + os.path.join(env.WITNESS, 'positive', 'broken_include2'),))[pos]
        prep = type(rep)(rep.prop, rep.tier)
        run_on(prep, pp)
        for r in ('R16a', 'R16b', 'R16c', 'R16d', 'R16e', 'R16f', 'R07g'):
            rep.positive(r, 'witness/positive/c16_forest.cc', any(i.status == 'violation' and i.rule == r for i in prep.instances.values()))
    except env.AnalysisBroken as e:
        rep.analysis_broken('positive example c16_forest.cc does not parse: ' + str(e)[:300])
    rep.assume('std::map / std::vector semantics; that the edges written by spanning_forest form a spanning forest is not decided')
    rep.note('NOT claimed: acyclicity / spanning-ness of the BFS forest, correctness of the component count beyond the counter structure')
