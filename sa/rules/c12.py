"""Rules about the lexicographic shortest-path machinery that are decidable structurally (property C12 itself - exact
distances and cross-tree consistency - is value-level and NOT claimed; these rules are reported under C02/C14).

R12a  a comparator over records is lexicographic: for each key field, with all earlier fields equal, `a.f < b.f` and
      `a.f > b.f` lead to opposite constant answers, and no rung compares two different fields
R12b  compute_first_in_path writes a first-in-path label for every tree node it visits, the root included
"""
import itertools

from lib import env, ex
from .c10 import guards_formula


def field_cmp(fn, leaf):
    """(field id, op normalised to a-vs-b) if leaf compares the same-named field of the two parameters"""
    if len(fn.param_ids) != 2:
        return None
    a, b = fn.param_ids
    s = leaf.strip_all()
    if s.k not in ('BinaryOperator',) or s.op not in ('<', '>', '<=', '>=', '==', '!='):
        return None
    l, r = s.c[0].strip_all(), s.c[1].strip_all()
    if l.k != 'MemberExpr' or r.k != 'MemberExpr' or not l.c or not r.c:
        return None
    lv, rv = ex.var_of(l.c[0]), ex.var_of(r.c[0])
    if {lv, rv} != {a, b}:
        return None
    op = s.op
    if lv == b:
        op = {'<': '>', '>': '<', '<=': '>=', '>=': '<=', '==': '==', '!=': '!='}[op]
    return (l.decl_id, r.decl_id, op)


def check_comparators(rep, prog):
    n = 0
    for fn in prog.functions:
        if fn.implicit or not (fn.file.startswith(env.REPO + '/include') or fn.file.startswith(env.WITNESS + '/positive')) or fn.body is None:
            continue
        if len(fn.param_ids) != 2 or not (prog.type(fn.j['ret']) or {}).get('bool'):
            continue
        t0 = prog.base_type(prog.vars[fn.param_ids[0]]['ty']) or {}
        t1 = prog.base_type(prog.vars[fn.param_ids[1]]['ty']) or {}
        if t0.get('repo_rec') is None or t0.get('canon') != t1.get('canon'):
            continue
        fields = []
        mixed = []
        for d in fn.walk():
            fc = field_cmp(fn, d) if d.k == 'BinaryOperator' else None
            if fc:
                if fc[0] != fc[1]:
                    mixed.append(d)
                elif fc[0] not in fields:
                    fields.append(fc[0])
        if not fields and not mixed:
            continue
        n += 1
        what = 'comparator %s is lexicographic over its key fields' % fn.g.split('::')[-2]
        if mixed:
            rep.violation('R12a', mixed[0], fn, what, '`%s` compares two different fields' % mixed[0].text(50), key='R12a|%s|mixed' % fn.g)
            continue
        cfg = fn.cfg

        def atomize(leaf):
            fc = field_cmp(fn, leaf)
            if fc and fc[0] == fc[1]:
                lt, eq, gt = ex.f_atom(('lt', fc[0])), ex.f_atom(('eq', fc[0])), ex.f_atom(('gt', fc[0]))
                return {'<': lt, '>': gt, '<=': ex.f_or(lt, eq), '>=': ex.f_or(gt, eq), '==': eq, '!=': ex.f_or(lt, gt)}[fc[2]]
            return None
        # value of the function as a formula: OR over returns of (path condition & returned value)
        outs = []
        undec = False
        for r in ex.returns_of(fn):
            if not r.c:
                continue
            pc = guards_formula(cfg, r, atomize)
            v = r.c[0].strip_all()
            if v.cv is not None:
                val = ex.TRUE if v.cv else ex.FALSE
            else:
                val = ex.formula(r.c[0], lambda leaf: atomize(leaf) or ex.f_atom(('opaque', leaf.i)))
                if val is None:
                    undec = True
                    continue
            outs.append((pc, val))
        if undec:
            rep.undecided('R12a', fn.body, fn, what, 'a return value is not a constant or a comparison')
            continue
        problems = []
        for i, f in enumerate(fields):
            results = {}
            for which in ('lt', 'gt'):
                vals = set()
                later = fields[i + 1:]
                for combo in itertools.product(('lt', 'eq', 'gt'), repeat=min(len(later), 3)):
                    for opaque_v in (False, True):
                        envv = {}
                        for e in fields[:i]:
                            envv.update({('lt', e): False, ('eq', e): True, ('gt', e): False})
                        envv.update({('lt', f): which == 'lt', ('eq', f): False, ('gt', f): which == 'gt'})
                        for e, c in zip(later, combo):
                            envv.update({('lt', e): c == 'lt', ('eq', e): c == 'eq', ('gt', e): c == 'gt'})
                        for e in later[3:]:
                            envv.update({('lt', e): False, ('eq', e): True, ('gt', e): False})
                        res = None
                        for (pc, val) in outs:
                            atoms = set(ex.f_atoms(pc) + ex.f_atoms(val))
                            e2 = dict(envv)
                            for a in atoms:
                                if a not in e2:
                                    e2[a] = opaque_v
                            if ex.f_eval(pc, e2):
                                res = ex.f_eval(val, e2)
                                break
                        vals.add(res)
                results[which] = vals
            fname = prog.vars[f]['name']
            if len(results['lt']) != 1 or len(results['gt']) != 1:
                problems.append('with all earlier keys equal, the answer for a.%s %s b.%s still depends on later keys' % (
                    fname, '<' if len(results['lt']) != 1 else '>', fname))
            elif results['lt'] == results['gt']:
                problems.append('a.%s < b.%s and a.%s > b.%s give the same answer (%s): paths that differ in %s compare as equivalent' % (
                    fname, fname, fname, fname, list(results['lt'])[0], fname))
        if problems:
            rep.violation('R12a', fn.body, fn, what, '; '.join(problems), key='R12a|%s|ladder' % fn.g)
        else:
            rep.ok('R12a', fn.body, fn, what, 'keys in order: %s' % ', '.join(prog.vars[f]['name'] for f in fields))
    return n


def check_first_in_path(rep, prog):
    """R12b: in SPTree::compute_first_in_path every node taken from the work stack gets `_first_in_path[index] = ...`
    on every path through the iteration, or the root entry is written before the loop"""
    n = 0
    for fn in prog.fns('parmcb::SPTree::compute_first_in_path'):
        n += 1
        what = 'every visited tree node, the root included, gets a first-in-path label'
        cfg = fn.cfg
        stores = []
        for d in fn.walk():
            if d.k in ('BinaryOperator', 'CXXOperatorCallExpr') and d.op == '=':
                ops = d.c if d.k == 'BinaryOperator' else d.c[1:]
                l = ops[0].strip_all()
                if l.k == 'CXXOperatorCallExpr' and l.op == '[]' and ex.var_of(l.c[1]) is not None and \
                        prog.vars[ex.var_of(l.c[1])]['kind'] == 'field' and 'first' in prog.vars[ex.var_of(l.c[1])]['name']:
                    stores.append(d)
                if l.k == 'CXXMemberCallExpr' and l.callee and l.callee['name'] == 'at' and ex.var_of(l.object_arg()) is not None and \
                        'first' in prog.vars[ex.var_of(l.object_arg())]['name']:
                    stores.append(d)
        loops = [x for x in fn.body.walk() if x.k in ('WhileStmt', 'ForStmt', 'DoStmt')]
        if not stores or not loops:
            rep.undecided('R12b', fn.body, fn, what, 'no store into the first-in-path vector / no traversal loop')
            continue
        loop = loops[0]
        inloop = [s for s in stores if loop.is_ancestor_of(s)]
        before = [s for s in stores if not loop.is_ancestor_of(s) and cfg.dominates(s, loop.cond if loop.cond is not None else loop.body)]
        # every path through the loop body performs a store?
        from .phase import post_dominates_within
        first = cfg.pos_of(loop.body)
        covered = False
        body_blocks_with_store = set(cfg.pos_of(s)[0] for s in inloop if cfg.pos_of(s))
        if first is not None and body_blocks_with_store:
            covered = every_path_hits(cfg, first[0], body_blocks_with_store, loop)
        # is the root itself put on the work stack before the loop?
        seed_root = False
        for d in fn.body.walk():
            if d.k == 'CXXMemberCallExpr' and d.callee and d.callee['name'] in ('push', 'emplace') and not loop.is_ancestor_of(d):
                for a in d.args():
                    for x in a.walk():
                        if x.k == 'MemberExpr' and x.decl and x.decl.get('kind') == 'field' and 'root' in x.decl.get('name', ''):
                            up = x.up()
                            # `_root` passed as such, not `_root->children()` / `_root->vertex()`
                            if not (up is not None and up.k in ('MemberExpr', 'CXXOperatorCallExpr') and up.c and
                                    (up.c[0].strip_all() is x or (len(up.c) > 1 and up.c[1].strip_all() is x)) and up.k == 'MemberExpr'):
                                if not (up is not None and up.k == 'CXXOperatorCallExpr' and up.op == '->'):
                                    seed_root = True
        if covered and (seed_root or before):
            rep.ok('R12b', loop, fn, what, 'the root is on the initial work stack and every iteration stores a label for the node it pops')
        elif covered:
            rep.violation('R12b', loop, fn, what,
                          'the traversal is seeded without the root and nothing labels the root before the loop: its entry keeps the default '
                          'vertex 0, so candidates through the root are wrongly discarded when the other endpoint hangs below vertex 0',
                          key='R12b|%s|root-unlabelled' % fn.g)
        elif before:
            # root written before the loop, children inside: the loop must label every child it pushes
            rep.ok('R12b', loop, fn, what, 'root labelled before the traversal, descendants inside it')
        else:
            rep.violation('R12b', loop, fn, what,
                          'some path through the traversal loop stores no label for the popped node and the root is not labelled before the loop: '
                          'its entry keeps the default vertex 0, and candidates through the root are compared against vertex 0',
                          key='R12b|%s|unlabelled' % fn.g)
    return n


def every_path_hits(cfg, entry, targets, loop):
    fn = cfg.fn
    body_blocks = set()
    for d in loop.body.walk():
        p = cfg.positions().get(d.i)
        if p:
            body_blocks.add(p[0])
    seen = set()
    work = [entry]
    while work:
        x = work.pop()
        if x in seen or x in targets:
            continue
        seen.add(x)
        for s in cfg.blocks[x].succ:
            if s is None:
                continue
            if s not in body_blocks:
                return False
            work.append(s)
    return True
