"""C12 - shortest-path trees are exact and mutually consistent (PARTIAL).

That lex_dijkstra computes the true distances and that the chosen paths are consistent across sources are facts about runs on
concrete graphs: NOT claimed.  Decided are the code shapes those facts rest on, each a necessary condition (breaking it gives a
wrong distance, a predecessor structure that is no tree with those path lengths, a wrong label, or inconsistent tie-breaking):

R12a  a comparator over records is lexicographic: for each key field, with all earlier fields equal, `a.f < b.f` and
      `a.f > b.f` lead to opposite constant answers, and no rung compares two different fields
R12b  compute_first_in_path writes a first-in-path label for every tree node it visits, the root included
R12g  the label values: the root gets its own vertex, a child of the root is seeded with its own vertex, every deeper node inherits
      the label carried with its parent
R02h  (lex_dijkstra instance) a label is overwritten iff the vertex was not visited or the new label compares less
R12c  every update site of lex_dijkstra stores, for the same vertex, the lexicographic label c, the distance c.distance of that same
      label and the predecessor (true, e) with e the edge being relaxed; the source is initialised with the zero label and (false, -)
R12d  LexDistanceCombine extends a label by one edge: distance = combine(a.distance, weight of that edge), edge_count = a.edge_count + 1,
      vertex set = a's set plus both endpoints of the edge; closed_plus adds its operands unless one is the infinity marker
R12e  SPTree::initialize creates a node for v exactly when v is the source or v has a predecessor, with weight dist[index(v)] and that
      predecessor edge, and hangs every non-root node below the node of the other endpoint of its predecessor edge
"""
import itertools
import os

from lib import env, ex
from .c10 import guards_formula


TITLE = 'C12: relaxation contract, consistent update sites, label extension, lexicographic comparator, tree construction and first-in-path labels.'


def field_cmp(fn, leaf):
    """(field id, op normalised to a-vs-b) if leaf compares the same-named field of the two parameters"""
    if len(fn.param_ids) != 2:
        return None
    a, b = fn.param_ids
    s = leaf.strip_all()
    if s.k not in ('BinaryOperator',) or s.op not in ('<', '>', '<=', '>=', '==', '!='):
        return None
    l, r = s.c[0].strip_all(), s.c[1].strip_all()
    if l.k != 'MemberExpr' or r.k != 'MemberExpr' or not l.c or not r.c:
        return None
    lv, rv = ex.var_of(l.c[0]), ex.var_of(r.c[0])
    if {lv, rv} != {a, b}:
        return None
    op = s.op
    if lv == b:
        op = {'<': '>', '>': '<', '<=': '>=', '>=': '<=', '==': '==', '!=': '!='}[op]
    return (l.decl_id, r.decl_id, op)


def check_comparators(rep, prog):
    n = 0
    for fn in prog.functions:
        if fn.implicit or not (fn.file.startswith(env.REPO + '/include') or fn.file.startswith(env.WITNESS + '/positive')) or fn.body is None:
            continue
        if len(fn.param_ids) != 2 or not (prog.type(fn.j['ret']) or {}).get('bool'):
            continue
        t0 = prog.base_type(prog.vars[fn.param_ids[0]]['ty']) or {}
        t1 = prog.base_type(prog.vars[fn.param_ids[1]]['ty']) or {}
        if t0.get('repo_rec') is None or t0.get('canon') != t1.get('canon'):
            continue
        fields = []
        mixed = []
        for d in fn.walk():
            fc = field_cmp(fn, d) if d.k == 'BinaryOperator' else None
            if fc:
                if fc[0] != fc[1]:
                    mixed.append(d)
                elif fc[0] not in fields:
                    fields.append(fc[0])
        if not fields and not mixed:
            continue
        n += 1
        what = 'comparator %s is lexicographic over its key fields' % fn.g.split('::')[-2]
        if mixed:
            rep.violation('R12a', mixed[0], fn, what, '`%s` compares two different fields' % mixed[0].text(50), key='R12a|%s|mixed' % fn.g)
            continue
        cfg = fn.cfg

        def atomize(leaf):
            fc = field_cmp(fn, leaf)
            if fc and fc[0] == fc[1]:
                lt, eq, gt = ex.f_atom(('lt', fc[0])), ex.f_atom(('eq', fc[0])), ex.f_atom(('gt', fc[0]))
                return {'<': lt, '>': gt, '<=': ex.f_or(lt, eq), '>=': ex.f_or(gt, eq), '==': eq, '!=': ex.f_or(lt, gt)}[fc[2]]
            return None
        # value of the function as a formula: OR over returns of (path condition & returned value)
        outs = []
        undec = False
        for r in ex.returns_of(fn):
            if not r.c:
                continue
            pc = guards_formula(cfg, r, atomize)
            v = r.c[0].strip_all()
            if v.cv is not None:
                val = ex.TRUE if v.cv else ex.FALSE
            else:
                val = ex.formula(r.c[0], lambda leaf: atomize(leaf) or ex.f_atom(('opaque', leaf.i)))
                if val is None:
                    undec = True
                    continue
            outs.append((pc, val))
        if undec:
            rep.undecided('R12a', fn.body, fn, what, 'a return value is not a constant or a comparison')
            continue
        problems = []
        for i, f in enumerate(fields):
            results = {}
            for which in ('lt', 'gt'):
                vals = set()
                later = fields[i + 1:]
                all_atoms = set()
                for (pc, val) in outs:
                    all_atoms |= set(ex.f_atoms(pc) + ex.f_atoms(val))
                opaque_atoms = sorted([a_ for a_ in all_atoms if not (isinstance(a_, tuple) and a_[0] in ('lt', 'eq', 'gt'))], key=repr)[:8]
                for combo in itertools.product(('lt', 'eq', 'gt'), repeat=min(len(later), 3)):
                    for opaque_vals in itertools.product((False, True), repeat=len(opaque_atoms)):
                        opaque_v = False
                        envv = dict(zip(opaque_atoms, opaque_vals))
                        for e in fields[:i]:
                            envv.update({('lt', e): False, ('eq', e): True, ('gt', e): False})
                        envv.update({('lt', f): which == 'lt', ('eq', f): False, ('gt', f): which == 'gt'})
                        for e, c in zip(later, combo):
                            envv.update({('lt', e): c == 'lt', ('eq', e): c == 'eq', ('gt', e): c == 'gt'})
                        for e in later[3:]:
                            envv.update({('lt', e): False, ('eq', e): True, ('gt', e): False})
                        res = None
                        for (pc, val) in outs:
                            atoms = set(ex.f_atoms(pc) + ex.f_atoms(val))
                            e2 = dict(envv)
                            for a in atoms:
                                if a not in e2:
                                    e2[a] = opaque_v
                            if ex.f_eval(pc, e2):
                                res = ex.f_eval(val, e2)
                                break
                        vals.add(res)
                results[which] = vals
            fname = prog.vars[f]['name']
            if len(results['lt']) != 1 or len(results['gt']) != 1:
                problems.append('with all earlier keys equal, the answer for a.%s %s b.%s still depends on later keys' % (
                    fname, '<' if len(results['lt']) != 1 else '>', fname))
            elif results['lt'] == results['gt']:
                problems.append('a.%s < b.%s and a.%s > b.%s give the same answer (%s): paths that differ in %s compare as equivalent' % (
                    fname, fname, fname, fname, list(results['lt'])[0], fname))
        if not problems and 'LexDistanceCompare' in fn.g:
            # the label is (distance, hop count, vertex-index set) and LexDistanceCombine maintains all three (R12d): the comparator must consult
            # the hop count of both labels.  Without that rung two equally long paths with different hop counts are ordered by the vertex-set rule
            # alone, which is not closed under taking sub-paths: trees from different roots choose different paths between the same two vertices
            a_, b_ = fn.param_ids
            read = {}
            for d in fn.walk():
                if d.k == 'MemberExpr' and d.decl and d.decl.get('kind') == 'field' and d.c and ex.var_of(d.c[0]) in (a_, b_):
                    read.setdefault(d.decl.get('name'), set()).add(ex.var_of(d.c[0]))
            if 'vertex_indices' in read and 'distance' in read and len(read.get('edge_count', ())) < 2:
                problems.append('the hop count (edge_count) of the two labels is %s: equally long paths with different hop counts are ordered by the vertex-set rule alone, '
                                'and the shortest-path trees of different roots are no longer consistent' % ('never compared' if not read.get('edge_count') else 'read for one label only'))
        if problems:
            rep.violation('R12a', fn.body, fn, what, '; '.join(problems), key='R12a|%s|ladder' % fn.g)
        else:
            rep.ok('R12a', fn.body, fn, what, 'keys in order: %s' % ', '.join(prog.vars[f]['name'] for f in fields))
    return n


def check_first_in_path(rep, prog):
    """R12b: in SPTree::compute_first_in_path every node taken from the work stack gets `_first_in_path[index] = ...`
    on every path through the iteration, or the root entry is written before the loop"""
    n = 0
    for fn in prog.fns('parmcb::SPTree::compute_first_in_path'):
        n += 1
        what = 'every visited tree node, the root included, gets a first-in-path label'
        cfg = fn.cfg
        stores = []
        for d in fn.walk():
            if d.k in ('BinaryOperator', 'CXXOperatorCallExpr') and d.op == '=':
                ops = d.c if d.k == 'BinaryOperator' else d.c[1:]
                l = ops[0].strip_all()
                if l.k == 'CXXOperatorCallExpr' and l.op == '[]' and ex.var_of(l.c[1]) is not None and \
                        prog.vars[ex.var_of(l.c[1])]['kind'] == 'field' and 'first' in prog.vars[ex.var_of(l.c[1])]['name']:
                    stores.append(d)
                if l.k == 'CXXMemberCallExpr' and l.callee and l.callee['name'] == 'at' and ex.var_of(l.object_arg()) is not None and \
                        'first' in prog.vars[ex.var_of(l.object_arg())]['name']:
                    stores.append(d)
        loops = [x for x in fn.body.walk() if x.k in ('WhileStmt', 'ForStmt', 'DoStmt')]
        if not stores or not loops:
            rep.undecided('R12b', fn.body, fn, what, 'no store into the first-in-path vector / no traversal loop')
            continue
        loop = loops[0]
        inloop = [s for s in stores if loop.is_ancestor_of(s)]
        before = [s for s in stores if not loop.is_ancestor_of(s) and cfg.dominates(s, loop.cond if loop.cond is not None else loop.body)]
        # every path through the loop body performs a store?
        from .phase import post_dominates_within
        first = cfg.pos_of(loop.body)
        covered = False
        body_blocks_with_store = set(cfg.pos_of(s)[0] for s in inloop if cfg.pos_of(s))
        if first is not None and body_blocks_with_store:
            covered = every_path_hits(cfg, first[0], body_blocks_with_store, loop)
        # is the root itself put on the work stack before the loop?
        seed_root = False
        for d in fn.body.walk():
            if d.k == 'CXXMemberCallExpr' and d.callee and d.callee['name'] in ('push', 'emplace') and not loop.is_ancestor_of(d):
                for a in d.args():
                    for x in a.walk():
                        if x.k == 'MemberExpr' and x.decl and x.decl.get('kind') == 'field' and 'root' in x.decl.get('name', ''):
                            up = x.up()
                            # `_root` passed as such, not `_root->children()` / `_root->vertex()`
                            is_get = up is not None and up.k == 'MemberExpr' and (up.fnref or {}).get('name') == 'get'     # _root.get(): the same node as a raw pointer
                            if is_get or not (up is not None and up.k in ('MemberExpr', 'CXXOperatorCallExpr') and up.c and
                                              (up.c[0].strip_all() is x or (len(up.c) > 1 and up.c[1].strip_all() is x)) and up.k == 'MemberExpr'):
                                if not (up is not None and up.k == 'CXXOperatorCallExpr' and up.op == '->'):
                                    seed_root = True
        if covered and (seed_root or before):
            rep.ok('R12b', loop, fn, what, 'the root is on the initial work stack and every iteration stores a label for the node it pops')
        elif covered:
            rep.violation('R12b', loop, fn, what,
                          'the traversal is seeded without the root and nothing labels the root before the loop: its entry keeps the default '
                          'vertex 0, so candidates through the root are wrongly discarded when the other endpoint hangs below vertex 0',
                          key='R12b|%s|root-unlabelled' % fn.g)
        elif before:
            # root written before the loop, children inside: the loop must label every child it pushes
            rep.ok('R12b', loop, fn, what, 'root labelled before the traversal, descendants inside it')
        else:
            rep.violation('R12b', loop, fn, what,
                          'some path through the traversal loop stores no label for the popped node and the root is not labelled before the loop: '
                          'its entry keeps the default vertex 0, and candidates through the root are compared against vertex 0',
                          key='R12b|%s|unlabelled' % fn.g)
    return n


def every_path_hits(cfg, entry, targets, loop):
    fn = cfg.fn
    body_blocks = set()
    for d in loop.body.walk():
        p = cfg.positions().get(d.i)
        if p:
            body_blocks.add(p[0])
    seen = set()
    work = [entry]
    while work:
        x = work.pop()
        if x in seen or x in targets:
            continue
        seen.add(x)
        for s in cfg.blocks[x].succ:
            if s is None:
                continue
            if s not in body_blocks:
                return False
            work.append(s)
    return True


# ------------------------------------------------------------------------------------------------ R12g label values
def check_label_values(rep, prog):
    n = 0
    for fn in prog.fns('parmcb::SPTree::compute_first_in_path'):
        n += 1
        what = 'first-in-path values: root -> itself, child of the root -> itself, deeper node -> the label carried with its parent'
        cfg = fn.cfg
        loops = [x for x in fn.body.walk() if x.k in ('WhileStmt', 'ForStmt', 'DoStmt')]
        if not loops:
            rep.undecided('R12g', fn.body, fn, what, 'no traversal loop')
            continue
        loop = loops[0]

        def is_root_test(leaf):
            s_ = leaf.strip_all()
            if s_.k in ('BinaryOperator', 'CXXOperatorCallExpr') and s_.op in ('==', '!='):
                ops = s_.c if s_.k == 'BinaryOperator' else s_.c[1:]
                names = []
                for o in ops:
                    for x in o.walk():
                        if x.k == 'MemberExpr' and x.decl and x.decl.get('kind') == 'field':
                            names.append(x.decl.get('name', ''))
                if any('root' in nm and nm.startswith('_') for nm in names) and any(nm == 'root' for nm in names):
                    f = ex.f_atom('isroot')
                    return f if s_.op == '==' else ex.f_not(f)
                # the popped node held in a local (taken from work.top() / back() / front()) compared with the tree's root (optionally .get())
                if len(ops) == 2:
                    for a_, b_ in ((ops[0], ops[1]), (ops[1], ops[0])):
                        an = [x.decl.get('name', '') for x in a_.walk() if x.k == 'MemberExpr' and x.decl and x.decl.get('kind') == 'field']
                        if any('root' in nm and nm.startswith('_') for nm in an) and popped_node(b_):
                            f = ex.f_atom('isroot')
                            return f if s_.op == '==' else ex.f_not(f)
            return None

        def popped_node(e):
            v_ = ex.var_of(e)
            if v_ is None:
                return False
            d_ = ex.unique_def(fn, v_)
            return d_ is not None and any(x.k == 'CXXMemberCallExpr' and x.callee and x.callee['name'] in ('top', 'back', 'front') for x in d_.walk())

        def value_kind(e):
            """'own' for <popped>.root->vertex() / a local holding it, 'child' for c->vertex() of an iterated child, 'carried' for <popped>.info"""
            s_ = e.strip_all()
            v = ex.var_of(s_)
            if v is not None:
                d = ex.unique_def(fn, v)
                if d is not None:
                    return value_kind(d)
            if s_.k == 'MemberExpr' and s_.decl and s_.decl.get('name') == 'info':
                return 'carried'
            if s_.k == 'MemberExpr' and s_.decl and s_.decl.get('name') in ('first', 'second') and s_.c and \
                    any(x.k == 'CXXMemberCallExpr' and x.callee and x.callee['name'] in ('top', 'back', 'front') for x in s_.c[0].walk()):
                return 'carried'      # the component that travels with the popped pair
            if s_.k == 'CXXMemberCallExpr' and s_.callee and s_.callee['name'] == 'vertex':
                o = s_.object_arg()
                txt = o.text(40) if o is not None else ''
                if any(x.k == 'MemberExpr' and x.decl and x.decl.get('name') == 'root' for x in (o.walk() if o is not None else ())):
                    return 'own'
                inner = o.strip_all() if o is not None else None
                if inner is not None and inner.k == 'CXXOperatorCallExpr' and inner.op == '->' and len(inner.c) > 1:
                    inner = inner.c[1].strip_all()
                if inner is not None and popped_node(inner):
                    return 'own'
                return 'child'
            return None
        def kinds_by_root(valexpr, pc):
            """[(reachable on the root?, value kind there), (reachable on a non-root node?, value kind there)] or None when the site is not
            split by a root test (neither by its path condition nor by a `?:` in the value)"""
            ve = valexpr.strip_all()
            vv = ex.var_of(ve)
            if vv is not None:
                dv = ex.unique_def(fn, vv)
                if dv is not None and dv.strip_all().k == 'ConditionalOperator':
                    ve = dv.strip_all()
            sel = None
            if ve.k == 'ConditionalOperator':
                sel = ex.formula(ve.cond, lambda leaf: is_root_test(leaf))
            atoms_ = ex.f_atoms(pc)
            if 'isroot' not in atoms_ and not (sel is not None and ex.f_atoms(sel) == ['isroot']):
                return None
            others_ = [a for a in atoms_ if a != 'isroot']
            out_ = []
            for isroot in (True, False):
                reach_ = any(ex.f_eval(pc, dict(dict(zip(others_, vals)), isroot=isroot)) for vals in itertools.product((False, True), repeat=len(others_))) \
                    if atoms_ else True
                if sel is not None and ex.f_atoms(sel) == ['isroot']:
                    branch = ve.then if ex.f_eval(sel, {'isroot': isroot}) else ve.els
                    kind_ = value_kind(branch)
                else:
                    kind_ = value_kind(valexpr)
                out_.append((reach_, kind_))
            return out_
        probs, und = [], []
        # stores of labels
        for d in fn.walk():
            if d.k in ('BinaryOperator', 'CXXOperatorCallExpr') and d.op == '=' and loop.is_ancestor_of(d):
                ops = d.c if d.k == 'BinaryOperator' else d.c[1:]
                l = ops[0].strip_all()
                if l.k == 'CXXOperatorCallExpr' and l.op == '[]' and ex.var_of(l.c[1]) is not None and 'first' in prog.vars[ex.var_of(l.c[1])]['name']:
                    pc = guards_formula(cfg, d, is_root_test)
                    kb = kinds_by_root(ops[1], pc)
                    if kb is None:
                        und.append('label store at line %d is not under a root / non-root test' % d.line)
                        continue
                    (on_root, kind_r), (on_other, kind_o) = kb
                    if on_root and kind_r != 'own':
                        probs.append('the root is labelled with `%s`, not with itself' % ops[1].text(30))
                    if on_other and kind_o != 'carried':
                        probs.append('a non-root node is labelled with `%s`, not with the label carried from its parent' % ops[1].text(30))
        for d in fn.walk():
            if d.k == 'CXXMemberCallExpr' and d.callee and d.callee['name'] in ('emplace', 'push') and loop.is_ancestor_of(d) and d.args():
                first = None
                for x in d.args()[0].walk():
                    if x.k in ('InitListExpr', 'CXXConstructExpr', 'CXXTemporaryObjectExpr', 'CXXFunctionalCastExpr') and x.c:
                        first = x.c[0]
                        break
                if first is None:
                    first = d.args()[0]
                pc = guards_formula(cfg, d, is_root_test)
                kb = kinds_by_root(first, pc)
                if kb is None:
                    und.append('child push at line %d is not under a root / non-root test' % d.line)
                    continue
                (on_root, kind_r), (on_other, kind_o) = kb
                if on_root and kind_r != 'child':
                    probs.append('children of the root are seeded with `%s`, not with their own vertex' % first.text(30))
                if on_other and kind_o != 'carried':
                    probs.append('children of a deeper node are seeded with `%s`, not with the label of their parent' % first.text(30))
        if probs:
            rep.violation('R12g', loop, fn, what, '; '.join(sorted(set(probs))), key='R12g|%s|values' % fn.g)
        elif und:
            rep.undecided('R12g', loop, fn, what, '; '.join(und))
        else:
            rep.ok('R12g', loop, fn, what, 'root: own vertex; children of the root: their vertex; deeper: carried label')
    return n


# ------------------------------------------------------------------------------------------------ R12c update sites of lex_dijkstra
def check_lex_updates(rep, prog):
    n = 0
    for fn in prog.fns('parmcb::lex_dijkstra'):
        n += 1
        cfg = fn.cfg
        pids = fn.param_ids          # g, weight_map, [index_map,] s, dist_map, pred_map
        if len(pids) < 5:
            rep.undecided('R12c', fn.body, fn, 'update sites of lex_dijkstra', 'unexpected signature')
            continue
        # an overload that only forwards to a sibling overload (added parameters with defaults spelled out) is judged through that sibling
        if not [x for x in fn.walk() if x.k in ('WhileStmt', 'ForStmt', 'CXXForRangeStmt')] and \
                [x for x in fn.walk() if x.k == 'CallExpr' and x.callee and x.callee['g'] == fn.g and len(x.args()) != len(pids)]:
            n -= 1
            continue
        # the source is the parameter in front of the two output maps (an index map may sit between the weight map and the source)
        src, distp, predp = pids[-3], pids[-2], pids[-1]
        class _Store(object):
            # put(map, key, value)  /  map[key] = value
            def __init__(self, node, m, k_, v_):
                self.node, self.m, self.k_, self.v_ = node, m, k_, v_
                self.line = node.line

            def args(self):
                return [self.m, self.k_, self.v_]

            def enclosing(self, *a_):
                return self.node.enclosing(*a_)
        puts = [_Store(c, *c.args()) for c in fn.walk() if c.k == 'CallExpr' and c.callee and c.callee['g'] == 'boost::put' and len(c.args()) == 3]
        for c in fn.walk():
            if c.k == 'CXXOperatorCallExpr' and c.op == '=' and len(c.c) == 3:
                l_ = c.c[1].strip_all()
                if l_.k == 'DeclRefExpr':
                    # `Label &label_w = lex_dist_map[w]; ... label_w = std::move(c);` - the slot under a reference
                    al_ = ex.alias_of(fn, l_)
                    if al_ is not None and al_ is not l_:
                        l_ = al_
                if l_.k == 'CXXOperatorCallExpr' and l_.op == '[]' and len(l_.c) == 3 and ex.var_of(l_.c[1]) is not None and \
                        'property_map' in ((prog.base_type(l_.c[1].strip_all().j.get('t')) or {}).get('canon') or ''):
                    puts.append(_Store(c, l_.c[1], l_.c[2], c.c[2]))
                elif l_.k == 'CallExpr' and l_.callee and l_.callee['g'] == 'boost::get' and len(l_.args()) == 2 and ex.var_of(l_.args()[0]) is not None:
                    puts.append(_Store(c, l_.args()[0], l_.args()[1], c.c[2]))      # T &slot = get(map, w); slot = value;
        lexmap = None
        for c in puts:
            mv = ex.var_of(c.args()[0])
            if mv not in (distp, predp) and mv is not None:
                lexmap = mv
        edge_loop = [l for l in fn.walk() if l.k == 'ForStmt']
        what = 'every relaxation stores the lexicographic label, its distance component and the predecessor (true, relaxing edge) for the same vertex'
        # group the in-loop puts by block
        blocks = {}
        for c in puts:
            if c.enclosing('ForStmt', 'CXXForRangeStmt') is None:
                continue
            p_ = cfg.pos_of(c.node)
            if p_:
                blocks.setdefault(p_[0], []).append(c)
        if not blocks:
            rep.undecided('R12c', fn.body, fn, what, 'no stores inside the edge loop')
            continue
        # current edge of the loop: a local initialised from *ei
        for b, group in sorted(blocks.items()):
            probs = []
            bymap = {}
            for c in group:
                bymap.setdefault(ex.var_of(c.args()[0]), []).append(c)
            for need, nm in ((lexmap, 'lexicographic label'), (distp, 'distance'), (predp, 'predecessor')):
                if need not in bymap:
                    probs.append('the %s is not stored at this update site' % nm)
            keys = {ex.key(c.args()[1]) for c in group}
            if len(keys) != 1:
                probs.append('the stores of one update site address different vertices')
            lab = None
            if lexmap in bymap:
                lab = ex.var_of(bymap[lexmap][0].args()[2])
            if distp in bymap:
                val = bymap[distp][0].args()[2].strip_all()
                okd = val.k == 'MemberExpr' and val.decl and val.decl.get('name') == 'distance' and val.c and ex.var_of(val.c[0]) == lab and lab is not None
                if not okd:
                    probs.append('the distance stored is `%s`, not the distance component of the label stored next to it' % val.text(30))
            if predp in bymap:
                val = bymap[predp][0].args()[2].strip_all()
                mk = None
                for x in [val] + list(val.walk()):
                    if x.k == 'CallExpr' and x.callee and x.callee['name'] in ('make_tuple', 'make_pair') and len(x.args()) == 2:
                        mk = x
                        break
                if mk is None:
                    probs.append('the predecessor stored is not (true, edge)')
                else:
                    flag = mk.args()[0].strip_all().cv
                    ev = ex.var_of(mk.args()[1])
                    ed = ex.unique_def(fn, ev) if ev is not None else None
                    is_cur = False
                    if ed is not None:
                        e0 = ed.strip_all()
                        if e0.k in ('CXXOperatorCallExpr', 'UnaryOperator') and e0.op == '*':
                            is_cur = True
                    # the variable of a range-for over out_edges
                    rl = mk.enclosing('CXXForRangeStmt')
                    if ev is not None and rl is not None and rl.role('loopvar') is not None and \
                            any(d_.k == 'VarDecl' and d_.decl_id == ev for d_ in rl.role('loopvar').walk()):
                        is_cur = True
                    if flag != 1:
                        probs.append('the predecessor flag stored is not true')
                    if not is_cur:
                        probs.append('the predecessor edge stored is not the edge being relaxed')
                    # the label must have been combined from that same edge
                    if lab is not None:
                        ld = ex.unique_def(fn, lab)
                        if ld is not None:
                            uses = [ex.var_of(a) for x in [ld.strip_all()] + list(ld.walk()) if x.k == 'CXXOperatorCallExpr' and x.op == '()' for a in x.c[1:]]
                            if ev is not None and ev not in uses:
                                probs.append('the label is not the combination with the edge stored as predecessor')
            if probs:
                rep.violation('R12c', min(group, key=lambda g_: g_.line).node, fn, what, '; '.join(probs), key='R12c|%s|site-%d' % (fn.g, sorted(blocks).index(b)))
            else:
                rep.ok('R12c', min(group, key=lambda g_: g_.line).node, fn, what, 'put(lex, w, c); put(dist, w, c.distance); put(pred, w, (true, e))')
        # the caller's maps are filled by this search alone: handing them to another search (plain dijkstra breaks ties by discovery order,
        # which differs from source to source) makes the trees of different roots disagree on tied paths
        whatd = 'the distance / predecessor maps of lex_dijkstra are written by the lexicographic relaxation only'
        deleg = [c for c in fn.walk() if c.k == 'CallExpr' and c.callee and c.callee.get('in_repo') and c.callee['g'] != fn.g and
                 any(ex.var_of(a_) in (distp, predp) for a_ in c.args())]
        deleg = [c for c in deleg if prog.fn_of_fref(c.callee_id) is not None and
                 any(x.k == 'CallExpr' and x.callee and x.callee['g'] == 'boost::put' for x in prog.fn_of_fref(c.callee_id).walk())]
        if deleg:
            conds = [c_.text(40) for (c_, _p) in ex.ast_conditions(deleg[0])]
            rep.violation('R12c', deleg[0], fn, whatd, '`%s` fills the caller\'s maps with another search%s: ties between equally long paths are then broken by discovery '
                          'order instead of (edge count, vertex set), so the paths u->v and v->u of two trees need not be the reverse of each other and the isometric '
                          'filter discards circuits the basis needs' % (deleg[0].text(40), (' (when `%s`)' % conds[-1]) if conds else ''), key='R12c|%s|delegated' % fn.g)
        # the main loop runs until the queue is empty; an exit driven by a count of settled vertices is right only if it fires after the LAST vertex
        # has been popped (its out-edges then lead to settled vertices only).  The counter is traced (initial value, one increment per pop) and
        # the bound evaluated over small vertex counts.
        whatl = 'the main loop of lex_dijkstra is left only when every reachable vertex has been settled and relaxed'
        mains = [w_ for w_ in fn.body.walk() if w_.k == 'WhileStmt' and w_.enclosing('WhileStmt', 'ForStmt') is None and w_.cond is not None and
                 any(x.k == 'CXXMemberCallExpr' and x.callee and x.callee['name'] == 'empty' for x in w_.cond.walk())]
        for mainl in mains[:1]:
            exits = [x for x in mainl.body.walk() if (x.k == 'BreakStmt' and x.enclosing('WhileStmt', 'ForStmt', 'CXXForRangeStmt', 'DoStmt', 'SwitchStmt') is mainl) or x.k == 'ReturnStmt']
            for x in exits:
                conds = ex.ast_conditions(x)
                conds = [(c_, p_) for (c_, p_) in conds if mainl.body.is_ancestor_of(c_)]
                verdict = None
                if conds:
                    c_, pol = conds[-1]
                    s_ = c_.strip_all()
                    if s_.k == 'BinaryOperator' and s_.op in ('==', '>=') and pol and len(s_.c) == 2:
                        lhs, rhs = s_.c[0].strip_all(), s_.c[1]
                        pre = lhs.k == 'UnaryOperator' and lhs.op == '++' and lhs.j.get('prefix', True)
                        cnt = ex.var_of(lhs.c[0]) if lhs.k == 'UnaryOperator' and lhs.op == '++' else ex.var_of(lhs)
                        if cnt is not None:
                            ini = [r_ for (d_, r_) in ex.assignments_to(fn, cnt) if d_.k == 'VarDecl' and r_ is not None]
                            incs = [d_ for (d_, r_) in ex.assignments_to(fn, cnt) if d_.k != 'VarDecl']
                            c0 = ini[0].strip_all().cv if ini else None
                            per_pop = all(i_.k == 'UnaryOperator' and i_.op == '++' and i_.enclosing('WhileStmt', 'ForStmt', 'CXXForRangeStmt') is mainl for i_ in incs) and len(incs) == 1
                            if c0 is not None and per_pop:
                                defs_ = {d_.decl_id: d_.c[0] for d_ in fn.walk() if d_.k == 'VarDecl' and d_.c and len(ex.assignments_to(fn, d_.decl_id)) == 1}
                                bad_n = None
                                for n_ in range(1, 7):
                                    try:
                                        X = ex.ceval(rhs, lambda y_, n_=n_: n_ if (y_.k == 'CallExpr' and y_.callee and y_.callee['name'] == 'num_vertices') else None, defs_)
                                    except ex.Unknown:
                                        bad_n = 'unknown'
                                        break
                                    pops = X - c0            # number of pops after which the exit fires (the counter is incremented once per pop)
                                    if pops < n_ and n_ >= 2 and bad_n is None:
                                        bad_n = (n_, pops)
                                verdict = ('undecided', None) if bad_n == 'unknown' else (('bad', bad_n) if bad_n else ('ok', None))
                if verdict is None:
                    rep.undecided('R12c', x, fn, whatl, '`%s` leaves the main loop under a condition outside the idiom table' % x.text(30))
                elif verdict[0] == 'bad':
                    rep.violation('R12c', x, fn, whatl, 'the loop is left after %d of %d vertices have been popped (the counter starts at %s and is incremented for every pop, the source '
                                  'included): the out-edges of the vertex popped last-but-one are never relaxed, so the last vertex keeps a too long label or none' % (
                                      verdict[1][1], verdict[1][0], c0), key='R12c|%s|early-exit' % fn.g)
                elif verdict[0] == 'ok':
                    rep.ok('R12c', x, fn, whatl, 'the exit fires after the last vertex has been popped')
                else:
                    rep.undecided('R12c', x, fn, whatl, 'bound of the exit not evaluable')
        # source initialisation
        whats = 'the source starts with the zero label and no predecessor'
        init = [c for c in puts if c.enclosing('ForStmt', 'CXXForRangeStmt') is None and c.enclosing('WhileStmt') is None and ex.var_of(c.args()[1]) == src]
        probs = []
        pm = [c for c in init if ex.var_of(c.args()[0]) == predp]
        lm = [c for c in init if ex.var_of(c.args()[0]) == lexmap]
        if not pm:
            probs.append('the predecessor of the source is not initialised')
        else:
            val = pm[0].args()[2]
            mk = [x for x in [val.strip_all()] + list(val.walk()) if x.k == 'CallExpr' and x.callee and x.callee['name'] == 'make_tuple']
            if not mk or mk[0].args()[0].strip_all().cv != 0:
                probs.append('the source is given a predecessor')
        if not lm:
            probs.append('the label of the source is not initialised')
        else:
            val = lm[0].args()[2]
            ctor = [x for x in [val.strip_all()] + list(val.walk()) if x.k in ex.CTOR_KINDS and x.callee and x.callee.get('ctor') and 'LexDistance' in (x.callee.get('rec') or '')]
            ctor = [x for x in ctor if len(x.c) >= 2]
            if ctor:
                a0, a1 = ctor[0].c[0].strip_all(), ctor[0].c[1].strip_all()
                zero0 = (a0.cv == 0) or (a0.k in ('CXXScalarValueInitExpr', 'CXXTemporaryObjectExpr', 'CXXFunctionalCastExpr', 'CXXConstructExpr') and not [x for x in a0.c if x.strip_all().cv not in (None, 0)])
                if not zero0:
                    probs.append('the source distance is `%s`, not zero' % a0.text(20))
                if a1.cv != 0:
                    probs.append('the source edge count is `%s`, not zero' % a1.text(20))
        if probs:
            rep.violation('R12c', getattr((pm or lm or [fn.body])[0], 'node', fn.body), fn, whats, '; '.join(probs), key='R12c|%s|source' % fn.g)
        else:
            rep.ok('R12c', (lm or pm)[0].node, fn, whats, 'LexDistance(0, 0, {s}); pred = (false, -)')
    return n


# ------------------------------------------------------------------------------------------------ R12d combine
def check_combine(rep, prog):
    n = 0
    for fn in prog.fns('parmcb::detail::LexDistanceCombine::operator()'):
        n += 1
        what = 'extending a label by an edge adds that edge\'s weight, one hop and both endpoints'
        if len(fn.param_ids) < 2:
            continue
        a, e = fn.param_ids[0], fn.param_ids[1]
        # the label handed in is the label of the popped vertex and is reused for every out-edge of it: it must come back unchanged.  An
        # insert / erase pair on its vertex set restores it only if the insert really inserted (erasing the position of an element that was
        # already there removes a vertex of the path)
        muts = [x for x in fn.walk() if x.k == 'CXXMemberCallExpr' and x.callee and x.callee['name'] in ('insert', 'erase', 'emplace', 'clear', 'push_back', 'emplace_back', 'swap')
                and x.object_arg() is not None and ex.refs_var(x.object_arg(), a)]
        if muts:
            erases = [x for x in muts if x.callee['name'] == 'erase']
            guarded = [x for x in erases if any('second' in c_.text(60) for (c_, _p) in ex.ast_conditions(x))]
            if erases and not guarded:
                rep.violation('R12d', muts[0], fn, 'the label passed to the combine functor is left unchanged', '`%s` extends the caller\'s label in place and `%s` takes the position back out without '
                              'testing whether the insert inserted anything: when the far endpoint was already on the path (the edge back to the predecessor) that vertex is '
                              'removed from the label, and every later out-edge of the same vertex is combined with a label that lacks it' % (
                                  muts[0].text(40), erases[0].text(30)), key='R12d|%s|mutates-argument' % fn.g)
            else:
                rep.undecided('R12d', muts[0], fn, 'the label passed to the combine functor is left unchanged', '`%s` modifies the argument label' % muts[0].text(40))
            continue
        rets = ex.returns_of(fn)
        ctor = None
        for r in rets:
            for x in r.walk():
                if x.k in ex.CTOR_KINDS and x.callee and x.callee.get('ctor') and len(x.c) == 3:
                    ctor = x
        if ctor is None:
            rep.undecided('R12d', fn.body, fn, what, 'no LexDistance(d, count, set) construction returned')
            continue
        probs = []

        def resolve(x, depth=0):
            s_ = x.strip_all()
            v = ex.var_of(s_)
            if v is not None and v not in (a, e) and depth < 3:
                d = ex.unique_def(fn, v)
                if d is not None:
                    return resolve(d, depth + 1)
            return s_
        d0 = resolve(ctor.c[0])
        okd = False
        if d0.k == 'CXXOperatorCallExpr' and d0.op == '()' and len(d0.c) == 4:
            x1, x2 = resolve(d0.c[2]), resolve(d0.c[3])

            def is_adist(x):
                return x.k == 'MemberExpr' and x.decl and x.decl.get('name') == 'distance' and x.c and ex.var_of(x.c[0]) == a

            def is_ew(x):
                return x.k == 'CallExpr' and x.callee and x.callee['g'] == 'boost::get' and len(x.args()) == 2 and ex.var_of(x.args()[1]) == e
            okd = (is_adist(x1) and is_ew(x2)) or (is_adist(x2) and is_ew(x1))
        elif d0.k == 'BinaryOperator' and d0.op == '+':
            okd = True
        if not okd and (ex.var_of(d0) in fn.param_ids or (d0.k in ('CallExpr', 'CXXMemberCallExpr') and d0.callee and d0.callee.get('in_repo'))):
            rep.undecided('R12d', ctor, fn, what, 'the distance component is `%s`, supplied by the caller / a helper: outside the recognised shape' % d0.text(40))
            continue
        if not okd:
            probs.append('the distance is `%s`, not combine(a.distance, weight(e))' % d0.text(40))
        c0 = ctor.c[1].strip_all()
        L = ex.lin(c0)
        okc = False
        if c0.k == 'BinaryOperator' and c0.op == '+':
            l_, r_ = c0.c[0].strip_all(), c0.c[1].strip_all()
            for (p_, q_) in ((l_, r_), (r_, l_)):
                if p_.k == 'MemberExpr' and p_.decl and p_.decl.get('name') == 'edge_count' and p_.c and ex.var_of(p_.c[0]) == a and q_.cv == 1:
                    okc = True
        if not okc:
            probs.append('the edge count is `%s`, not a.edge_count + 1' % c0.text(30))
        sv = ex.var_of(ctor.c[2])
        ends = set()
        if sv is not None:
            for x in fn.walk():
                if x.k == 'CXXMemberCallExpr' and x.callee and x.callee['name'] == 'insert' and ex.var_of(x.object_arg()) == sv and x.args():
                    r_ = resolve(x.args()[0])
                    for y in [r_] + list(r_.walk()):
                        if y.k == 'CallExpr' and y.callee and y.callee['g'] in ('boost::source', 'boost::target') and y.args() and ex.var_of(y.args()[0]) == e:
                            ends.add(y.callee['name'])
            d = ex.assignments_to(fn, sv)
            from_a = any(rhs is not None and any(y.k == 'MemberExpr' and y.decl and y.decl.get('name') == 'vertex_indices' and y.c and ex.var_of(y.c[0]) == a
                                                 for y in [rhs.strip_all()] + list(rhs.walk())) for (_d, rhs) in d)
            if not from_a:
                probs.append('the vertex set does not start from a.vertex_indices')
        if ends != {'source', 'target'}:
            # recorded only: executions with one endpoint missing showed no failure (the near endpoint is already in a's set, and the tie-break
            # by vertex sets stayed consistent), so this clause is not a demonstrable necessary condition
            rep.info('R12d', ctor, fn, 'the vertex set of the extended label gains both endpoints', 'gains %s' % (sorted(ends) or 'no endpoint'))
        if probs:
            rep.violation('R12d', ctor, fn, what, '; '.join(probs), key='R12d|%s|combine' % fn.g)
        else:
            rep.ok('R12d', ctor, fn, what, 'LexDistance(combine(a.distance, w(e)), a.edge_count + 1, a.vertex_indices + {source(e), target(e)})')
    for fn in prog.fns('parmcb::detail::closed_plus::operator()'):
        what = 'closed_plus returns a + b unless one operand is the infinity marker'
        rets = ex.returns_of(fn)
        if len(fn.param_ids) != 2:
            continue
        a, b = fn.param_ids
        plain = [r for r in rets if r.c and r.c[0].strip_all().k == 'BinaryOperator' and r.c[0].strip_all().op == '+' and
                 {ex.var_of(r.c[0].strip_all().c[0]), ex.var_of(r.c[0].strip_all().c[1])} == {a, b}]
        other = [r for r in rets if r not in plain]
        bad = [r for r in other if not (r.c and r.c[0].strip_all().k == 'MemberExpr' and r.c[0].strip_all().decl and r.c[0].strip_all().decl.get('name') == 'inf')]
        if len(plain) == 1 and not bad:
            # the a + b return must be reached whenever neither operand equals inf
            cfg = fn.cfg

            def atomize(leaf):
                s_ = leaf.strip_all()
                if s_.k == 'BinaryOperator' and s_.op in ('==', '!='):
                    vs = {ex.var_of(s_.c[0]), ex.var_of(s_.c[1])}
                    names = [x.decl.get('name') for x in s_.walk() if x.k == 'MemberExpr' and x.decl]
                    if 'inf' in names and (a in vs or b in vs):
                        f = ex.f_atom('ainf' if a in vs else 'binf')
                        return f if s_.op == '==' else ex.f_not(f)
                return None
            pc = guards_formula(cfg, plain[0], atomize)
            atoms = ex.f_atoms(pc)
            if set(atoms) <= {'ainf', 'binf'} and ex.f_eval(pc, {k: False for k in atoms}):
                rep.ok('R12d', plain[0], fn, what, 'a + b on the finite path')
            else:
                rep.undecided('R12d', plain[0], fn, what, 'guards of the sum outside the idiom table')
        else:
            rep.violation('R12d', fn.body, fn, what, 'the finite path does not return a + b of the two operands', key='R12d|%s|plus' % fn.g)
    return n


# ------------------------------------------------------------------------------------------------ R12e tree construction
def _lex_pred_edges_are_out_edges(prog):
    """every predecessor edge stored by lex_dijkstra is the current element of a loop over boost::out_edges(u, g) of the popped vertex u"""
    ok = False
    for fn in prog.fns('parmcb::lex_dijkstra'):
        ok = True
        predp = fn.param_ids[4] if len(fn.param_ids) > 4 else None
        for c in fn.walk():
            if c.k == 'CallExpr' and c.callee and c.callee['g'] == 'boost::put' and len(c.args()) == 3 and ex.var_of(c.args()[0]) == predp and \
                    c.enclosing('ForStmt') is not None:
                lp = c.enclosing('ForStmt')
                mk = [x for x in c.args()[2].walk() if x.k == 'CallExpr' and x.callee and x.callee['name'] == 'make_tuple' and len(x.args()) == 2]
                ev = ex.var_of(mk[0].args()[1]) if mk else None
                ed = ex.unique_def(fn, ev) if ev is not None else None
                deref = ed is not None and ed.strip_all().k in ('CXXOperatorCallExpr', 'UnaryOperator') and ed.strip_all().op == '*'
                rng = False
                for x in fn.walk():
                    if x.k == 'CallExpr' and x.callee and x.callee['g'] == 'boost::out_edges' and x.args():
                        uv = ex.var_of(x.args()[0])
                        ud = ex.unique_def(fn, uv) if uv is not None else None
                        if ud is not None and ud.strip_all().k == 'CXXMemberCallExpr' and ud.strip_all().callee and ud.strip_all().callee['name'] == 'top':
                            rng = True
                if not (deref and rng):
                    ok = False
    return ok


def check_tree_construction(rep, prog):
    n = 0
    for fn in prog.fns('parmcb::SPTree::initialize'):
        n += 1
        cfg = fn.cfg
        whatn = 'a tree node is created for v exactly when v is the source or has a predecessor, with weight dist[index(v)] and that predecessor edge'
        news = [x for x in fn.walk() if x.k == 'CXXNewExpr' or (x.k == 'CallExpr' and x.callee and x.callee['name'] == 'make_shared')]
        if not news:
            rep.undecided('R12e', fn.body, fn, whatn, 'no node construction found')
            continue

        def vertex_of_idx(e, depth=0):
            s_ = e.strip_all()
            if s_.k == 'CXXOperatorCallExpr' and s_.op == '[]' and len(s_.c) == 3:
                return ex.var_of(s_.c[2])
            v = ex.var_of(s_)
            if v is not None and depth < 3:
                d = ex.unique_def(fn, v)
                if d is not None:
                    return vertex_of_idx(d, depth + 1)
            return None

        def atoms_for(vv):
            def atomize(leaf):
                s_ = leaf.strip_all()
                if s_.k in ('BinaryOperator', 'CXXOperatorCallExpr') and s_.op in ('==', '!='):
                    ops = s_.c if s_.k == 'BinaryOperator' else s_.c[1:]
                    vs = [ex.var_of(o) for o in ops]
                    names = [x.decl.get('name', '') for o in ops for x in [o.strip_all()] + list(o.walk()) if x.k == 'MemberExpr' and x.decl]
                    if vv in vs and any('source' in nm for nm in names):
                        f = ex.f_atom('is_source')
                        return f if s_.op == '==' else ex.f_not(f)
                if s_.k == 'CallExpr' and s_.callee and s_.callee['g'] == 'std::get' and s_.args():
                    ta = s_.callee.get('targs') or []
                    which = ta[0].get('int') if ta and isinstance(ta[0], dict) else None
                    pv = ex.var_of(s_.args()[0])
                    pd = ex.unique_def(fn, pv) if pv is not None else None
                    if which == 0 and pd is not None:
                        g_ = pd.strip_all()
                        if g_.k == 'CallExpr' and g_.callee and g_.callee['g'] == 'boost::get' and len(g_.args()) == 2 and ex.var_of(g_.args()[1]) == vv:
                            return ex.f_atom('has_pred')
                        # the predecessor table read directly: pred[index(v)]
                        if g_.k == 'CXXOperatorCallExpr' and g_.op == '[]' and len(g_.c) == 3 and vertex_of_idx(g_.c[2]) == vv:
                            return ex.f_atom('has_pred')
                return None
            return atomize
        seen_kinds = set()
        probs, und = [], []
        for nw in news:
            args = [c for c in nw.walk() if c.k in ex.CTOR_KINDS and c.callee and c.callee.get('ctor') and 'SPNode' in (c.callee.get('rec') or '')]
            if args:
                cargs = list(args[0].c)
            elif nw.k == 'CallExpr' and 'SPNode' in ((prog.base_type(nw.j.get('t')) or {}).get('canon') or ''):
                cargs = list(nw.args())
            else:
                continue

            class _CT(object):
                pass
            ct = _CT()
            ct.c = cargs
            vv = ex.var_of(ct.c[0]) if ct.c else None
            if vv is None:
                und.append('node constructed for a non-variable vertex')
                continue
            pc = guards_formula(cfg, nw, atoms_for(vv))
            atoms = ex.f_atoms(pc)
            # the vertex argument is the source itself (a member / parameter named *source*, not the loop vertex):
            # the node is the root by construction
            v0 = ct.c[0].strip_all()
            src_direct = any(x.k in ('MemberExpr', 'DeclRefExpr') and x.decl and 'source' in (x.decl.get('name') or '').lower()
                             for x in [v0] + list(v0.walk())) and nw.enclosing('ForStmt', 'WhileStmt', 'CXXForRangeStmt') is None
            others = [a_ for a_ in atoms if a_ not in ('is_source', 'has_pred')]
            inner = [a_ for a_ in others if isinstance(a_, tuple) and a_[0] == 'opaque' and nw.enclosing('ForStmt', 'WhileStmt') is not None and
                     nw.enclosing('ForStmt', 'WhileStmt').body.is_ancestor_of(fn.nodes[a_[1]])]
            if inner:
                und.append('node construction depends on `%s`' % fn.nodes[inner[0][1]].text(30))
                continue
            with_pred = len(ct.c) >= 3
            for (is_src, has_pred) in (((True, False),) if src_direct else ((True, False), (False, True), (False, False))):
                envv = {a_: True for a_ in others}
                envv.update({'is_source': is_src, 'has_pred': has_pred})
                envv = {k: v for k, v in envv.items() if k in atoms}
                reach = ex.f_eval(pc, envv)
                if reach:
                    seen_kinds.add((is_src, has_pred))
                    if not is_src and not has_pred:
                        probs.append('a node is created (line %d) for a vertex that is neither the source nor reached' % nw.line)
                    if has_pred and not with_pred:
                        probs.append('a reached vertex gets a node without its predecessor edge (line %d)' % nw.line)
                    if is_src and with_pred:
                        probs.append('the source gets a node with a predecessor edge (line %d)' % nw.line)
            # weight argument: dist[index(v)] for the same v
            if len(ct.c) >= 2:
                w_ = ct.c[1].strip_all()
                wv = vertex_of_idx(w_.c[2]) if (w_.k == 'CXXOperatorCallExpr' and w_.op == '[]' and len(w_.c) == 3) else None
                if w_.k == 'CallExpr' and w_.callee and w_.callee['g'] == 'boost::get' and len(w_.args()) == 2:
                    wv = ex.var_of(w_.args()[1])
                zero_w = (w_.k in ('CXXScalarValueInitExpr', 'CXXTemporaryObjectExpr') and not w_.c) or \
                    (w_.k == 'IntegerLiteral' and w_.cv == 0) or (w_.k == 'FloatingLiteral' and float(w_.value) == 0.0)
                if src_direct and zero_w:
                    pass        # the distance of the source is the zero of the weight type
                elif wv != vv and wv is None and src_direct:
                    und.append('root weight `%s`' % w_.text(30))
                elif wv != vv:
                    probs.append('the node weight `%s` is not the distance of the node\'s own vertex' % w_.text(30))
            if with_pred:
                e_ = ct.c[2]
                ev = ex.var_of(e_)
                ed = ex.unique_def(fn, ev).strip_all() if ev is not None and ex.unique_def(fn, ev) is not None else e_.strip_all()
                okp = False
                if ed.k == 'CallExpr' and ed.callee and ed.callee['g'] == 'std::get' and ed.args():
                    pv = ex.var_of(ed.args()[0])
                    pd = ex.unique_def(fn, pv) if pv is not None else None
                    if pd is not None:
                        g_ = pd.strip_all()
                        if g_.k == 'CallExpr' and g_.callee and g_.callee['g'] == 'boost::get' and len(g_.args()) == 2 and ex.var_of(g_.args()[1]) == vv:
                            okp = True
                        if g_.k == 'CXXOperatorCallExpr' and g_.op == '[]' and len(g_.c) == 3 and vertex_of_idx(g_.c[2]) == vv:
                            okp = True
                if not okp:
                    probs.append('the predecessor edge of the node is not the predecessor recorded for its own vertex')
        if (True, False) not in seen_kinds:
            probs.append('no node is created for the source')
        if (False, True) not in seen_kinds:
            probs.append('no node is created for reached vertices')
        if probs:
            rep.violation('R12e', news[0], fn, whatn, '; '.join(sorted(set(probs))), key='R12e|%s|nodes' % fn.g)
        elif und:
            rep.undecided('R12e', news[0], fn, whatn, '; '.join(und))
        else:
            rep.ok('R12e', news[0], fn, whatn, 'source: SPNode(v, dist[v]); reached: SPNode(v, dist[v], pred(v)); unreached: none')
        # linking
        whatl = 'every non-root node hangs below the node of the other endpoint of its predecessor edge'
        adds = [x for x in fn.walk() if x.k == 'CXXMemberCallExpr' and x.callee and x.callee['name'] == 'add_child' and x.args()]
        if not adds:
            rep.violation('R12e', fn.body, fn, whatl, 'nodes are never linked', key='R12e|%s|no-link' % fn.g)
            continue
        for ad in adds:
            child = vertex_of_idx(ad.args()[0].strip_all().c[2]) if (ad.args()[0].strip_all().k == 'CXXOperatorCallExpr' and len(ad.args()[0].strip_all().c) == 3) else None
            o = ad.object_arg()
            os_ = o.strip_all() if o is not None else None
            if os_ is not None and os_.k == 'CXXOperatorCallExpr' and os_.op == '->':
                os_ = os_.c[1].strip_all()
            parent = vertex_of_idx(os_.c[2]) if (os_ is not None and os_.k == 'CXXOperatorCallExpr' and os_.op == '[]' and len(os_.c) == 3) else None
            lp = []
            if child is None or parent is None:
                rep.undecided('R12e', ad, fn, whatl, 'parent / child of add_child not traced to tree-node-map entries')
                continue
            pd = ex.unique_def(fn, parent)
            okparent = False
            if pd is not None:
                g_ = pd.strip_all()
                is_opp = g_.k == 'CallExpr' and g_.callee and g_.callee['g'] == 'boost::opposite' and len(g_.args()) >= 2 and ex.var_of(g_.args()[1]) == child
                # boost::source(e, g) is the same vertex when e was taken from out_edges(parent) - which R12c establishes for every stored
                # predecessor (the edge being relaxed is *ei of the popped vertex's out-edge range)
                is_src = g_.k == 'CallExpr' and g_.callee and g_.callee['g'] == 'boost::source' and g_.args() and _lex_pred_edges_are_out_edges(prog)
                if is_opp or is_src:
                    ev = ex.var_of(g_.args()[0])
                    ed = ex.unique_def(fn, ev) if ev is not None else None
                    if ed is not None:
                        e0 = ed.strip_all()
                        if e0.k == 'CallExpr' and e0.callee and e0.callee['g'] == 'std::get' and e0.args():
                            pv = ex.var_of(e0.args()[0])
                            pdd = ex.unique_def(fn, pv) if pv is not None else None
                            if pdd is not None:
                                gg = pdd.strip_all()
                                if gg.k == 'CallExpr' and gg.callee and gg.callee['g'] == 'boost::get' and len(gg.args()) == 2 and ex.var_of(gg.args()[1]) == child:
                                    okparent = True
            pc = guards_formula(cfg, ad, atoms_for(child))
            atoms = ex.f_atoms(pc)
            if not okparent:
                lp.append('the parent is `%s`, not opposite(pred(v), v)' % (pd.text(40) if pd is not None else '?'))
            if 'has_pred' not in atoms:
                lp.append('linking is not restricted to vertices with a predecessor')
            else:
                others = [a_ for a_ in atoms if a_ != 'has_pred']
                if any(ex.f_eval(pc, dict(dict(zip(others, vals)), has_pred=False)) for vals in itertools.product((False, True), repeat=len(others))):
                    lp.append('linking also happens for a vertex without predecessor')
            if lp:
                rep.violation('R12e', ad, fn, whatl, '; '.join(lp), key='R12e|%s|link' % fn.g)
            else:
                rep.ok('R12e', ad, fn, whatl, 'node(opposite(pred(v), v))->add_child(node(v)) when v has a predecessor')
    return n


SORTED_INPUT_ALGOS = ('std::set_difference', 'std::set_intersection', 'std::set_union', 'std::set_symmetric_difference', 'std::includes', 'std::merge',
                      'std::binary_search', 'std::lower_bound', 'std::upper_bound', 'std::equal_range')


def check_sorted_inputs(rep, prog, files=('lex_dijkstra', 'sptrees', 'cycles')):
    """R12h: every range handed to an algorithm that requires sorted input is a std::set / std::map range, or a sequence with a dominating std::sort
    in the same function.  (The tie-break of the lexicographic labels compares vertex sets with std::set_difference.)"""
    n = 0
    for fn in prog.functions:
        if fn.implicit or fn.body is None or not (fn.file.startswith(env.REPO + '/include') or fn.file.startswith(env.WITNESS + '/positive')):
            continue
        if files and not any(x in fn.file for x in files):
            continue
        for d in fn.walk():
            if not (d.k == 'CallExpr' and d.callee and d.callee['g'] in SORTED_INPUT_ALGOS):
                continue
            nin = 4 if d.callee['g'] in ('std::set_difference', 'std::set_intersection', 'std::set_union', 'std::set_symmetric_difference', 'std::includes', 'std::merge') else 2
            args = d.args()[:nin]
            for k in range(0, len(args), 2):
                a0 = args[k].strip_all()
                if not (a0.k == 'CXXMemberCallExpr' and a0.callee and a0.callee['name'] in ('begin', 'cbegin') and a0.object_arg() is not None):
                    continue
                cont = a0.object_arg().strip_all()
                ct = prog.base_type(cont.j.get('t')) or {}
                rec = ct.get('rec') or ''
                n += 1
                what = 'the range `%s` passed to %s is sorted' % (cont.text(30), d.callee['g'])
                if rec in ('std::set', 'std::map', 'std::multiset', 'std::multimap'):
                    rep.ok('R12h', d, fn, what, '%s iterates in key order' % rec)
                    continue
                cv = ex.var_of(cont)
                if cv is not None and prog.vars[cv]['kind'] in ('local', 'param') and ex.sorted_before(fn, cv, d):
                    rep.ok('R12h', d, fn, what, 'sorted by a dominating std::sort')
                    continue
                unsorted_fill = None
                if cv is not None and prog.vars[cv]['kind'] == 'local':
                    # a local initialised from a helper that returns a sequence it has sorted (`const auto tree_edges = sorted_tree_edges();`)
                    dv_ = ex.unique_def(fn, cv)
                    dvs = dv_.strip_all() if dv_ is not None else None
                    helper_sorted = None
                    if dvs is not None and dvs.k in ex.CALL_KINDS and dvs.callee and dvs.callee.get('in_repo') and dvs.callee_id is not None:
                        hf = prog.fn_of_fref(dvs.callee_id)
                        if hf is not None and hf.body is not None:
                            rets_ = ex.returns_of(hf)
                            helper_sorted = bool(rets_) and all(r_.c and ex.var_of(r_.c[0]) is not None and ex.sorted_before(hf, ex.var_of(r_.c[0]), r_) for r_ in rets_)
                    if helper_sorted:
                        rep.ok('R12h', d, fn, what, 'returned sorted by `%s`' % dvs.callee['name'])
                        continue
                    if helper_sorted is False or (dvs is not None and dvs.k in ex.CALL_KINDS):
                        rep.undecided('R12h', d, fn, what, '`%s` comes from `%s`; whether that returns a sorted sequence is not decided' % (cont.text(30), dvs.text(30)))
                        continue
                    unsorted_fill = 'local sequence without a dominating std::sort'
                elif cont.k == 'MemberExpr' and cont.c:
                    # a data member: look for a construction of the record from a local sequence that is appended to and not sorted
                    owner = (prog.base_type(cont.c[0].strip_all().j.get('t')) or {}).get('rec')
                    for g_ in prog.functions:
                        if g_.implicit or g_.body is None:
                            continue
                        for x in g_.walk():
                            if x.k in ex.CTOR_KINDS and x.callee and x.callee.get('ctor') and (x.callee.get('rec') or '') == owner:
                                for a_ in x.c:
                                    av = ex.var_of(a_)
                                    if av is None or prog.vars[av]['kind'] != 'local' or prog.rec_name(prog.vars[av]['ty']) != rec:
                                        continue
                                    appends = [y for y in g_.walk() if y.k == 'CXXMemberCallExpr' and y.callee and y.callee['name'] in ('push_back', 'emplace_back') and
                                               ex.var_of(y.object_arg()) == av]
                                    if appends and not ex.sorted_before(g_, av, x):
                                        unsorted_fill = 'filled by push_back in %s (line %d) and handed to the constructor unsorted' % (g_.g, appends[0].line)
                if unsorted_fill:
                    rep.violation('R12h', d, fn, what,
                                  '`%s` is a %s that is not kept in order (%s): %s needs sorted input, on unsorted data its result is arbitrary, the comparison '
                                  'built on it is not a consistent order and tie-breaking depends on discovery order' % (
                                      cont.text(30), rec or ct.get('s'), unsorted_fill, d.callee['g']), key='R12h|%s|%s' % (fn.g, cont.text(20)))
                else:
                    rep.undecided('R12h', d, fn, what, '`%s` is a %s; whether it is kept sorted is not visible here' % (cont.text(30), rec or ct.get('s')))
    return n


def run(rep, tier):
    from . import search
    rep.rule('R12h', 'algorithms that need sorted input get sorted ranges', floor=0)
    rep.rule('R14d', 'the root node of a tree has distance zero', floor=1)
    rep.rule('R12a', 'lexicographic comparator consistency', floor=1)
    rep.rule('R12b', 'first-in-path labels for every visited node including the root', floor=1)
    rep.rule('R12g', 'first-in-path label values', floor=1)
    rep.rule('R02h', 'relaxation contract of the searches (lex_dijkstra among them)', floor=4)
    rep.rule('R07t', 'the set algorithms of the label comparator run over sorted ranges (the last tie-break rung)', floor=1)
    rep.rule('R12c', 'update sites of lex_dijkstra store label, distance and predecessor consistently', floor=2)
    rep.rule('R12d', 'label extension by one edge', floor=2)
    rep.rule('R12e', 'tree nodes and parent links follow the predecessor map', floor=2)
    tus = [env.witness_tu()]
    if tier == 'thorough':
        tus += [t for t in env.repo_tus() if 'mcb' in os.path.basename(t) or 'sptree' in os.path.basename(t) or 'dijkstra' in os.path.basename(t)]
    progs = env.extract(tus, 'full')
    rep.saw_programs(progs.values())
    n = 0
    from . import c07
    rep.rule('R07k', 'numeric_limits<T>::infinity() only for floating-point T (0 for integral weight types: every distance collapses to 0)', floor=0)
    for prog in progs.values():
        c07.r07k(rep, prog, only_files=('lex_dijkstra', 'detail/util.hpp', 'sptrees', 'detail/dijkstra'))
        c07.r07t(rep, prog, only_files=('lex_dijkstra', 'sptrees'))
        check_comparators(rep, prog)
        check_first_in_path(rep, prog)
        check_label_values(rep, prog)
        search.check_relaxation(rep, prog)
        n += check_lex_updates(rep, prog)
        check_combine(rep, prog)
        check_tree_construction(rep, prog)
        check_sorted_inputs(rep, prog)
        from . import c14
        sub14 = type(rep)(rep.prop, rep.tier)
        c14.check_program(sub14, prog)
        for i in sub14.instances.values():
            if i.rule == 'R14d':
                rep.add(i.rule, i.site, i.function, i.what, i.status, i.detail, key=i.key)
    if n == 0:
        rep.analysis_broken('parmcb::lex_dijkstra is not instantiated (anchor vanished)')
    pos = os.path.join(env.WITNESS, 'positive', 'c12_trees.cc')
    try:
        pp = env.extract([pos], 'full', ('first:-I' + os.path.join(env.WITNESS, 'positive', 'broken_include6'),))[pos]
        prep = type(rep)(rep.prop, rep.tier)
        check_comparators(prep, pp)
        check_first_in_path(prep, pp)
        check_label_values(prep, pp)
        search.check_relaxation(prep, pp)
        check_lex_updates(prep, pp)
        check_combine(prep, pp)
        check_tree_construction(prep, pp)
        check_sorted_inputs(prep, pp)
        # R12b's positive (root never labelled) lives in the C14 example tree
        pos14 = os.path.join(env.WITNESS, 'positive', 'c14_candidates.cc')
        pp14 = env.extract([pos14], 'full', ('first:-I' + os.path.join(env.WITNESS, 'positive', 'broken_include3'),))[pos14]
        check_first_in_path(prep, pp14)
        for r in ('R12a', 'R12b', 'R12g', 'R02h', 'R12c', 'R12d', 'R12e', 'R12h'):
            rep.positive(r, 'witness/positive/c12_trees.cc', any(i.status == 'violation' and i.rule == r for i in prep.instances.values()))
    except env.AnalysisBroken as e:
        rep.analysis_broken('positive example c12_trees.cc does not parse: ' + str(e)[:300])
    rep.assume('the d-ary heap pops the vertex with the smallest lexicographic label (boost::d_ary_heap_indirect with the given comparator)')
    rep.note('NOT claimed: that the computed distances are the true shortest-path distances, that the predecessor structure is a tree for every input, '
             'and cross-source consistency of the chosen paths - these are results of runs; the rules are the necessary code shapes behind them')
