"""C01 - exact algorithms emit a genuine basis of the cycle space.

That each emitted edge set is a simple cycle and that the family is independent is value-level: NOT claimed.
Claimed: necessary conditions visible in the five sibling implementations of the de Pina phase loop.
R01a  one emission per phase, phases k = 0 .. cycle_space_dimension-1, emission unconditional inside the phase
R01b  orthogonalisation: for l in k+1..csd: if (support[l] * C == 1) support[l] += support[k], with C and the emitted
      list taken from the same search result; the search input is support[k], read after any swap
R01c  a failed std::set<Edge>::insert while unfolding a walk always leads to a not-found result (flag-propagating reachability)
R01d  MPI: only rank 0 emits
R02c  a search result is adopted as the phase's cycle only when the search reported success (shared with C02: an adopted failure is
      emitted as a "cycle" that is no cycle)
R01e  parity propagation is an exclusive-or with "edge is signed" in update_parities, in the signed search and in the candidate test
R12b  SPTree::compute_first_in_path labels every node it visits, the root included (the candidate guards that keep cycles simple
      compare these labels)
SpVecGF2 structure (shared with C17): merge loops and shortcut guards of operator+ (R17a), self-aliasing of operator+= (R17c)
"""
import os

from lib import env
from . import phase

TITLE = 'C01: structure of the phase loop in the five sibling implementations, duplicate-edge rejection, support-vector arithmetic shape.'
RULES = {'R01a': 5, 'R01b': 10, 'R01c': 4, 'R01d': 2, 'R02c': 3, 'R01f': 2}


def run_rules(rep, tier, rules, docs, pos_name='c01_phase.cc', extra=None):
    for r, fl in rules.items():
        rep.rule(r, docs.get(r, ''), floor=fl)
    tus = [env.witness_tu()]
    if tier == 'thorough':
        tus += env.repo_tus()
    progs = env.extract(tus, 'full')
    rep.saw_programs(progs.values())
    for prog in progs.values():
        F = phase.analyse(prog)
        phase.report(rep, F, rules)
        if extra:
            extra(rep, prog)
    pos = os.path.join(env.WITNESS, 'positive', pos_name)
    try:
        pp = env.extract([pos], 'full', ('first:-I' + os.path.join(env.WITNESS, 'positive', 'broken_include'),))[pos]
        F = phase.analyse(pp)
        for r in rules:
            rep.positive(r, 'witness/positive/' + pos_name, any(f[0] == r and f[4] == 'violation' for f in F))
    except env.AnalysisBroken as e:
        rep.analysis_broken('positive example %s does not parse against the current headers: %s' % (pos_name, str(e)[:300]))


def search_positive(rep, rules):
    from . import search
    pos = os.path.join(env.WITNESS, 'positive', 'search_broken.cc')
    try:
        pp = env.extract([pos], 'full', ('first:-I' + os.path.join(env.WITNESS, 'positive', 'broken_include4'),))[pos]
        prep = type(rep)(rep.prop, rep.tier)
        search.check_parity(prep, pp)
        search.check_relaxation(prep, pp)
        search.check_pruning(prep, pp)
        for r in rules:
            rep.positive(r, 'witness/positive/search_broken.cc', any(i.status == 'violation' and i.rule == r for i in prep.instances.values()))
    except env.AnalysisBroken as e:
        rep.analysis_broken('positive example search_broken.cc does not parse: ' + str(e)[:300])


DOCS = {
    'R01a': 'phase loop emits exactly one cycle per phase',
    'R01b': 'support-vector update after each phase; search driven by support[k]',
    'R01c': 'duplicate-edge rejection is never dropped',
    'R01d': 'MPI: root-only emission',
    'R01f': 'no candidate is removed from the collection before the lookup',
    'R02a': 'returned value = sum of the weights of the emitted cycles',
    'R02b': 'edge/weight pairing while a cycle is assembled',
    'R02c': 'sequential running-best update contract',
    'R02d': 'first-found lookup only over weight-sorted candidates',
    'R02e': 'pruning limit = (found, weight) of the same running best',
    'R02f': 'hidden-edge set shrinks on every iteration',
}


def run(rep, tier):
    from . import c17, c12

    from . import search

    def extra(rep_, prog):
        c17.check_program(rep_, prog, rules=('R17a', 'R17c'))
        c12.check_first_in_path(rep_, prog)
        search.check_parity(rep_, prog)
        search.check_pruning(rep_, prog)
        c12.check_comparators(rep_, prog)
        from . import c07
        c07.r07k(rep_, prog)
        c07.r07t(rep_, prog, only_files=('lex_dijkstra', 'sptrees', 'signed_dijkstra', 'cycles.hpp'))
        from . import c13
        for f13 in prog.fns(c13.FN):
            if not c13.is_forwarder(f13):
                c13.check_count_width(rep_, prog, f13)
                # a cycle left without a feedback vertex has no tree rooted on it: mcb_sva_fvs_trees finds no candidate for its phase and emits an
                # empty "cycle" (shared with C13: what reaches the heap, early exits, when the emission loop stops)
                sub13 = type(rep_)(rep_.prop, rep_.tier)
                c13.check(sub13, prog, f13)
                for i in sub13.instances.values():
                    if i.rule in ('R13e', 'R13f', 'R13j'):
                        rep_.add(i.rule, i.site, i.function, i.what, i.status, i.detail, key=i.key)
        search.check_combine_types(rep_, prog)
        from . import c16
        c16.shared(rep_, prog)
    for r_, d_ in (('R16a', 'forest index: inverse-pair numbering, off-forest edges first (the coordinates of the support vectors)'),
                   ('R16b', 'forest index: dimension formula m - n + c and accessors (the number of phases)'),
                   ('R16c', 'spanning_forest counts one component per outer iteration and 0 only for the graph without vertices'),
                   ('R16h', 'n, m and the component count are assigned on every path through create_index')):
        rep.rule(r_, d_, floor=1)
    rep.rule('R02j', 'the saturating sum of the searches is applied in the distance type (no floating -> integral truncation of weights)', floor=4)
    rep.rule('R07k', 'numeric_limits<T>::infinity() only for floating-point T (0 for integral weight types)', floor=0)
    rep.rule('R13h', 'the feedback vertex set behind the FVS trees keeps degrees as wide as the graph reports them (a hub of degree 2^16 dropped from the set leaves cycles without a tree: empty cycles are emitted)', floor=1)
    rep.rule('R13j', 'every vertex live after the clean-up of greedy_fvs enters the heap (a cycle without a feedback vertex has no tree: mcb_sva_fvs_trees emits an empty cycle)', floor=1)
    rep.rule('R13e', 'the emission loop of greedy_fvs runs while a cycle can be left (shared with C13)', floor=0)
    rep.rule('R13f', 'no early exit of greedy_fvs for a graph shape that admits a cycle (shared with C13)', floor=0)
    rep.rule('R07t', 'sorted-range algorithms in the tree labels see sorted ranges (inconsistent trees make the isometric variant emit an empty cycle)', floor=1)
    run_rules(rep, tier, RULES, DOCS, extra=extra)
    rep.rule('R01e', 'parity propagation is an exclusive-or with "edge is signed" (trees, signed search, candidate test)', floor=3)
    search_positive(rep, ('R01e',))
    rep.rule('R12b', 'every visited tree node (root included) gets a first-in-path label; the candidate guards compare these labels', floor=1)
    rep.rule('R12a', 'the lexicographic comparator behind the shortest-path trees is a strict order per rung (inconsistent trees make the isometric filter drop needed circuits)', floor=1)
    rep.rule('R02i', 'pruning / meeting rules of the bidirectional search (a search that misses its meeting point reports "not found" and the phase emits nothing)', floor=5)
    rep.rule('R17a', 'SpVecGF2 operator+/operator* are merges whose shortcut guards are strict', floor=3)
    rep.rule('R17c', 'SpVecGF2 compound operators are safe under self-aliasing', floor=1)
    rep.note('NOT claimed: simplicity of each cycle, linear independence, m-n+c as the right count')
    rep.assume('bidirectional_signed_dijkstra / CandidateCycleBuilder return (set, weight, found) triples; convert_edges is a bijection (C16)')
