"""atoms and small recognisers shared by several property modules"""
from lib import ex

VALIDATORS = ('parmcb::has_loops', 'parmcb::has_multiple_edges', 'parmcb::has_non_positive_weights')
NON_ALGO = set(VALIDATORS) | {'parmcb::read_dimacs_from_file', 'parmcb::set_global_tbb_concurrency', 'parmcb::is_cycle'}
KNOB = 'parmcb::set_global_tbb_concurrency'


def first_string(n):
    for s in ex.string_literals(n):
        return s.value
    return None


def option_atom(n):
    """('opt', key) for vm["key"].as<T>()  /  ('count', key) for vm.count("key"), else None"""
    s = n.strip_all()
    if s.k == 'CXXMemberCallExpr' and s.callee:
        g = s.callee['g']
        if g == 'boost::program_options::variable_value::as':
            o = s.object_arg()
            o = o.strip() if o is not None else None
            if o is not None and o.k == 'CXXOperatorCallExpr' and o.op == '[]' and \
                    o.callee and o.callee['g'].startswith('boost::program_options::'):
                key = first_string(o)
                if key is not None:
                    return ('opt', key)
        if s.callee['name'] == 'count':
            o = s.object_arg()
            if o is not None:
                t = o.strip_all().type
                tn = (t or {}).get('canon', '')
                if 'program_options::variables_map' in tn or 'program_options::variable_value' in tn:
                    key = first_string(s)
                    if key is not None:
                        return ('count', key)
    return None


def is_rank_call(n):
    s = n.strip_all()
    return s.k == 'CXXMemberCallExpr' and s.callee is not None and s.callee['g'] == 'boost::mpi::communicator::rank'


def mentions_rank(n, rank_vars=()):
    for d in n.walk():
        if is_rank_call(d):
            return True
        if d.k == 'DeclRefExpr' and d.decl_id in rank_vars:
            return True
    return False


def rank_vars_of(fn):
    """variables assigned from an expression that contains communicator::rank() (flow-insensitive closure)"""
    rv = set()
    changed = True
    while changed:
        changed = False
        for n in fn.walk():
            tgt = None
            rhs = None
            if n.k == 'VarDecl' and n.c:
                tgt, rhs = n.decl_id, n.c[0]
            elif n.k == 'BinaryOperator' and n.op == '=':
                tgt, rhs = ex.var_of(n.c[0]), n.c[1]
            if tgt is not None and tgt not in rv and rhs is not None and mentions_rank(rhs, rv):
                rv.add(tgt)
                changed = True
    return rv


def algorithm_frefs(prog):
    """fref ids of functions from which parmcb library code other than I/O / validators / the knob is
    reachable (call-graph closure over repo functions)"""
    def is_algo(fr):
        g = fr['g']
        if not g.startswith('parmcb::'):
            return False
        if not fr.get('in_repo'):
            return False
        if g in NON_ALGO:
            return False
        return True
    return ex.reach_closure(prog, is_algo, barrier=lambda fr: fr['g'] in NON_ALGO)


def mains(prog):
    return [f for f in prog.functions if f.g == 'main']


def driver_body(prog, main):
    """the function that plays the role of the driver: main itself, or - when main only parses the options and ends with
    `return worker(...)` - that worker (a function with a body in the same file that reads the graph)"""
    if any(n.k in ('CallExpr',) and n.callee and n.callee['g'] == 'parmcb::read_dimacs_from_file' for n in main.walk()):
        return main
    from lib import ex as _ex
    cands = []
    for r in _ex.returns_of(main):
        c = r.c[0].strip_all() if r.c else None
        if c is not None and c.k == 'CallExpr' and c.callee_id is not None:
            hf = prog.fn_of_fref(c.callee_id)
            if hf is not None and hf.body is not None and hf.file == main.file and \
                    any(n.k == 'CallExpr' and n.callee and n.callee['g'] == 'parmcb::read_dimacs_from_file' for n in hf.walk()):
                # the worker's status must be the program's status on the path that reaches it: `return worker(...)` is exactly that
                cands.append(hf)
    return cands[0] if len(set(id(c) for c in cands)) == 1 else main
