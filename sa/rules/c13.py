"""C13 - greedy_fvs returns a feedback vertex set (PARTIAL: the bookkeeping the acyclicity argument rests on).

greedy_fvs keeps, per vertex, a liveness flag and the number of live neighbours; vertices whose live degree drops to <= 1 are
discarded without being emitted (they lie on no cycle of what is left), every other vertex is eventually emitted.  The residual
graph G - FVS therefore consists of discarded vertices only, and it is acyclic iff *every discarded vertex had at most one live
neighbour when it was discarded* (take a cycle of discarded vertices and the first of them to be discarded: both its cycle
neighbours are still live).  That in turn holds iff the degree table never under-estimates the live degree, and "a forest emits
nothing" holds iff it never over-estimates it.  These are statements about every run; the checks below decide the code shapes they
rest on, each a necessary condition (breaking it breaks the property on some graph):

R13a  initialisation: one loop over boost::vertices(g) in which, for every vertex, the liveness flag is set, the degree entry is
      boost::out_degree(v, g), and the vertex is queued for discarding exactly when that degree is <= 1
R13b  every queueing site of the discard queue is reached exactly when the (new) live degree of that same vertex is <= 1
      (abstract evaluation of the guard for degrees 0..4; a test placed before the decrement is shifted by one)
R13c  every site that clears a liveness flag (discard or emission) is followed, on every path of the iteration, by a loop over
      boost::out_edges of that same vertex in which the degree entry of the neighbour is decremented exactly once, exactly when the
      neighbour is live; the three sibling copies of that loop must all have this shape
R13e  the emission loop keeps running while the heap holds >= 3 entries (abstract evaluation of the loop condition); fewer than three live
      vertices of degree >= 2 cannot exist in a simple graph, so `size() >= 3` is as good as `!empty()`
R13f  no return between the initial clean-up and the emission loop; a return guarded by a comparison of a pop counter with the number
      of vertices is a violation (a vertex can be queued twice), any other early return is undecided
R13d  the emitted vertex is the top of the heap and its liveness flag is cleared on every path after the emission (otherwise it is
      "removed" again when a neighbour goes: heap handles of popped elements are decreased - observed as a crash)
      Deliberately NOT rules, because no execution shows a failure when they are broken (300 000 random graphs each): the liveness
      guard in front of the emission and the clearing of the flag of vertices popped from the discard queue
NOT claimed: that the emitted set is small, heap ordering, and acyclicity as a value-level fact - only the bookkeeping premises.
"""
import itertools
import os

from lib import env, ex
from .c10 import guards_formula
from .phase import post_dominates_within

TITLE = 'C13: liveness / live-degree bookkeeping of greedy_fvs (initialisation, discard threshold, neighbour updates, emission guard).'
FN = 'parmcb::greedy_fvs'
LOOPS = ('ForStmt', 'WhileStmt', 'DoStmt', 'CXXForRangeStmt')


def is_forwarder(fn):
    """an overload that only forwards to another overload of the same function (e.g. supplies the default vertex index map)"""
    if fn.body is None:
        return False
    stmts = [c for c in fn.body.c] if fn.body.k == 'CompoundStmt' else [fn.body]
    if len(stmts) != 1:
        return False
    e = stmts[0].strip_all() if stmts[0].k != 'ReturnStmt' else (stmts[0].c[0].strip_all() if stmts[0].c else None)
    return e is not None and e.k == 'CallExpr' and e.callee is not None and e.callee['g'] == fn.g and e.callee_id != fn.fref_id


class Model(object):
    def __init__(self, prog, fn):
        self.prog, self.fn, self.cfg = prog, fn, fn.cfg
        self.nodes = list(fn.walk())
        self.exists_t = None     # std::vector<bool> liveness table
        self.degree_t = None     # degree table
        self.queue = None        # discard queue
        self.heap = None
        self.find_tables()

    # ---- vertex behind an index expression:  index_map[v] | boost::get(index_map, v) | a local holding one of them
    def vertex_of_index(self, e, depth=0):
        s = e.strip_all()
        if s.k == 'CXXOperatorCallExpr' and s.op == '[]' and len(s.c) == 3:
            t = (self.prog.base_type(s.c[1].strip_all().j.get('t')) or {}).get('rec') or ''
            if t.startswith('boost::') and ('map' in t):
                return ex.var_of(s.c[2])
        if s.k == 'CallExpr' and s.callee and s.callee['g'] == 'boost::get' and len(s.args()) == 2:
            return ex.var_of(s.args()[1])
        v = ex.var_of(s)
        if v is not None and depth < 3:
            d = ex.unique_def(self.fn, v)
            if d is not None:
                return self.vertex_of_index(d, depth + 1)
        return None

    def table_access(self, n):
        """(table var, vertex var) for T[index-of-vertex]"""
        s = n.strip_all()
        if s.k == 'CXXOperatorCallExpr' and s.op == '[]' and len(s.c) == 3:
            t = ex.var_of(s.c[1])
            if t is not None and self.prog.rec_name(self.prog.vars[t]['ty']) == 'std::vector':
                return (t, self.vertex_of_index(s.c[2]))
        return None

    def find_tables(self):
        for n in self.nodes:
            if n.k == 'UnaryOperator' and n.op == '--':
                ta = self.table_access(n.c[0])
                if ta:
                    self.degree_t = ta[0]
            if n.k == 'CompoundAssignOperator' and n.op == '-=':
                ta = self.table_access(n.c[0])
                if ta:
                    self.degree_t = ta[0]
        for n in self.nodes:
            if n.k == 'VarDecl':
                bt = self.prog.base_type(n.j.get('t')) or {}
                ta = [a for a in (bt.get('targs') or []) if isinstance(a, int)]
                if (bt.get('rec') or '') == 'std::vector' and ta and (self.prog.base_type(ta[0]) or {}).get('bool'):
                    self.exists_t = n.decl_id
                if (bt.get('rec') or '') in ('std::deque', 'std::list', 'std::vector', 'std::stack', 'std::queue') and n.decl_id not in (self.degree_t, self.exists_t):
                    # the discard queue: pushed and popped
                    pushes = [m for m in self.nodes if m.k == 'CXXMemberCallExpr' and m.callee and m.callee['name'] in ('push_front', 'push_back', 'push') and
                              ex.var_of(m.object_arg()) == n.decl_id]
                    pops = [m for m in self.nodes if m.k == 'CXXMemberCallExpr' and m.callee and m.callee['name'] in ('pop_front', 'pop_back', 'pop') and
                            ex.var_of(m.object_arg()) == n.decl_id]
                    if pushes and pops:
                        self.queue = n.decl_id
                if 'heap' in (bt.get('rec') or '') or 'priority_queue' in (bt.get('rec') or ''):
                    self.heap = n.decl_id

    # ---- statements
    def exists_stores(self):
        """(node, vertex var, value) for exists[idx(v)] = true/false"""
        res = []
        for n in self.nodes:
            if n.k in ('BinaryOperator', 'CXXOperatorCallExpr') and n.op == '=':
                ops = n.c if n.k == 'BinaryOperator' else n.c[1:]
                if len(ops) < 2:
                    continue
                ta = self.table_access(ops[0])
                if ta and ta[0] == self.exists_t:
                    res.append((n, ta[1], ops[1].strip_all().cv))
        return res

    def degree_decrements(self):
        res = []
        for n in self.nodes:
            ta = None
            if n.k == 'UnaryOperator' and n.op == '--':
                ta = self.table_access(n.c[0])
            elif n.k == 'CompoundAssignOperator' and n.op == '-=' and n.c[1].strip_all().cv == 1:
                ta = self.table_access(n.c[0])
            elif n.k == 'BinaryOperator' and n.op == '=':
                l = self.table_access(n.c[0])
                r = n.c[1].strip_all()
                if l and l[0] == self.degree_t and r.k == 'BinaryOperator' and r.op == '-' and r.c[1].strip_all().cv == 1 and self.table_access(r.c[0]) == l:
                    ta = l
            if ta and ta[0] == self.degree_t:
                res.append((n, ta[1]))
        return res

    def queue_pushes(self):
        return [(m, ex.var_of(m.args()[0])) for m in self.nodes if m.k == 'CXXMemberCallExpr' and m.callee and
                m.callee['name'] in ('push_front', 'push_back', 'push') and ex.var_of(m.object_arg()) == self.queue and m.args()]

    def live_atom(self, leaf, vertex):
        """formula for a leaf that tests the liveness flag of `vertex`"""
        s = leaf.strip_all()
        ta = self.table_access(s)
        if ta and ta[0] == self.exists_t and ta[1] == vertex:
            return ex.f_atom('live')
        # vector<bool> reference converted to bool: CXXMemberCallExpr operator bool on the proxy
        if s.k == 'CXXMemberCallExpr' and s.object_arg() is not None:
            ta = self.table_access(s.object_arg())
            if ta and ta[0] == self.exists_t and ta[1] == vertex:
                return ex.f_atom('live')
        return None

    def degree_test(self, leaf, vertex):
        """callable d -> bool if leaf compares the degree entry of `vertex` (or a local holding the out-degree / the value just stored)
        with a constant; else None"""
        s = leaf.strip_all()
        if s.k != 'BinaryOperator' or s.op not in ('<', '<=', '>', '>=', '==', '!='):
            return None
        l, r, op = s.c[0], s.c[1], s.op
        if l.strip_all().cv is not None and r.strip_all().cv is None:
            l, r = r, l
            op = {'<': '>', '>': '<', '<=': '>=', '>=': '<='}.get(op, op)
        c = r.strip_all().cv
        if c is None:
            return None
        ls = l.strip_all()
        is_deg = False
        mode = None
        if ls.k == 'UnaryOperator' and ls.op == '--':
            ta = self.table_access(ls.c[0])
            if ta and ta[0] == self.degree_t and ta[1] == vertex:
                is_deg = True
                mode = 'old' if ls.j.get('postfix') else 'new'
        ta = self.table_access(ls)
        if ta and ta[0] == self.degree_t and ta[1] == vertex:
            is_deg = True
        if ls.k == 'BinaryOperator' and ls.op == '=':
            ta = self.table_access(ls.c[0])
            if ta and ta[0] == self.degree_t and ta[1] == vertex:
                is_deg = True
        v = ex.var_of(ls)
        if v is not None and not is_deg:
            d = ex.unique_def(self.fn, v)
            if d is not None:
                dd = d.strip_all()
                if dd.k == 'CallExpr' and dd.callee and dd.callee['g'] in ('boost::out_degree', 'boost::degree') and dd.args() and ex.var_of(dd.args()[0]) == vertex:
                    is_deg = True
                ta = self.table_access(dd)
                if ta and ta[0] == self.degree_t and ta[1] == vertex:
                    is_deg = True
        if not is_deg:
            return None
        import operator
        f = {'<': operator.lt, '<=': operator.le, '>': operator.gt, '>=': operator.ge, '==': operator.eq, '!=': operator.ne}[op]
        return (lambda d: f(d, c)), mode


def iteration_entry(cfg, loop):
    body = loop.body
    first = body.c[0] if body is not None and body.k == 'CompoundStmt' and body.c else body
    return cfg.pos_of(first) if first is not None else None


def check(rep, prog, fn):
    m = Model(prog, fn)
    cfg = m.cfg
    if None in (m.exists_t, m.degree_t, m.queue):
        rep.undecided('R13a', fn.body, fn, 'liveness table, degree table and discard queue of greedy_fvs',
                      'tables not recognised (liveness=%s degree=%s queue=%s)' % (m.exists_t, m.degree_t, m.queue))
        return
    V = prog.vars
    # ------------------------------------------------------------------ R13a
    whata = 'every vertex starts live with degree out_degree(v) and is queued for discarding exactly when that degree is <= 1'
    init_loops = [lp for lp in fn.body.c if lp.k in LOOPS and any(
        d.k == 'CallExpr' and d.callee and d.callee['g'] == 'boost::vertices' for d in lp.walk() if not (lp.body is not None and lp.body.is_ancestor_of(d)))]
    trues = [(n, v) for (n, v, val) in m.exists_stores() if val == 1]
    init = None
    for lp in init_loops:
        if any(lp.is_ancestor_of(n) for (n, v) in trues):
            init = lp
            break
    # the liveness table may be born live: std::vector<bool> exists(n, true)
    born_live = False
    for d_ in fn.walk():
        if d_.k == 'VarDecl' and d_.decl_id == m.exists_t and d_.c:
            c0 = d_.c[0].strip()
            if c0.k in ex.CTOR_KINDS and len(c0.c) >= 2 and c0.c[1].strip_all().cv == 1:
                born_live = True
    if init is None and born_live:
        for lp in init_loops:
            if any(n_.k == 'BinaryOperator' and n_.op == '=' and lp.is_ancestor_of(n_) and (m.table_access(n_.c[0]) or (None,))[0] == m.degree_t for n_ in m.nodes):
                init = lp
                break
    if init is None and born_live:
        rep.undecided('R13a', fn.body, fn, whata, 'the liveness table is constructed live, but no loop over boost::vertices(g) fills the degree table')
    elif init is None:
        rep.violation('R13a', fn.body, fn, whata, 'no loop over boost::vertices(g) sets the liveness flags', key='R13a|%s|no-init' % fn.g)
    else:
        probs = []
        ent = iteration_entry(cfg, init)
        for (n, v) in trues:
            if not init.is_ancestor_of(n):
                continue
            p = cfg.pos_of(n)
            if not (p and ent and (p[0] == ent[0] or post_dominates_within(cfg, p[0], ent[0], init))):
                probs.append('the liveness flag is not set for every vertex (store at line %d is conditional)' % n.line)
        dstores = []
        for n in m.nodes:
            if n.k == 'BinaryOperator' and n.op == '=' and init.is_ancestor_of(n):
                ta = m.table_access(n.c[0])
                if ta and ta[0] == m.degree_t:
                    dstores.append((n, ta[1], n.c[1]))
        if not dstores:
            probs.append('the degree table is not initialised in the loop')
        for (n, v, rhs) in dstores:
            r = rhs.strip_all()
            rv = ex.var_of(r)
            d = ex.unique_def(fn, rv).strip_all() if rv is not None and ex.unique_def(fn, rv) is not None else r
            if not (d.k == 'CallExpr' and d.callee and d.callee['g'] in ('boost::out_degree', 'boost::degree') and d.args() and ex.var_of(d.args()[0]) == v):
                probs.append('degree[%s] is initialised with `%s`, not with the out-degree of that vertex' % (V[v]['name'] if v is not None else '?', rhs.text(30)))
            p = cfg.pos_of(n)
            if not (p and ent and (p[0] == ent[0] or post_dominates_within(cfg, p[0], ent[0], init))):
                probs.append('the degree entry is not set for every vertex')
        if probs:
            rep.violation('R13a', init, fn, whata, '; '.join(sorted(set(probs))), key='R13a|%s|init' % fn.g)
        else:
            rep.ok('R13a', init, fn, whata, 'exists[v] = true; degree[v] = out_degree(v, g) on every iteration')
    # ------------------------------------------------------------------ R13b
    decs = m.degree_decrements()
    groups = {}
    for (push, pv) in m.queue_pushes():
        lp = push.enclosing(*LOOPS)
        groups.setdefault((lp.i if lp is not None else None, pv), []).append(push)
    for (lpi, pv), pushes in sorted(groups.items(), key=lambda kv: kv[1][0].line):
        first_push = pushes[0]
        whatb = 'vertex `%s` is queued for discarding exactly when its live degree has become <= 1' % (V[pv]['name'] if pv is not None else '?')
        if pv is None:
            rep.undecided('R13b', first_push, fn, whatb, 'queued expression is not a variable')
            continue
        lp = first_push.enclosing(*LOOPS)
        dec = [d for (d, dv) in decs if dv == pv and lp is not None and lp.is_ancestor_of(d) and d.enclosing(*LOOPS) is lp]
        tests = {}

        def atomize(leaf, pv=pv, tests=tests):
            r = m.degree_test(leaf, pv)
            where = leaf
            if r is None:
                # a bool local holding the test
                bv = ex.var_of(leaf)
                if bv is not None and (prog.base_type(prog.vars[bv]['ty']) or {}).get('bool'):
                    defs = [(d, rhs) for (d, rhs) in ex.assignments_to(fn, bv)]
                    if len(defs) == 1 and defs[0][1] is not None:
                        r = m.degree_test(defs[0][1], pv)
                        where = defs[0][0]
            if r is not None:
                tests[('deg', leaf.i)] = (where, r[0], r[1])
                return ex.f_atom(('deg', leaf.i))
            return None
        pcs = [guards_formula(cfg, p_, atomize) for p_ in pushes]
        if dec:
            pc_ref = guards_formula(cfg, dec[0], atomize)
        else:
            first = lp.body.c[0] if lp is not None and lp.body is not None and lp.body.k == 'CompoundStmt' and lp.body.c else None
            pc_ref = guards_formula(cfg, first, atomize) if first is not None else ex.TRUE
        allatoms = []
        for f_ in pcs + [pc_ref]:
            for a in ex.f_atoms(f_):
                if a not in allatoms:
                    allatoms.append(a)
        degs = [a for a in allatoms if isinstance(a, tuple) and a[0] == 'deg']
        free = [a for a in allatoms if a not in degs]
        if not degs:
            rep.violation('R13b', first_push, fn, whatb, 'the vertex is queued without any test of its degree: a vertex with two or more live neighbours is '
                          'discarded without being emitted, a cycle through it survives', key='R13b|%s|%s|untested' % (fn.g, V[pv]['name']))
            continue
        # which value does each test see: the new degree (after the decrement) or the old one?
        shifts = {}
        und = None
        for a in degs:
            where, t, mode = tests[a]
            if mode == 'new':
                shifts[a] = 0
            elif mode == 'old':
                shifts[a] = 1
            elif not dec:
                shifts[a] = 0
            elif cfg.dominates(dec[0], where):
                shifts[a] = 0
            elif cfg.dominates(where, dec[0]):
                shifts[a] = 1
            else:
                und = 'degree test `%s` is neither before nor after the decrement on all paths' % where.text(30)
        if und:
            rep.undecided('R13b', first_push, fn, whatb, und)
            continue
        bad = None
        for newdeg in (0, 1, 2, 3, 4):
            envd = {a: bool(tests[a][1](newdeg + shifts[a])) for a in degs}
            for vals in itertools.product((False, True), repeat=len(free)):
                e = dict(envd)
                e.update(zip(free, vals))
                which = [p_ for (p_, pc) in zip(pushes, pcs) if ex.f_eval(pc, e)]
                updated = ex.f_eval(pc_ref, e)
                if newdeg >= 2 and which:
                    bad = (which[0], 'the vertex is queued for discarding (line %d) when its live degree is %d: a vertex with two live neighbours is dropped '
                           'without being emitted, so a cycle through it survives in G - FVS' % (which[0].line, newdeg))
                    break
                if dec and newdeg == 0:
                    # the decrement took the degree from 1 to 0: the vertex was queued when it reached 1 (or by the initial scan), queueing it
                    # again is optional
                    continue
                if newdeg <= 1 and updated and not which:
                    bad = (first_push, 'a vertex whose live degree has become %d is not queued for discarding: it stays in the heap and is emitted '
                           'although it lies on no cycle (a forest no longer yields the empty set)' % newdeg)
                    break
            if bad:
                break
        if bad:
            rep.violation('R13b', bad[0], fn, whatb, bad[1], key='R13b|%s|%s|threshold' % (fn.g, V[pv]['name']))
        else:
            rep.ok('R13b', first_push, fn, whatb, 'guards of %d queueing site(s) evaluated for live degrees 0..4: queued iff <= 1' % len(pushes))
    # ------------------------------------------------------------------ R13c
    falses = [(n, v) for (n, v, val) in m.exists_stores() if val == 0]
    nbr_loops = []
    for lp in m.nodes:
        if lp.k not in LOOPS or lp.body is None:
            continue
        # neighbour variable: target(*ei, g) / opposite(...) defined in the body
        for d in lp.body.walk():
            if d.k == 'VarDecl' and d.c and d.enclosing(*LOOPS) is lp:
                r = d.c[0].strip_all()
                if r.k == 'CallExpr' and r.callee and r.callee['g'] in ('boost::target', 'boost::opposite', 'boost::source'):
                    nbr_loops.append((lp, d.decl_id, r))
                    break
        else:
            # for (auto w : make_iterator_range(adjacent_vertices(x, g))): the loop variable is the neighbour itself
            if lp.k == 'CXXForRangeStmt' and lp.role('range') is not None and lp.role('loopvar') is not None:
                adj = [x for x in lp.role('range').walk() if x.k == 'CallExpr' and x.callee and x.callee['g'] == 'boost::adjacent_vertices']
                lvs = [d.decl_id for d in lp.role('loopvar').walk() if d.k == 'VarDecl']
                if adj and lvs:
                    nbr_loops.append((lp, lvs[0], adj[0]))

    def loop_vertex(lp):
        """the vertex whose out_edges the loop iterates (through a range variable assigned from boost::out_edges)"""
        hdr_nodes = [x for x in lp.walk() if not lp.body.is_ancestor_of(x)]
        for x in hdr_nodes:
            if x.k == 'CallExpr' and x.callee and x.callee['g'] in ('boost::out_edges', 'boost::adjacent_vertices') and x.args():
                return ex.var_of(x.args()[0]), x
        cands = []
        for x in hdr_nodes:
            v = ex.var_of(x) if x.k == 'DeclRefExpr' else None
            if v is None:
                continue
            for (d, rhs) in ex.assignments_to(fn, v):
                if rhs is None:
                    continue
                r = rhs.strip_all()
                if r.k == 'CallExpr' and r.callee and r.callee['g'] in ('boost::out_edges', 'boost::adjacent_vertices') and r.args():
                    cands.append((d, ex.var_of(r.args()[0]), r))
        # the closest dominating assignment
        best = None
        for (d, vv, r) in cands:
            if cfg.dominates(d, lp.cond if lp.cond is not None else lp):
                if best is None or cfg.dominates(best[0], d):
                    best = (d, vv, r)
        return (best[1], best[2]) if best else (None, None)
    nsib = 0
    for (lp, wv, rcall) in nbr_loops:
        xv, oe = loop_vertex(lp)
        if xv is None:
            continue
        nsib += 1
        whatc = 'when `%s` is removed, the live degree of each live neighbour is decremented exactly once' % V[xv]['name']
        mine = [d for (d, dv) in decs if lp.body.is_ancestor_of(d) and d.enclosing(*LOOPS) is lp]
        probs = []
        if rcall.callee['g'] == 'boost::source':
            probs.append('the neighbour is taken as boost::source(*ei, g), which is the removed vertex itself for out-edges')
        wrong = [d for d in mine if dict(decs).get(d) != wv]
        mine_w = [d for (d, dv) in decs if d in mine and dv == wv]
        if wrong:
            probs.append('a degree entry other than the neighbour\'s is decremented')
        if len(mine_w) == 0:
            probs.append('the neighbour\'s live degree is not decremented: degrees over-estimate, vertices that have become leaves are never discarded '
                         'and are emitted instead (a forest yields a non-empty set)')
        elif len(mine_w) > 1:
            probs.append('the neighbour\'s live degree is decremented at %d places' % len(mine_w))
        else:
            pc = guards_formula(cfg, mine_w[0], lambda leaf: m.live_atom(leaf, wv))
            atoms = ex.f_atoms(pc)
            other = [a for a in atoms if a != 'live']
            ok_live = True
            ok_dead = True
            for vals in itertools.product((False, True), repeat=len(other)):
                e = dict(zip(other, vals))
                if not ex.f_eval(pc, dict(e, live=True)):
                    # a loop-condition atom may legitimately be false; only atoms inside the body matter
                    body_atoms = [a for a in other if isinstance(a, tuple) and a[0] == 'opaque' and lp.body.is_ancestor_of(fn.nodes[a[1]])]
                    if all(e[a] for a in other if a not in body_atoms) and body_atoms:
                        ok_live = False
                if 'live' in atoms and ex.f_eval(pc, dict(e, live=False)):
                    ok_dead = False
            if 'live' not in atoms:
                probs.append('the decrement is not restricted to live neighbours: the degree of an already removed vertex wraps around / a live one is '
                             'decremented for a dead neighbour')
            elif not ok_dead:
                probs.append('the decrement also happens for a neighbour that is no longer live')
            elif not ok_live:
                probs.append('the decrement is skipped for some live neighbours (extra condition)')
        if probs:
            rep.violation('R13c', lp, fn, whatc, '; '.join(probs), key='R13c|%s|%s|line-shape' % (fn.g, V[xv]['name']))
        else:
            rep.ok('R13c', lp, fn, whatc, 'for w in out_edges(%s): if live(w): --degree[w]' % V[xv]['name'])
    # every vertex that is taken out (popped from the discard queue, or emitted) has its neighbours updated on every path
    takes = []
    for x in m.nodes:
        if x.k == 'CXXMemberCallExpr' and x.callee and x.callee['name'] in ('front', 'back', 'top') and ex.var_of(x.object_arg()) in (m.queue, m.heap):
            up = x.up()
            hops = 0
            while up is not None and up.k != 'VarDecl' and hops < 4:
                up = up.up()
                hops += 1
            if up is not None and up.k == 'VarDecl':
                takes.append((up, up.decl_id, 'discard queue' if ex.var_of(x.object_arg()) == m.queue else 'heap'))
    for (n, v, src) in takes:
        whatc2 = 'the vertex `%s` taken from the %s has the live degrees of its neighbours updated on every path of the iteration' % (V[v]['name'], src)
        cands = [lp for (lp, wv, rc) in nbr_loops if loop_vertex(lp)[0] == v and cfg.reaches(n, lp.cond if lp.cond is not None else lp)]
        if not cands:
            rep.violation('R13c', n, fn, whatc2, 'no loop over the out-edges of that vertex follows: its neighbours keep counting it as live, they are never '
                          'discarded as leaves and are emitted instead', key='R13c|%s|%s|no-update' % (fn.g, V[v]['name']))
            continue
        good = False
        outer = n.enclosing(*LOOPS)
        pn = cfg.pos_of(n)
        # paths that leave the iteration early because the vertex is no longer live do not count (nothing to update)
        for lp in cands:
            pl = cfg.pos_of(lp.cond) if lp.cond is not None else None
            if not (pl and pn):
                continue
            if cfg.block_postdominates(pl[0], pn[0]) or (outer is not None and post_dominates_within(cfg, pl[0], pn[0], outer)):
                good = True
            else:
                # allowed skip: `if (!exists[v]) continue;`  - evaluate the path condition of the loop with live := true
                pc = guards_formula(cfg, lp.cond, lambda leaf: m.live_atom(leaf, v))
                pc0 = guards_formula(cfg, n, lambda leaf: m.live_atom(leaf, v))
                atoms = sorted(set(ex.f_atoms(pc) + ex.f_atoms(pc0)), key=repr)
                other = [a for a in atoms if a != 'live']
                inner = [a for a in other if isinstance(a, tuple) and a[0] == 'opaque' and outer is not None and outer.body is not None and
                         outer.body.is_ancestor_of(fn.nodes[a[1]]) and not (lp.cond.is_ancestor_of(fn.nodes[a[1]]) or lp.cond.strip() is fn.nodes[a[1]])]
                if 'live' in atoms and not inner:
                    good = True
        if good:
            rep.ok('R13c', n, fn, whatc2, 'the neighbour loop is reached on every path (for a live vertex)')
        else:
            rep.violation('R13c', n, fn, whatc2, 'the neighbour update can be skipped', key='R13c|%s|%s|skippable' % (fn.g, V[v]['name']))
    # ------------------------------------------------------------------ R13d
    whatd = 'the emitted vertex comes from the heap and its liveness flag is cleared afterwards'
    outp = fn.param_ids[-1] if len(fn.param_ids) > 1 else None      # (g, out) or (g, index_map, out)
    emits = []
    for n in m.nodes:
        if n.k in ('BinaryOperator', 'CXXOperatorCallExpr') and n.op == '=':
            ops = n.c if n.k == 'BinaryOperator' else n.c[1:]
            if len(ops) == 2 and any(d.k == 'DeclRefExpr' and d.decl_id == outp for d in ops[0].walk()) and ex.var_of(ops[0]) != outp:
                emits.append((n, ex.var_of(ops[1])))
    # buffered emission: vertices are collected in a local sequence that is copied, whole and in order, to the output iterator at the end
    buffers = set()
    for n in m.nodes:
        if n.k == 'CallExpr' and n.callee and n.callee['g'] == 'std::copy' and len(n.args()) == 3 and ex.var_of(n.args()[2]) == outp:
            a0, a1 = n.args()[0].strip_all(), n.args()[1].strip_all()
            if a0.k == 'CXXMemberCallExpr' and a1.k == 'CXXMemberCallExpr' and a0.callee['name'] in ('begin', 'cbegin') and a1.callee['name'] in ('end', 'cend') and \
                    ex.var_of(a0.object_arg()) is not None and ex.var_of(a0.object_arg()) == ex.var_of(a1.object_arg()) and n.enclosing(*LOOPS) is None:
                buffers.add(ex.var_of(a0.object_arg()))
    for n in m.nodes:
        if n.k == 'CXXMemberCallExpr' and n.callee and n.callee['name'] in ('push_back', 'emplace_back') and ex.var_of(n.object_arg()) in buffers and n.args():
            emits.append((n, ex.var_of(n.args()[0])))
    # the output iterator is a value: handing it by value to a helper that writes through it and then using the stale copy again overwrites
    # the first emitted vertex for positional iterators (rule shared with C05: R05f)
    from . import approx

    class _F(list):
        def add(self, rule, node, fn_, what, status, detail='', key=None):
            self.append((rule, node, fn_, what, status, detail, key))
    F5 = _F()
    if outp is not None:
        approx.iterator_discipline_for(prog, F5, fn, [outp])
    helper_emits = False
    for (rule, node, fn_, what_, status, detail, key) in F5:
        rep.add('R05f', node, fn_, what_, status, detail, key=key)
        helper_emits = True
    if not emits and helper_emits:
        pass
    elif not emits:
        rep.undecided('R13d', fn.body, fn, whatd, 'no emission through the output iterator found')
    for (n, v) in emits:
        probs = []
        if v is None:
            rep.undecided('R13d', n, fn, whatd, 'emitted expression is not a variable')
            continue
        d = ex.unique_def(fn, v)
        dd = d.strip_all() if d is not None else None
        if not (dd is not None and dd.k == 'CXXMemberCallExpr' and dd.callee and dd.callee['name'] in ('top', 'front') and ex.var_of(dd.object_arg()) == m.heap):
            probs.append('the emitted vertex is not the top of the heap')
        pc = guards_formula(cfg, n, lambda leaf: m.live_atom(leaf, v))
        if 'live' not in ex.f_atoms(pc):
            # Not a violation: without the guard already discarded vertices are emitted as well (a superset, still a feedback vertex set) and
            # their live neighbours are decremented a second time; a failure needs the heap to prefer a discarded vertex among equal
            # priorities, which no execution in 300 000 random graphs showed - not a demonstrable necessary condition, so only recorded.
            rep.info('R13d', n, fn, 'emission is guarded by the liveness flag', 'no liveness guard in front of the emission (recorded, not required)')
        cleared = [x for (x, xv) in falses if xv == v and cfg.reaches(n, x)]
        outer = n.enclosing(*LOOPS)
        okc = False
        for x in cleared:
            px, pn = cfg.pos_of(x), cfg.pos_of(n)
            if px and pn and (px[0] == pn[0] or cfg.block_postdominates(px[0], pn[0]) or (outer is not None and post_dominates_within(cfg, px[0], pn[0], outer))):
                okc = True
        if not okc:
            probs.append('the liveness flag of the emitted vertex is not cleared on every path')
        if probs:
            rep.violation('R13d', n, fn, whatd, '; '.join(probs), key='R13d|%s|emit' % fn.g)
        else:
            rep.ok('R13d', n, fn, whatd, 'v = heap.top(); *out++ = v; exists[v] = false')
    # liveness never set again
    for (n, v) in trues:
        if init is not None and not init.is_ancestor_of(n):
            rep.undecided('R13d', n, fn, 'liveness is only ever set in the initialisation', 'a vertex is made live again after the initialisation: outside the idiom table')
    # ------------------------------------------------------------------ R13g: the vertex read from a queue is the one that is removed from it
    MATCH = {'front': ('pop_front', 'pop'), 'back': ('pop_back',), 'top': ('pop',)}
    for x in m.nodes:
        if x.k == 'CXXMemberCallExpr' and x.callee and x.callee['name'] in MATCH and ex.var_of(x.object_arg()) in (m.queue, m.heap):
            qv = ex.var_of(x.object_arg())
            px = cfg.pos_of(x)
            pops = [y for y in m.nodes if y.k == 'CXXMemberCallExpr' and y.callee and y.callee['name'] in ('pop_front', 'pop_back', 'pop') and ex.var_of(y.object_arg()) == qv
                    and cfg.pos_of(y) and px and cfg.pos_of(y)[0] == px[0]]
            whatg = 'the element read with %s() is the element removed from `%s`' % (x.callee['name'], V[qv]['name'])
            if not pops:
                rep.undecided('R13g', x, fn, whatg, 'no pop in the same block')
                continue
            if pops[0].callee['name'] in MATCH[x.callee['name']]:
                rep.ok('R13g', x, fn, whatg, '%s() / %s()' % (x.callee['name'], pops[0].callee['name']))
            else:
                rep.violation('R13g', x, fn, whatg, 'the loop reads %s() but removes with %s(): with two or more waiting vertices the same vertex is processed again (its '
                              'neighbours\' live degrees are decremented twice, a vertex with two live neighbours is discarded and a cycle survives) and another one is '
                              'dropped unprocessed' % (x.callee['name'], pops[0].callee['name']), key='R13g|%s|%s' % (fn.g, x.callee['name']))
    # ------------------------------------------------------------------ R13j: every vertex that survives the clean-up enters the heap
    whatj = 'every vertex still live after the clean-up is put on the heap (a live vertex has >= 2 live neighbours and may lie on a cycle)'
    for hp in [x for x in m.nodes if x.k == 'CXXMemberCallExpr' and x.callee and x.callee['name'] in ('push', 'emplace') and m.heap is not None and
               ex.var_of(x.object_arg()) == m.heap and x.args()]:
        lp = hp.enclosing(*LOOPS)
        if lp is None or any(lp.is_ancestor_of(n_) for (n_, _v) in emits):
            continue
        hv = ex.var_of(hp.args()[0])
        degleaves = {}

        def atomize_j(leaf):
            s_ = leaf.strip_all()
            la_ = m.live_atom(leaf, hv)
            if la_ is not None:
                return la_
            if s_.k == 'BinaryOperator' and s_.op in ('<', '<=', '>', '>=', '==', '!='):
                l, r, op = s_.c[0].strip_all(), s_.c[1].strip_all(), s_.op
                if l.cv is not None and r.cv is None:
                    l, r = r, l
                    op = {'<': '>', '>': '<', '<=': '>=', '>=': '<='}.get(op, op)

                def is_degree(e, depth=0):
                    e = e.strip_all()
                    if e.k == 'CallExpr' and e.callee and e.callee['g'] in ('boost::out_degree', 'boost::degree') and e.args() and ex.var_of(e.args()[0]) == hv:
                        return True
                    ta_ = m.table_access(e)
                    if ta_ and ta_[0] == m.degree_t and ta_[1] == hv:
                        return True
                    v_ = ex.var_of(e)
                    d_ = ex.unique_def(fn, v_) if v_ is not None and depth < 2 else None
                    return d_ is not None and is_degree(d_, depth + 1)
                if r.cv is not None and is_degree(l):
                    import operator
                    f_ = {'<': operator.lt, '<=': operator.le, '>': operator.gt, '>=': operator.ge, '==': operator.eq, '!=': operator.ne}[op]
                    c_ = r.cv
                    degleaves[('deg', leaf.i)] = lambda dg, f_=f_, c_=c_: f_(dg, c_)
                    return ex.f_atom(('deg', leaf.i))
            return None
        pc = guards_formula(fn.cfg, hp, atomize_j)
        atoms = ex.f_atoms(pc)
        def loop_header(a_):
            # the condition of an enclosing loop (`vi != viend`): true whenever the body runs
            if a_[0] != 'opaque':
                return False
            nd = fn.nodes[a_[1]]
            return any(l_.cond is not None and (l_.cond is nd or l_.cond.is_ancestor_of(nd)) for l_ in hp.ancestors() if l_.k in LOOPS)
        opaque = [a_ for a_ in atoms if isinstance(a_, tuple) and a_[0] in ('opaque', 'opaque-branch') and not loop_header(a_)]
        if opaque:
            rep.undecided('R13j', hp, fn, whatj, 'the push is guarded by `%s`, outside the idiom table' % (fn.nodes[opaque[0][1]].text(40) if opaque[0][0] == 'opaque' else 'a branch'))
            continue
        badd = None
        for dg in (2, 3, 4, 5, 9):
            envj = {'live': True}
            envj.update({a_: True for a_ in atoms if isinstance(a_, tuple) and a_[0] == 'opaque'})
            envj.update({a_: bool(t_(dg)) for a_, t_ in degleaves.items()})
            if not ex.f_eval(pc, {a_: envj.get(a_, False) for a_ in atoms}):
                badd = dg
                break
        if badd is not None:
            rep.violation('R13j', hp, fn, whatj, 'a live vertex of degree %d is not put on the heap: it is never emitted and never discarded, so a component in which every '
                          'vertex looks like that (a bare polygon for degree 2) keeps its cycle' % badd, key='R13j|%s|heap-fill' % fn.g)
        else:
            rep.ok('R13j', hp, fn, whatj, 'pushed for every live vertex (degrees 2, 3, 4, 5, 9)')
    # ------------------------------------------------------------------ R13e: the emission loop runs while anything can still lie on a cycle
    for (n, v) in emits:
        main = n.enclosing(*LOOPS)
        whate = 'the emission loop keeps running while the heap holds three or more entries (every vertex that is not discarded must be emitted)'
        if main is None or main.cond is None:
            rep.undecided('R13e', n, fn, whate, 'emission is not inside a loop with a condition')
            continue

        def size_leaf(leaf):
            s_ = leaf.strip_all()
            if s_.k == 'CXXMemberCallExpr' and s_.callee and s_.callee['name'] == 'empty' and ex.var_of(s_.object_arg()) == m.heap:
                return lambda sz: sz == 0
            if s_.k == 'BinaryOperator' and s_.op in ('<', '<=', '>', '>=', '==', '!='):
                l, r, op = s_.c[0].strip_all(), s_.c[1].strip_all(), s_.op
                if r.k == 'CXXMemberCallExpr':
                    l, r = r, l
                    op = {'<': '>', '>': '<', '<=': '>=', '>=': '<='}.get(op, op)
                if l.k == 'CXXMemberCallExpr' and l.callee and l.callee['name'] == 'size' and ex.var_of(l.object_arg()) == m.heap and r.cv is not None:
                    import operator
                    f_ = {'<': operator.lt, '<=': operator.le, '>': operator.gt, '>=': operator.ge, '==': operator.eq, '!=': operator.ne}[op]
                    c_ = r.cv
                    return lambda sz: f_(sz, c_)
            return None
        leaves = {}

        def atomize(leaf):
            t_ = size_leaf(leaf)
            if t_ is not None:
                leaves[('sz', leaf.i)] = t_
                return ex.f_atom(('sz', leaf.i))
            return None
        f = ex.formula(main.cond, atomize)
        if f is None or not leaves:
            rep.undecided('R13e', main, fn, whate, 'loop condition `%s` is not a test of the heap size' % main.cond.text(40))
            continue
        bad = None
        for sz in (3, 4, 7, 50):
            if not ex.f_eval(f, {a: bool(t_(sz)) for a, t_ in leaves.items()}):
                bad = sz
                break
        if bad is not None:
            rep.violation('R13e', main, fn, whate, 'the loop stops with %d entries still in the heap: if they are live they form an uncut cycle (a triangle for 3)' % bad,
                          key='R13e|%s|stops-early' % fn.g)
        else:
            rep.ok('R13e', main, fn, whate, 'condition `%s` holds for heap sizes 3, 4, 7, 50' % main.cond.text(30))
        # ---------------------------------------------------------------- R13f: no exit between the phases
        nvars = set()
        for d in m.nodes:
            if d.k == 'VarDecl' and d.c:
                r_ = d.c[0].strip_all()
                if r_.k == 'CallExpr' and r_.callee and r_.callee['g'] == 'boost::num_vertices':
                    nvars.add(d.decl_id)
        for r in ex.returns_of(fn):
            if main.is_ancestor_of(r):
                continue
            whatf = 'the function leaves before its emission loop only when no vertex can be left on a cycle'
            conds = ex.ast_conditions(r)
            if not conds:
                continue
            counter = None
            for (c_, pol) in conds:
                for leaf in [c_.strip_all()] + list(c_.walk()):
                    if leaf.k == 'BinaryOperator' and leaf.op in ('==', '>=', '<=', '!=') and {ex.var_of(leaf.c[0]), ex.var_of(leaf.c[1])} & nvars:
                        other = [x for x in (ex.var_of(leaf.c[0]), ex.var_of(leaf.c[1])) if x is not None and x not in nvars]
                        if other:
                            incs = [x for x in m.nodes if x.k in ('UnaryOperator', 'CompoundAssignOperator') and x.op in ('++', '+=') and ex.var_of(x.c[0]) == other[0]]
                            lp_ = [x.enclosing(*LOOPS) for x in incs]
                            pops_in = [lp for lp in lp_ if lp is not None and any(
                                y.k == 'CXXMemberCallExpr' and y.callee and y.callee['name'] in ('pop_front', 'pop_back', 'pop') and ex.var_of(y.object_arg()) == m.queue
                                for y in lp.walk())]
                            if incs and pops_in:
                                counter = other[0]
            if counter is not None:
                rep.violation('R13f', r, fn, whatf,
                              'the early return compares `%s`, which counts pops of the discard queue, with the number of vertices; a vertex can be queued twice '
                              '(when its live degree becomes 1 and again when it becomes 0), so the count reaches n while live vertices - a whole cycle - remain' % V[counter]['name'],
                              key='R13f|%s|pop-counter' % fn.g)
            else:
                # the guard as a function of the graph's shape: a simple graph with n vertices and m edges can hold a cycle iff n >= 3 and
                # 3 <= m <= n(n-1)/2 (a triangle plus isolated vertices / pendant edges); a return taken for such a shape emits nothing for it
                defs = {d.decl_id: d.c[0] for d in fn.walk() if d.k == 'VarDecl' and d.c and len(ex.assignments_to(fn, d.decl_id)) == 1}
                bad = unknown = None
                for n_ in range(0, 8):
                    for m_ in range(0, n_ * (n_ - 1) // 2 + 1):
                        def bind(s_, m_=m_, n_=n_):
                            if s_.k == 'CallExpr' and s_.callee:
                                return {'boost::num_edges': m_, 'boost::num_vertices': n_}.get(s_.callee['g'])
                            return None
                        try:
                            holds = all(bool(ex.ceval(c_, bind, defs)) == pol for (c_, pol) in conds)
                        except ex.Unknown as e_:
                            unknown = str(e_)
                            break
                        if holds and n_ >= 3 and m_ >= 3:
                            bad = (n_, m_)
                            break
                    if bad or unknown:
                        break
                if unknown:
                    rep.undecided('R13f', r, fn, whatf, 'early return under `%s`: not in the idiom table (%s)' % (conds[0][0].text(40), unknown[:60]))
                elif bad:
                    rep.violation('R13f', r, fn, whatf, 'the early return under `%s` is taken for a graph with %d vertices and %d edges, e.g. a triangle next to %d further '
                                  'vertices joined by %d more edges: it has a cycle and nothing is emitted for it' % (
                                      conds[0][0].text(40), bad[0], bad[1], bad[0] - 3, bad[1] - 3), key='R13f|%s|shape' % fn.g)
                else:
                    rep.ok('R13f', r, fn, whatf, 'guard `%s` holds for no graph shape (n <= 7) that admits a cycle' % conds[0][0].text(40))
    return nsib


COUNT_CALLS = ('boost::out_degree', 'boost::in_degree', 'boost::degree', 'boost::num_vertices', 'boost::num_edges')
_WIDTH = {'unsigned char': 8, 'signed char': 8, 'char': 8, 'unsigned short': 16, 'short': 16, 'unsigned int': 32, 'int': 32,
          'unsigned long': 64, 'long': 64, 'unsigned long long': 64, 'long long': 64}


def _width(prog, t):
    ty = prog.base_type(t) if t is not None else None
    c = ((ty or {}).get('canon') or (ty or {}).get('s') or '').replace('const ', '').strip()
    return _WIDTH.get(c)


def check_count_width(rep, prog, fn):
    """R13h: degrees and vertex counts are kept in a type as wide as the one the graph reports them in: a table of 16-bit residual degrees
    makes a hub of degree 65536 look isolated (it is discarded in the initial clean-up, every cycle through it survives)"""
    what = 'degrees / counts read from the graph are stored without narrowing'
    fns = [fn] + [prog.fn_of_fref(op) for x in fn.walk() if x.k == 'LambdaExpr' for op in x.j.get('lambda_ops', ())]
    n = 0
    for f in [f_ for f_ in fns if f_ is not None and f_.body is not None]:
        for x in f.walk():
            if x.k != 'ImplicitCastExpr' or x.j.get('ck') != 'IntegralCast' or not x.c:
                continue
            src = x.c[0].strip_all()
            origin = src
            v = ex.var_of(src)
            if v is not None and ex.unique_def(f, v) is not None:
                origin = ex.unique_def(f, v).strip_all()
            if not (origin.k == 'CallExpr' and origin.callee and origin.callee['g'] in COUNT_CALLS):
                continue
            n += 1
            wt, wf = _width(prog, x.j.get('t')), _width(prog, x.c[0].strip().j.get('t'))
            if wt is not None and wf is not None and wt < wf:
                rep.violation('R13h', x, f, what, '`%s` (%d-bit, from %s) is converted to a %d-bit integer at line %d: a vertex of degree 2^%d is taken for an isolated one' % (
                    src.text(30), wf, origin.callee['name'], wt, x.line, wt), key='R13h|%s|%d' % (fn.g, wt))
            else:
                rep.ok('R13h', x, f, what)
    # element type of the tables the counts are stored in (assignment through operator[] of a vector has no cast node: the narrowing
    # happens in the assignment to the element reference)
    for f in [f_ for f_ in fns if f_ is not None and f_.body is not None]:
        for x in f.walk():
            if x.k == 'BinaryOperator' and x.op == '=' and len(x.c) == 2:
                rhs = x.c[1].strip_all()
                origin = rhs
                v = ex.var_of(rhs)
                if v is not None and ex.unique_def(f, v) is not None:
                    origin = ex.unique_def(f, v).strip_all()
                if origin.k == 'CallExpr' and origin.callee and origin.callee['g'] in COUNT_CALLS:
                    n += 1
                    wt, wf = _width(prog, x.c[0].j.get('t')), _width(prog, origin.j.get('t'))
                    if wt is not None and wf is not None and wt < wf:
                        rep.violation('R13h', x, f, what, '`%s` stores the %d-bit result of %s in a %d-bit element: a vertex of degree 2^%d is taken for an isolated one' % (
                            x.text(40), wf, origin.callee['name'], wt, wt), key='R13h|%s|%d' % (fn.g, wt))
                    elif wt is not None:
                        rep.ok('R13h', x, f, what, '%d-bit element' % wt)
    return n


def check_no_vertex_sentinel(rep, prog, fn):
    """R13i: a default-constructed vertex descriptor is not used as "no vertex": for vecS graphs `Vertex()` is vertex 0, a real vertex
    (boost::graph_traits<G>::null_vertex() is the sentinel).  Witness: a vertex variable whose only initialisation is the
    value-initialised descriptor is compared with another vertex on a path on which it has not been assigned."""
    what = 'a value-initialised vertex descriptor (vertex 0) is not compared with real vertices as a "none yet" marker'
    fns = [fn] + [prog.fn_of_fref(op) for x in fn.walk() if x.k == 'LambdaExpr' for op in x.j.get('lambda_ops', ())]
    fns = [f_ for f_ in fns if f_ is not None and f_.body is not None]
    n = 0
    for d in fn.walk():
        if d.k != 'VarDecl' or not d.c:
            continue
        ty = prog.type(prog.vars[d.decl_id].get('ty')) or {}
        if 'ertex' not in (ty.get('s') or ''):
            continue
        ini = d.c[0].strip_all()
        is_default = ini.k == 'CXXScalarValueInitExpr' or (ini.k in ('IntegerLiteral',) and ini.cv == 0) or \
            (ini.k in ('CXXFunctionalCastExpr', 'CXXTemporaryObjectExpr', 'CXXConstructExpr') and not [c_ for c_ in ini.c if c_.strip_all().cv not in (None, 0) or c_.strip_all().k not in ('IntegerLiteral', 'InitListExpr')] and
             all(not c_.c or c_.strip_all().cv == 0 for c_ in ini.c))
        if not is_default:
            continue
        v = d.decl_id
        for f in fns:
            asg = [a_ for (a_, _r) in ex.assignments_to(f, v) if a_.k != 'VarDecl']
            for x in f.walk():
                if x.k == 'BinaryOperator' and x.op in ('==', '!=') and v in (ex.var_of(x.c[0]), ex.var_of(x.c[1])):
                    other = x.c[1] if ex.var_of(x.c[0]) == v else x.c[0]
                    ot = prog.type(other.strip_all().j.get('t')) or {}
                    n += 1
                    if any(f.cfg is not None and f.cfg.dominates(a_, x) for a_ in asg):
                        rep.ok('R13i', x, f, what, 'assigned before the comparison')
                        continue
                    if f is fn and any(fn.cfg.dominates(a_, x) for (a_, _r) in ex.assignments_to(fn, v) if a_.k != 'VarDecl'):
                        rep.ok('R13i', x, f, what, 'assigned before the comparison')
                        continue
                    # a separate flag in the same condition may say whether the variable holds a vertex yet
                    cond = x
                    while cond.parent is not None and cond.parent.k in ('BinaryOperator', 'ParenExpr', 'UnaryOperator', 'ImplicitCastExpr') and \
                            (cond.parent.k != 'BinaryOperator' or cond.parent.op in ('&&', '||')):
                        cond = cond.parent
                    flags = [y for y in cond.walk() if y.k == 'DeclRefExpr' and y.decl_id != v and ((prog.type(y.j.get('t')) or {}).get('canon') or '') == 'bool']
                    if flags:
                        rep.undecided('R13i', x, f, what, 'the comparison is combined with the flag `%s`' % flags[0].text(20))
                        continue
                    rep.violation('R13i', x, f, what, '`%s` is initialised with the value-initialised descriptor (line %d) and compared with `%s` before anything is assigned to it: '
                                  'for a vecS graph that value is vertex 0, so vertex 0 is treated as "already seen"' % (
                                      prog.vars[v]['name'], d.line, other.text(20)), key='R13i|%s|%s' % (fn.g, prog.vars[v]['name']))
    return n


def run(rep, tier):
    rep.rule('R07u', 'no front() / *max_element over a table that is empty for the graph without vertices', floor=0)
    rep.rule('R13h', 'degrees and counts are stored as wide as the graph reports them', floor=1)
    rep.rule('R13i', 'no value-initialised vertex descriptor serves as a "no vertex" marker', floor=0)
    rep.rule('R05f', 'the output iterator is not reused after being passed by value to a helper that writes through it', floor=0)
    rep.rule('R13g', 'the vertex read from the discard queue / heap is the one removed from it', floor=3)
    rep.rule('R13e', 'the emission loop does not stop while three or more heap entries remain', floor=1)
    rep.rule('R13f', 'no early exit between the clean-up and the emission loop', floor=0)
    rep.rule('R13j', 'every vertex live after the clean-up enters the heap', floor=1)
    rep.rule('R13a', 'initialisation of liveness and live degree', floor=1)
    rep.rule('R13b', 'discard threshold: queued iff live degree <= 1', floor=4)
    rep.rule('R13c', 'neighbour updates after every removal (three sibling loops)', floor=6)
    rep.rule('R13d', 'the emitted vertex is the heap top and its flag is cleared', floor=1)
    tus = [env.witness_tu()]
    if tier == 'thorough':
        tus += [t for t in env.repo_tus() if 'fvs' in os.path.basename(t) or 'mcb' in os.path.basename(t)]
    progs = env.extract(tus, 'full')
    rep.saw_programs(progs.values())
    n = 0
    from . import c07
    rep.rule('R07g', 'greedy_fvs keeps no function-local static state (two overlapping calls must not share the liveness / degree tables)', floor=0)
    for prog in progs.values():
        for fn in prog.fns(FN):
            if is_forwarder(fn):
                continue        # judged through the overload it forwards to
            n += 1
            check(rep, prog, fn)
            check_count_width(rep, prog, fn)
            check_no_vertex_sentinel(rep, prog, fn)
        c07.r07g(rep, prog, only_files=('fvs.hpp',))
        c07.r07u(rep, prog, only_files=('fvs.hpp',))
    if n == 0:
        rep.analysis_broken('parmcb::greedy_fvs is not instantiated (anchor vanished)')
    pos7 = os.path.join(env.WITNESS, 'positive', 'c07_shapes.cc')
    pp7 = env.extract([pos7], 'full')[pos7]
    prep7 = type(rep)(rep.prop, rep.tier)
    c07.r07g(prep7, pp7)
    rep.positive('R07g', 'witness/positive/c07_shapes.cc', any(i.status == 'violation' for i in prep7.instances.values()))
    pos = os.path.join(env.WITNESS, 'positive', 'c13_fvs.cc')
    try:
        pp = env.extract([pos], 'full', ('first:-I' + os.path.join(env.WITNESS, 'positive', 'broken_include5'),))[pos]
        prep = type(rep)(rep.prop, rep.tier)
        for fn in pp.fns(FN):
            check(prep, pp, fn)
        for r in ('R13a', 'R13b', 'R13c', 'R13d', 'R13e', 'R13f', 'R13g'):
            rep.positive(r, 'witness/positive/c13_fvs.cc', any(i.status == 'violation' and i.rule == r for i in prep.instances.values()))
    except env.AnalysisBroken as e:
        rep.analysis_broken('positive example c13_fvs.cc does not parse: ' + str(e)[:300])
    rep.assume('simple graph (no self-loops, no parallel edges): out_degree(v) is the number of distinct neighbours and each neighbour appears once in out_edges(v)')
    rep.assume('pen-and-paper argument (module docstring): with R13a-d the degree table equals the live degree whenever it is tested, so every discarded vertex '
               'has at most one live neighbour and G - FVS is acyclic; every vertex that is not discarded is emitted exactly once')
    rep.note('NOT claimed: acyclicity as a value-level fact for a concrete run, the size of the set, heap order and the priority bookkeeping')
