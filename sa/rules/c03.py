"""C03 - TBB-parallel entry points keep their contract under every schedule.

Claimed: race-freedom of every task body and the reduction contract (identity / join / fold).  Functional equivalence
with the sequential algorithm beyond that inherits the limits of C01/C02.
R03a  every write of a parallel task body is W-local, W-concurrent or W-own-index; no static-storage write in callees (A6)
R03b  parallel_reduce: identity is "not found" (or the neutral element of the named join), join is a minimum (A3)
R03c  the reduce body returns its accumulator parameter and only updates it under the min-update contract
R03d  containers appended to inside a parallel_for are only read after it returned
R03e  the work for one index does not depend on the sub-range it was scheduled in (no loop-carried local state besides the
      accumulator) nor on a shared atomic read in the body
"""
import os

from lib import env, ex, par
from . import minsel

TITLE = 'C03: effect analysis of every tbb task body (shared writes, access paths, own-index proof) and truth tables of reduction joins/bodies.'


def range_bounds(call):
    rng = call.args()[0].strip_all() if call.args() else None
    if rng is not None and rng.k in ex.CTOR_KINDS and len(rng.c) >= 2:
        return rng.c[0], rng.c[1]
    return None, None


def check_body(rep, prog, eff, fn, call, lam_fn, role):
    """R03a on one task body"""
    ivs, rparam = par.induction_vars(lam_fn, call)
    lo, hi = range_bounds(call)
    writes = eff.writes(lam_fn)
    site_what = 'task body of %s (%s) makes no conflicting unsynchronised write' % (call.callee['name'], role)
    problems = []
    classes = []
    written_roots = {}
    for (node, target, how) in writes:
        root, idx, names = par.access_path(target)
        if root is None:
            # writes through temporaries / call results: local
            classes.append('W-local')
            continue
        v = prog.vars[root]
        if not par.is_shared(prog, lam_fn, root):
            classes.append('W-local')
            continue
        rec = par.rec_of(prog, target) if not idx else ''
        # type of the root container
        rt = prog.base_type(v['ty']) or {}
        rrec = rt.get('rec') or ''
        if how.startswith('method:') and not idx and rrec.startswith('tbb::') and 'concurrent' in rrec and \
                how.split(':', 1)[1] in par.CONCURRENT_GROWTH:
            classes.append('W-concurrent')
            written_roots.setdefault(root, []).append(('grow', node))
            continue
        if (rt.get('rec') or '') in ('std::atomic', 'std::atomic_flag') and not idx:
            classes.append('W-atomic')
            continue
        if v['kind'] in ('static_local', 'global', 'static_member'):
            problems.append(('static', node, 'writes static-storage variable %s' % v['name']))
            continue
        if idx and ex.var_of(idx[-1]) in ivs and len(idx) == 1:
            classes.append('W-own-index')
            written_roots.setdefault(root, []).append(('own', node))
            continue
        problems.append(('shared', node, '`%s` writes shared %s %s (%s) without synchronisation' % (
            node.text(60), v['kind'], v['name'], how)))
    # other accesses to containers written by own index
    for root, evs in written_roots.items():
        if not any(e[0] == 'own' for e in evs):
            continue
        v = prog.vars[root]
        for d in lam_fn.walk():
            if d.k in ('DeclRefExpr', 'MemberExpr') and d.decl_id == root:
                # climb to the maximal access path containing d
                top = d
                p = d.up()
                while p is not None and ((p.k == 'CXXOperatorCallExpr' and p.op == '[]' and p.c[1].strip_all() is top.strip_all()) or
                                         (p.k == 'MemberExpr' and p.c and p.c[0].strip_all() is top.strip_all()) or
                                         (p.k == 'CXXMemberCallExpr' and p.object_arg() is not None and p.object_arg().strip_all() is top.strip_all()
                                          and p.callee['name'] in par.ELEMENT_ACCESSORS)):
                    top = p
                    p = p.up()
                    if top.k == 'CXXOperatorCallExpr' or (top.k == 'CXXMemberCallExpr' and top.callee['name'] == 'at'):
                        break
                r2, idx2, _n = par.access_path(top)
                if not idx2:
                    problems.append(('shared', d, '%s is accessed as a whole (`%s`) while its elements are written by other tasks' % (
                        v['name'], top.text(40))))
                    continue
                j = idx2[-1]
                if ex.var_of(j) in ivs:
                    continue
                # foreign index: must be provably outside the whole parallel range
                if lo is None:
                    problems.append(('shared', d, 'foreign index `%s` and unknown range' % j.text(30)))
                    continue
                Lj = ex.lin(j)
                dlo = ex.lin(lo).add(Lj, -1)
                dhi = Lj.add(ex.lin(hi), -1)
                if (dlo.is_const() and dlo.const >= 1) or (dhi.is_const() and dhi.const >= 0):
                    classes.append('R-foreign-outside')
                else:
                    problems.append(('shared', d, '%s[%s] is read while other tasks write %s[i] for i in [%s, %s): index not provably outside the range' % (
                        v['name'], j.text(20), v['name'], lo.text(20), hi.text(20))))
    # R03e: schedule independence of the per-index work
    check_schedule_independence(rep, prog, eff, fn, call, lam_fn, role)
    # static writes in transitive callees
    for (node, g, root) in eff.static_writes(lam_fn):
        if g is lam_fn:
            continue
        problems.append(('static', node, 'callee %s writes static-storage variable %s' % (g.g, prog.vars[root]['name'])))
    if problems:
        kind, node, msg = problems[0]
        rep.violation('R03a', node, fn, site_what, '; '.join(sorted(set(p[2] for p in problems))),
                      key='R03a|%s|%s|%s' % (fn.g, call.callee['name'], kind))
    else:
        from collections import Counter
        cnt = Counter(classes)
        rep.ok('R03a', call, fn, site_what, ', '.join('%d %s' % (n, c) for c, n in sorted(cnt.items())) or 'no writes at all',
               trivial=not classes)


def check_schedule_independence(rep, prog, eff, fn, call, lam_fn, role):
    """R03e: what a task computes for index i must not depend on which other indices the same task happened to process:
    (1) no local declared in the body before the loop over its range is modified inside that loop, other than the accumulator
    parameter and the induction variable; (2) the body does not read a shared std::atomic (its value depends on inter-task timing)"""
    if role not in ('body',) or lam_fn.body is None:
        return
    ivs, rparam = par.induction_vars(lam_fn, call)
    acc = lam_fn.param_ids[1] if call.callee['name'] == 'parallel_reduce' and len(lam_fn.param_ids) > 1 else None
    loops = [x for x in lam_fn.body.c if x.k in ('ForStmt', 'WhileStmt')]
    what = 'the work done for one index does not depend on the other indices handled by the same task or on inter-task timing'
    problems = []
    for lp in loops:
        if not (lp.cond is not None and (ex.vars_in(lp.cond) & (ivs | ({rparam} if rparam is not None else set())))):
            continue
        for (node, target, how) in eff.writes(lam_fn):
            if not lp.body.is_ancestor_of(node):
                continue
            root, idx, names = par.access_path(target)
            if root is None or root in ivs or root == acc:
                continue
            v = prog.vars[root]
            if v.get('fn') != lam_fn.fref_id or v['kind'] not in ('local',):
                continue
            decl = [d for d in lam_fn.walk() if d.k == 'VarDecl' and d.decl_id == root]
            # a carried variable matters only if its value is read inside the loop by something else than its own update
            reads = [d for d in lp.body.walk() if d.k == 'DeclRefExpr' and d.decl_id == root and not node.is_ancestor_of(d) and
                     not any(w[0].is_ancestor_of(d) and par.access_path(w[1])[0] == root for w in eff.writes(lam_fn) if lp.body.is_ancestor_of(w[0]))]
            if decl and not lp.is_ancestor_of(decl[0]) and reads:
                problems.append((node, 'local `%s` is declared before the loop over the sub-range and modified inside it (`%s`): its value at index i '
                                 'depends on where the sub-range started, i.e. on how the runtime split the range' % (v['name'], node.text(40))))
    for d in lam_fn.walk():
        if d.k == 'DeclRefExpr' and d.decl_id is not None and par.is_shared(prog, lam_fn, d.decl_id):
            t = prog.base_type(prog.vars[d.decl_id]['ty']) or {}
            if (t.get('rec') or '') in ('std::atomic', 'std::atomic_flag'):
                up = d.up()
                is_write = up is not None and ((up.k in ('BinaryOperator', 'CXXOperatorCallExpr') and up.op == '=') or
                                               (up.k == 'MemberExpr' and up.fnref and up.fnref['name'] in ('store', 'fetch_add', 'fetch_or', 'exchange', 'operator=', 'operator++')))
                if not is_write:
                    problems.append((d, 'the body reads the shared atomic `%s`: whether it is set depends on which other tasks have already run' % prog.vars[d.decl_id]['name']))
    if problems:
        rep.violation('R03e', problems[0][0], fn, what, '; '.join(sorted(set(p[1] for p in problems))), key='R03e|%s|%s' % (fn.g, call.callee['name']))
    else:
        rep.ok('R03e', call, fn, what, trivial=not loops)


def check_reduce(rep, prog, fn, call):
    args = call.args()
    if len(args) < 4:
        rep.undecided('R03b', call, fn, 'parallel_reduce in functional form (range, identity, body, join)', 'unexpected arity %d' % len(args))
        return
    ident, body, join = args[1], args[2], args[3]
    what_id = 'reduction identity is the neutral element of the join'
    what_join = 'reduction join is a minimum that treats "not found" as identity'
    joins, jnode = par.lambda_functions(prog, join)
    jt = prog.base_type(join.strip_all().j.get('t')) or {}
    if (jt.get('rec') or '') == 'std::plus':
        i = ident.strip_all()
        zero = (i.k in ('CXXScalarValueInitExpr', 'CXXTemporaryObjectExpr', 'CXXFunctionalCastExpr') and not i.c) or i.cv == 0 or \
               (i.k == 'FloatingLiteral' and i.value == 0.0)
        if zero:
            rep.ok('R03b', ident, fn, what_id, 'T() with std::plus<T>')
        else:
            rep.violation('R03b', ident, fn, what_id, 'identity of a std::plus reduction is `%s`, not zero' % ident.text(30),
                          key='R03b|%s|plus-identity' % fn.g)
        rep.ok('R03b', join, fn, what_join, 'std::plus<T> (sum reduction)')
        # body: returns accumulate(r.begin(), r.end(), init)
        for bf in par.lambda_functions(prog, body)[0]:
            ok = False
            for r in ex.returns_of(bf):
                s = r.c[0].strip_all() if r.c else None
                if s is not None and s.k == 'CallExpr' and s.callee and s.callee['g'] == 'std::accumulate' and len(s.args()) >= 3 and \
                        len(bf.param_ids) >= 2 and ex.var_of(s.args()[2]) == bf.param_ids[1]:
                    ok = True
            if ok:
                rep.ok('R03c', body, fn, 'reduce body folds its sub-range onto the accumulator it was given', 'std::accumulate(r.begin(), r.end(), init)')
            else:
                rep.undecided('R03c', body, fn, 'reduce body folds its sub-range onto the accumulator it was given', 'sum body not in the idiom table')
        return
    # minimum reductions over (cycle, weight, found)
    i = ident.strip_all()
    found_false = None
    if i.k == 'CallExpr' and i.callee and i.callee['g'] in ('std::make_tuple',) and len(i.args()) == 3:
        found_false = (i.args()[2].strip_all().cv == 0)
    elif i.k in ex.CTOR_KINDS and len(i.c) == 3:
        found_false = (i.c[2].strip_all().cv == 0)
    if found_false is True:
        rep.ok('R03b', ident, fn, what_id, 'found component is the literal false')
    elif found_false is False:
        rep.violation('R03b', ident, fn, what_id, 'the identity claims to be a found cycle', key='R03b|%s|identity' % fn.g)
    else:
        rep.undecided('R03b', ident, fn, what_id, 'identity `%s` not in the idiom table' % ident.text(40))
    if not joins:
        rep.undecided('R03b', join, fn, what_join, 'join functor body not found')
    for jf in joins:
        verdict, detail = minsel.join_table(jf)
        if verdict == 'ok':
            rep.ok('R03b', jnode, fn, what_join, detail)
        elif verdict == 'violation':
            rep.violation('R03b', jnode, fn, what_join, detail, key='R03b|%s|join' % fn.g)
        else:
            rep.undecided('R03b', jnode, fn, what_join, detail)
    # R03c body
    bodies, bnode = par.lambda_functions(prog, body)
    what_c = 'reduce body returns its accumulator parameter, updated only under the min-update contract'
    for bf in bodies:
        if len(bf.param_ids) < 2:
            rep.undecided('R03c', bnode, fn, what_c, 'body does not take (range, accumulator)')
            continue
        acc = bf.param_ids[1]
        bad_ret = [r for r in ex.returns_of(bf) if not (r.c and ex.var_of(r.c[0]) == acc)]
        if bad_ret:
            rep.violation('R03c', bad_ret[0], fn, what_c,
                          '`%s` does not return the accumulator it was given: partial results of earlier sub-ranges are dropped' % bad_ret[0].text(40),
                          key='R03c|%s|return' % fn.g)
            continue
        assigns = [(d, rhs) for (d, rhs) in ex.assignments_to(bf, acc) if d.k != 'VarDecl']
        allok = True
        for (d, rhs) in assigns:
            x = ex.var_of(rhs) if rhs is not None else None
            if x is None:
                rep.undecided('R03c', d, fn, what_c, 'accumulator assigned from a non-variable expression')
                allok = False
                continue
            verdict, detail = minsel.min_update_contract(bf, d, acc, x)
            if verdict == 'violation':
                rep.violation('R03c', d, fn, what_c, detail, key='R03c|%s|update' % fn.g)
                allok = False
            elif verdict == 'undecided':
                rep.undecided('R03c', d, fn, what_c, detail)
                allok = False
        if allok:
            rep.ok('R03c', bnode, fn, what_c, '%d update site(s) satisfy the contract; every return returns the accumulator' % len(assigns))


def check_program(rep, prog):
    eff = par.Effects(prog)
    nsites = 0
    for fn in prog.functions:
        if not (fn.file.startswith(env.REPO + '/include') or fn.file.startswith(env.WITNESS + '/positive')):
            continue
        for call in fn.walk():
            if not par.is_parallel_call(call):
                continue
            nsites += 1
            name = call.callee['name']
            functor_args = call.args()[1:] if name != 'parallel_invoke' else call.args()
            for ix, a in enumerate(functor_args):
                fs, lnode = par.lambda_functions(prog, a)
                role = 'body'
                if name == 'parallel_reduce':
                    role = {0: 'identity', 1: 'body', 2: 'join'}.get(ix, 'arg')
                    if ix == 0:
                        continue
                for lf in fs:
                    check_body(rep, prog, eff, fn, call, lf, role)
            if name == 'parallel_reduce':
                check_reduce(rep, prog, fn, call)
            if name == 'parallel_for':
                check_after(rep, prog, fn, call)
    return nsites


def check_after(rep, prog, fn, call):
    """R03d: concurrent containers grown in the body are read only after the parallel_for returned"""
    cfg = fn.cfg
    for a in call.args()[1:]:
        fs, lnode = par.lambda_functions(prog, a)
        grown = set()
        for lf in fs:
            for (node, target, how) in par.Effects(prog).writes(lf):
                root, idx, names = par.access_path(target)
                if root is not None and how.startswith('method:') and how.split(':')[1] in par.CONCURRENT_GROWTH and \
                        par.is_shared(prog, lf, root):
                    grown.add(root)
        for root in grown:
            v = prog.vars[root]
            if v['kind'] not in ('local',):
                continue
            what = 'concurrent container %s is read only after the parallel_for that fills it has returned' % v['name']
            bad = []
            for d in fn.walk():
                if d.k == 'DeclRefExpr' and d.decl_id == root and not lnode.is_ancestor_of(d):
                    if d.enclosing('VarDecl') is not None and d.enclosing('VarDecl').decl_id == root:
                        continue
                    if not cfg.reaches(call, d) or cfg.reaches(d, call):
                        up_ = d.up()
                        if up_ is not None and up_.k == 'MemberExpr' and up_.fnref and up_.fnref['name'] in ('reserve', 'clear', 'shrink_to_fit') and \
                                cfg.reaches(d, call) and not cfg.reaches(call, d):
                            continue        # capacity set up by the calling thread before any task exists
                        bad.append(d)
            # reads inside the body
            for lf in fs:
                for d in lf.walk():
                    if d.k == 'DeclRefExpr' and d.decl_id == root:
                        up = d.up()
                        if not (up is not None and up.k == 'MemberExpr' and up.fnref and up.fnref['name'] in par.CONCURRENT_GROWTH):
                            bad.append(d)
            if bad:
                rep.violation('R03d', bad[0], fn, what, '`%s` at line %d may run concurrently with (or before) the growth' % (bad[0].text(30), bad[0].line),
                              key='R03d|%s|%s' % (fn.g, v['name']))
            else:
                rep.ok('R03d', call, fn, what)
            # R03f: the elements sit in completion order (whichever task pushed first), not in index order: a later loop must not pair them by
            # position with an index-ordered sequence (another container walked in step, or indexed with the same counter)
            whatf = 'the elements of %s (completion order) are not paired by position with another sequence' % v['name']
            for lp in fn.walk():
                if lp.k not in ('CXXForRangeStmt', 'ForStmt', 'WhileStmt') or lnode.is_ancestor_of(lp) or not cfg.reaches(call, lp):
                    continue
                hdr = lp.role('range') if lp.k == 'CXXForRangeStmt' else (lp.role('init') if lp.k == 'ForStmt' else lp.cond)
                if hdr is None or not any(x.k == 'DeclRefExpr' and x.decl_id == root for x in hdr.walk()):
                    if not (lp.k == 'ForStmt' and lp.cond is not None and any(x.k == 'DeclRefExpr' and x.decl_id == root for x in lp.cond.walk())):
                        continue
                body = lp.body if getattr(lp, 'body', None) is not None else lp
                own = set()
                for part in (lp.role('init') if lp.k == 'ForStmt' else None, lp.role('loopvar') if lp.k == 'CXXForRangeStmt' else None):
                    if part is not None:
                        own |= {x.decl_id for x in part.walk() if x.k == 'VarDecl'}
                        own |= {ex.var_of(x.c[0]) for x in part.walk() if x.k == 'BinaryOperator' and x.op == '=' and x.c}
                paired = None
                for x in body.walk():
                    # another sequence walked in step: an iterator that is not the loop's own is advanced / an index of the loop addresses another container
                    if x.k in ('UnaryOperator', 'CXXOperatorCallExpr') and x.op in ('++', '--'):
                        iv = ex.var_of(x.c[-1] if x.k == 'UnaryOperator' else x.c[1])
                        if iv is not None and iv not in own and prog.vars[iv].get('kind') == 'local':
                            d0 = [rhs for (dn, rhs) in ex.assignments_to(fn, iv) if dn.k == 'VarDecl' and rhs is not None]
                            src = d0[0].strip_all() if d0 else None
                            if src is not None and src.k == 'CXXMemberCallExpr' and src.callee and src.callee['name'] in ('begin', 'cbegin') and \
                                    src.object_arg() is not None and ex.var_of(src.object_arg()) not in (None, root):
                                paired = (x, prog.vars[ex.var_of(src.object_arg())]['name'])
                    if x.k == 'CXXOperatorCallExpr' and x.op == '[]' and len(x.c) == 3 and ex.var_of(x.c[2]) in own and \
                            ex.var_of(x.c[1]) not in (None, root) and lp.k == 'ForStmt':
                        paired = (x, prog.vars[ex.var_of(x.c[1])]['name'])
                if paired:
                    rep.violation('R03f', paired[0], fn, whatf, 'the loop at line %d walks `%s` and `%s` in step (`%s`): element j of the concurrently filled container belongs to '
                                  'whichever task finished j-th, not to index j - with more than one worker the pieces are combined with the wrong partner' % (
                                      lp.line, v['name'], paired[1], paired[0].text(30)), key='R03f|%s|%s' % (fn.g, v['name']))
                else:
                    rep.ok('R03f', lp, fn, whatf, 'loop at line %d reads the container alone' % lp.line)


def run(rep, tier):
    rep.rule('R03a', 'task bodies: every write is W-local / W-concurrent / W-own-index; no static writes in callees', floor=17)
    rep.rule('R03b', 'reduction identity and join', floor=11)
    rep.rule('R03c', 'reduce body folds from its accumulator under the min-update contract', floor=6)
    rep.rule('R03d', 'grown concurrent containers are read after the parallel_for', floor=2)
    rep.rule('R03f', 'concurrently filled containers are consumed as unordered collections (no pairing by position)', floor=0)
    rep.rule('R03e', 'per-index work is independent of the range split and of inter-task timing', floor=10)
    tus = [env.witness_tu()]
    if tier == 'thorough':
        tus += env.repo_tus()
    progs = env.extract(tus, 'full')
    rep.saw_programs(progs.values())
    nsites = 0
    from . import approx, c07
    rep.rule('R07b', 'the finder objects of the TBB variants hold no reference to a constructor-local copy (the task bodies read through it)', floor=0)
    rep.rule('R07e', 'unchecked indexing inside blocked_range task bodies stays in bounds (shared with C07)', floor=1)
    rep.rule('R07k', 'reduction identities written as numeric_limits<T>::infinity() are 0 for integral weight types (the identity then wins every join)', floor=0)
    rep.rule('R06d', 'approximate TBB builder: the shortest-path maps are fresh for every index of the sub-range (shared with C06; stale maps make the result '
             'depend on how the range was split)', floor=2)
    for prog in progs.values():
        nsites = max(nsites, check_program(rep, prog))
        F, W = approx.analyse(prog)
        approx.report(rep, F, ['R06d'])
        c07.r07e(rep, prog)
        c07.r07k(rep, prog)
        # what the task bodies read through the finder object must be alive while they run: a reference member bound to a by-value constructor
        # parameter dangles as soon as the constructor returns (shared with C07)
        sub7 = type(rep)(rep.prop, rep.tier)
        c07.r07b_params(sub7, prog)
        for i in sub7.instances.values():
            if '_tbb' in (i.site or '') or 'tbb' in (i.function or '').lower() or 'OddCycleFinder' in (i.function or ''):
                rep.add(i.rule, i.site, i.function, i.what, i.status, i.detail, key=i.key)
    rep.extra['parallel_call_sites'] = nsites
    if nsites < 12:
        rep.analysis_broken('only %d tbb parallel call sites found in the library (12 confirmed by hand)' % nsites)
    pos = os.path.join(env.WITNESS, 'positive', 'c03_races.cc')
    pp = env.extract([pos], 'full')[pos]
    prep = type(rep)(rep.prop, rep.tier)
    check_program(prep, pp)
    for r in ('R03a', 'R03b', 'R03c', 'R03d', 'R03e', 'R03f'):
        rep.positive(r, 'witness/positive/c03_races.cc', any(i.status == 'violation' and i.rule == r for i in prep.instances.values()))
    rep.assume('distinct elements of `trees` own disjoint SPNode sets (each SPTree allocates its own nodes; shared_ptr copies are transient), '
               'so trees[i].update_parities() writes element i only')
    rep.assume('tbb::concurrent_vector growth operations are safe concurrently with each other; element access concurrent with growth is not relied upon')
    rep.assume('functions outside the repo called with const references do not modify their arguments; non-const reference parameters of '
               'non-repo callees are treated as written')
