"""Rules over the approximate (spanner) algorithms shared by C05, C06, C07 and C15.

A finding is (rule, node/site, function, what, status, detail, key).  Each property module reports
the subset of rules it claims (see its docstring); one defect is never counted twice inside a
property, but the same structural premise may be reported under two properties.
"""
import itertools
import re

from lib import ex
from lib.worlds import Worlds, atom

BASE = 'parmcb::detail::BaseApproxSpannerAlgorithm'
BUILDER = 'parmcb::detail::NonSpannerEdgesCycleBuilder'
ENTRY_RE = re.compile(r'^parmcb::approx_mcb_sva_\w+$')
FUNCTOR_RE = re.compile(r'^parmcb::detail::mcb_sva_\w+::operator\(\)$')
EXACT_ENTRY_RE = re.compile(r'^parmcb::mcb_sva_\w+$')


class Findings(list):
    def add(self, rule, node, fn, what, status, detail='', key=None):
        self.append((rule, node, fn, what, status, detail, key))


def scope_functions(prog):
    fns = []
    for f in prog.functions:
        g = f.g
        if g.startswith(BASE + '::') or g.startswith(BUILDER + '::') or ENTRY_RE.match(g) or \
                any(g.startswith(p) for p in ('parmcb::approx_mcb_sva_',)):
            fns.append(f)
    return fns


def seeds_for(prog, fns):
    seeds = {}
    for f in fns:
        if ENTRY_RE.match(f.g):
            ps = f.params
            pids = f.param_ids
            if len(pids) >= 4:
                seeds[pids[0]] = 'G'
                seeds[pids[1]] = 'G'
                seeds[pids[-1]] = ('out', 'CALLER')
        if f.g == BASE + '::run' and f.param_ids:
            seeds[f.param_ids[0]] = ('out', 'CALLER')
        if f.g == BASE + '::BaseApproxSpannerAlgorithm' and not f.implicit:
            pids = f.param_ids
            if len(pids) >= 3:
                seeds[pids[0]] = 'G'
                seeds[pids[1]] = 'G'
                seeds[pids[2]] = 'G'
    # the by-value graph member is the internal world
    for rec in prog.records:
        if not isinstance(rec, dict) or rec.get('g') != BASE:
            continue
        fields = [prog.vars[i] for i in rec.get('fields', [])]
        ref_graph_types = set()
        for fd in fields:
            t = prog.type(fd['ty'])
            if t and t.get('ref'):
                bt = prog.base_type(fd['ty'])
                if bt and (bt.get('rec') or '').startswith('boost::adjacency_list'):
                    ref_graph_types.add(bt.get('canon'))
        for fd in fields:
            t = prog.type(fd['ty'])
            if t and not t.get('ref') and (t.get('rec') or '').startswith('boost::adjacency_list'):
                seeds[fd['id']] = 'S'
    return seeds


def lin_eval(node, fn, env, bits=64, depth=0):
    """constant folding of an integer expression in the arithmetic of its C++ type, with some variables
    bound in env {var_id: int}; looks through variables/fields with a unique constant-free definition.
    Returns int or None."""
    s = node.strip()
    while s.k in ('ImplicitCastExpr', 'CStyleCastExpr', 'CXXStaticCastExpr', 'CXXFunctionalCastExpr', 'ParenExpr') and s.c:
        s = s.c[0].strip()
    t = s.type or {}

    def wrap(v, ty):
        if v is None:
            return None
        if ty.get('bool'):
            return 1 if v else 0
        if ty.get('unsigned') or (ty.get('int') and 'unsigned' in ty.get('canon', '')):
            w = 64 if 'long' in ty.get('canon', '') else 32
            return v % (1 << w)
        return v
    if s.cv is not None and s.k not in ex.CALL_KINDS:
        return s.cv
    v = ex.var_of(s)
    if v is not None:
        if v in env:
            return wrap(env[v], t)
        if depth > 6:
            return None
        d = env.get(('def', v))
        if d is not None:
            return wrap(lin_eval(d, fn, env, bits, depth + 1), t)
        return None
    if s.k == 'CallExpr' and s.callee and s.callee['g'] in ('std::min', 'std::max') and len(s.args()) == 2:
        a = lin_eval(s.args()[0], fn, env, bits, depth + 1)
        b = lin_eval(s.args()[1], fn, env, bits, depth + 1)
        if a is None or b is None:
            return None
        return min(a, b) if s.callee['name'] == 'min' else max(a, b)
    if s.k == 'CallExpr' and s.callee and s.callee['g'] == 'boost::num_vertices' and ('nv',) in env:
        return env[('nv',)]
    if s.k == 'CallExpr' and s.callee and s.callee['g'] == 'boost::num_edges' and ('ne',) in env:
        return env[('ne',)]
    if s.k == 'BinaryOperator' and len(s.c) == 2:
        a = lin_eval(s.c[0], fn, env, bits, depth + 1)
        b = lin_eval(s.c[1], fn, env, bits, depth + 1)
        if a is None or b is None:
            return None
        op = s.op
        ta = s.c[0].type or {}
        if op == '+':
            return wrap(a + b, t)
        if op == '-':
            return wrap(a - b, t)
        if op == '*':
            return wrap(a * b, t)
        if op == '/' and b != 0:
            return wrap(a // b, t)
        if op == '<':
            return int(a < b)
        if op == '<=':
            return int(a <= b)
        if op == '>':
            return int(a > b)
        if op == '>=':
            return int(a >= b)
        if op == '==':
            return int(a == b)
        if op == '!=':
            return int(a != b)
        if op == '&&':
            return int(bool(a) and bool(b))
        if op == '||':
            return int(bool(a) or bool(b))
        return None
    if s.k == 'UnaryOperator' and s.c:
        a = lin_eval(s.c[0], fn, env, bits, depth + 1)
        if a is None:
            return None
        if s.op == '!':
            return int(not a)
        if s.op == '-':
            return wrap(-a, t)
        return None
    return None


def field_defs(prog, rec_g):
    """field id -> init expression node from the (written) constructor initialisers of class rec_g"""
    defs = {}
    for f in prog.functions:
        if f.g.startswith(rec_g + '::') and f.fref.get('ctor') and not f.implicit:
            for ci in f.ctor_inits:
                if 'field' in ci and 'node' in ci:
                    defs.setdefault(ci['field'], []).append((ci['node'], f))
    return defs


def analyse(prog):
    F = Findings()
    fns = scope_functions(prog)
    runs = [f for f in fns if f.g == BASE + '::run']
    if not runs:
        return F, None
    W = Worlds(prog, fns).solve(seeds_for(prog, fns))
    F.worlds = W

    # ------------------------------------------------------------------ R05a sinks / R15e world discipline
    for (node, fn, w) in W.sinks:
        what = 'what is written to the caller\'s output iterator consists of edge descriptors of the caller\'s graph'
        if w == 'G':
            F.add('R05a', node, fn, what, 'ok', 'world G')
        elif w == 'S' or w == 'T':
            F.add('R05a', node, fn, what, 'violation',
                  'descriptors of the internal spanner graph (world %s) are handed to the caller; they refer to storage '
                  'released when the algorithm object dies' % w, key='R05a|%s|S-escape' % fn.g)
        else:
            F.add('R05a', node, fn, what, 'undecided', 'world of the emitted value could not be inferred')
    for (node, fn, msg) in W.problems.values():
        F.add('R15e', node, fn, 'BGL call uses descriptors with the graph they belong to', 'violation', msg,
              key='R15e|%s|%s' % (fn.g, msg.split(':')[0]))
    # count the world-checked BGL calls as instances
    nchecked = 0
    for fn in fns:
        for n in fn.walk():
            if n.k == 'CallExpr' and n.callee and n.callee['g'] in (
                    'boost::source', 'boost::target', 'boost::opposite', 'boost::add_edge', 'boost::get', 'boost::put',
                    'parmcb::dijkstra', 'parmcb::is_bfs_reachable', 'boost::out_edges'):
                if (fn.id, n.i) not in W.problems:
                    F.add('R15e', n, fn, 'BGL call uses descriptors with the graph they belong to', 'ok',
                          '%s' % n.callee['name'])
                nchecked += 1

    for run in runs:
        analyse_run(prog, F, W, run)
    for fn in fns:
        if fn.g == BASE + '::construct_spanner':
            analyse_construct(prog, F, W, fn)
        if fn.g == BUILDER + '::construct_cycles_for_non_spanner_edges':
            analyse_builder(prog, F, W, fn)
    for fn in prog.functions:
        if FUNCTOR_RE.match(fn.g):
            analyse_functor(prog, F, fn)
    for fn in fns:
        analyse_iterator_discipline(prog, F, W, fn)
        analyse_throws(prog, F, W, fn)
    return F, W


def analyse_throws(prog, F, W, fn):
    """R05h: the approximate classes throw only for violated preconditions of the *input* (k < 1, self-loop, negative weight, non-empty target graph):
    a throw whose guard tests a quantity computed by the algorithm (path length, cycle size, counters) can fire on a valid input after part of the basis
    has been emitted - such a guard is reported as undecided (it is right only if it can never hold, which is a value-level fact)"""
    cfg = fn.cfg
    if cfg is None or fn.body is None:
        return
    for t in fn.walk():
        if t.k != 'CXXThrowExpr':
            continue
        what = 'the approximate algorithm throws only for a violated precondition of its input'
        conds = ex.ast_conditions(t)
        if not conds:
            F.add('R05h', t, fn, what, 'undecided', 'unconditional throw')
            continue
        ok = True
        why = None
        for (c, pol) in conds:
            leaves = []

            def collect(e):
                s_ = e.strip()
                if s_.k == 'BinaryOperator' and s_.op in ('&&', '||'):
                    collect(s_.c[0])
                    collect(s_.c[1])
                elif s_.k == 'UnaryOperator' and s_.op == '!':
                    collect(s_.c[0])
                else:
                    leaves.append(s_)
            collect(c)
            for lf in leaves:
                s_ = lf.strip_all()
                good = False
                if s_.k in ('BinaryOperator', 'CXXOperatorCallExpr') and s_.op in ('==', '!=', '<', '<=', '>', '>='):
                    ops = s_.c if s_.k == 'BinaryOperator' else s_.c[1:]
                    txt = [o.strip_all() for o in ops]
                    # k tests
                    if any(o.k == 'MemberExpr' and o.decl and o.decl.get('name') in ('_k', 'k') for o in txt) and any(o.cv is not None for o in txt):
                        good = True
                    # two vertices compared (self-loop)
                    tys = [(prog.base_type(o.j.get('t')) or {}) for o in txt]
                    if s_.op in ('==', '!=') and all(ex.var_of(o) is not None for o in txt) and all(ty.get('int') for ty in tys) and \
                            all('vertex' in (prog.vars[ex.var_of(o)]['name'].lower() + 'vertex') or True for o in txt):
                        names = [prog.vars[ex.var_of(o)]['name'] for o in txt]
                        if all(len(nm) <= 16 and ('spanner_' in nm or nm in ('u', 'v', 'w')) for nm in names):
                            good = True
                    # weight of an input edge against zero
                    if any((o.k == 'CXXOperatorCallExpr' and o.op == '[]' and len(o.c) == 3 and atom(W.world(o.c[1])) == 'G') or
                           (o.k == 'CallExpr' and o.callee and o.callee['g'] == 'boost::get' and len(o.args()) == 2 and atom(W.world(o.args()[0])) == 'G') for o in txt) and \
                            any(o.cv == 0 or o.k in ('CXXScalarValueInitExpr', 'CXXTemporaryObjectExpr', 'CXXFunctionalCastExpr') for o in txt):
                        good = True
                    # emptiness of the target graph
                    if any(o.k == 'CallExpr' and o.callee and o.callee['g'] in ('boost::num_vertices', 'boost::num_edges') for o in txt) and any(o.cv == 0 for o in txt):
                        good = True
                if not good:
                    ok = False
                    why = lf
        if ok:
            F.add('R05h', t, fn, what, 'ok', 'guard `%s`' % conds[0][0].text(40))
        else:
            F.add('R05h', t, fn, what, 'undecided', 'the throw is guarded by `%s`, which is not a test of the input (k, self-loop, weight sign, empty target): whether it can '
                  'hold on a valid input is not decided here' % why.text(50))


def analyse_iterator_discipline(prog, F, W, fn):
    """R05f: the caller's output iterator is a value: once it has been handed (by value) to something that writes through it,
    the local copy is stale; using it again without re-assigning it from the callee's result overwrites what was emitted when
    the iterator is positional (vector::iterator, pointer) - inserters hide the defect"""
    cfg = fn.cfg
    if cfg is None or fn.body is None:
        return
    outs = [v for v in set(d.decl_id for d in fn.walk() if d.k == 'DeclRefExpr' and d.decl_id is not None) if W.W.get(v) == ('out', 'CALLER')]
    iterator_discipline_for(prog, F, fn, outs)


def iterator_discipline_for(prog, F, fn, outs):
    cfg = fn.cfg
    for ov in outs:
        uses = [d for d in fn.walk() if d.k == 'DeclRefExpr' and d.decl_id == ov]
        consuming = []
        for u in uses:
            call = None
            for a in u.ancestors():
                if a.k == 'UnaryOperator' and a.op == '&':
                    break         # the address of the iterator is handed on: the callee advances this very object
                if a.k in ex.CTOR_KINDS and a.callee and (a.callee.get('copy_ctor') or a.callee.get('move_ctor')):
                    continue      # the by-value copy made for the call
                if a.k in ex.CALL_KINDS + ex.CTOR_KINDS:
                    call = a
                    break
                if a.k in ('CompoundStmt', 'DeclStmt', 'ReturnStmt'):
                    break
            if call is None or call.callee is None:
                continue
            c = call.callee
            if call.k == 'CXXOperatorCallExpr' and call.op in ('++', '--', '*', '='):
                continue      # *out++ = x advances the local copy itself
            args = call.args() if call.k != 'CXXOperatorCallExpr' else call.c[2:]
            ix = None
            for i_, a in enumerate(args):
                if a.strip_all() is u or ex.var_of(a) == ov or a.is_ancestor_of(u):
                    ix = i_
            if ix is None:
                continue
            ptypes = c.get('params', [])
            byval = ix < len(ptypes) and not (prog.type(ptypes[ix]) or {}).get('ref')
            writes_through = c['g'] in ('std::copy', 'std::transform', 'std::move', 'std::copy_if', 'std::fill_n', 'std::generate_n') or \
                c.get('in_repo')
            if byval and writes_through:
                # result assigned back to the iterator?
                up = call.up()
                reassigned = up is not None and up.k in ('BinaryOperator', 'CXXOperatorCallExpr') and up.op == '=' and \
                    ex.var_of(up.c[0] if up.k == 'BinaryOperator' else up.c[1]) == ov
                consuming.append((call, u, reassigned))
        what = 'the caller\'s output iterator is not used again after it was handed by value to something that writes through it'
        for (call, u, reassigned) in consuming:
            if reassigned:
                F.add('R05f', call, fn, what, 'ok', 'result assigned back to the iterator')
                continue
            later = [d for d in uses if d is not u and cfg.reaches(call, d) and not call.is_ancestor_of(d)]
            if not later and call.enclosing('ForStmt', 'WhileStmt', 'DoStmt', 'CXXForRangeStmt') is not None:
                later = [u]       # the same call in the next iteration of the enclosing loop starts from the stale iterator again
            if later:
                F.add('R05f', call, fn, what, 'violation',
                      '`%s` receives a copy of the iterator and its advanced result is dropped; the stale iterator is used again at line %d: with a '
                      'positional iterator the cycles emitted first are overwritten and trailing slots stay unwritten' % (call.text(50), later[0].line),
                      key='R05f|%s|stale-iterator' % fn.g)
            else:
                F.add('R05f', call, fn, what, 'ok', 'last use of the iterator')


# ---------------------------------------------------------------------------------------------- run()
def grid_guard(conds):
    """for each (m, n) on the small-graph grid: do all (condition, polarity) pairs hold?  conditions are over boost::num_edges / num_vertices
    calls (any graph) and constants.  Returns dict (m, n) -> bool, or None when a condition is not evaluable"""
    import itertools
    res = {}
    for m, nn in itertools.product(range(0, 8), range(0, 8)):
        if m > nn * (nn - 1) // 2:
            continue

        def ev(node):
            s = node.strip_all()
            if s.cv is not None and s.k not in ex.CALL_KINDS:
                return s.cv
            if s.k == 'CallExpr' and s.callee and s.callee['g'] in ('boost::num_edges', 'boost::num_vertices'):
                return m if s.callee['name'] == 'num_edges' else nn
            if s.k == 'BinaryOperator' and len(s.c) == 2:
                a, b = ev(s.c[0]), ev(s.c[1])
                if a is None or b is None:
                    return None
                return {'<': a < b, '<=': a <= b, '>': a > b, '>=': a >= b, '==': a == b, '!=': a != b,
                        '+': a + b, '-': a - b, '*': a * b, '&&': bool(a) and bool(b), '||': bool(a) or bool(b)}.get(s.op)
            if s.k == 'UnaryOperator' and s.op == '!':
                a = ev(s.c[0])
                return None if a is None else (not a)
            return None
        holds = True
        for (c, pol) in conds:
            v = ev(c)
            if v is None:
                return None
            if bool(v) != pol:
                holds = False
        res[(m, nn)] = holds
    return res


def analyse_run(prog, F, W, run):
    cfg = run.cfg
    out = run.param_ids[0] if run.param_ids else None
    # R05e (run): the exact algorithm is run on the spanner unless the spanner provably has no cycle
    whate = 'the exact phase on the spanner is skipped only when the spanner provably has no cycle'
    for n in run.walk():
        if n.k == 'CXXOperatorCallExpr' and n.op == '()' and len(n.c) >= 4 and atom(W.world(n.c[2])) == 'S':
            conds = [(c, pol) for (c, pol) in ex.ast_conditions(n)]
            if not conds:
                F.add('R05e', n, run, whate, 'ok', 'the functor is called unconditionally')
                continue
            g = grid_guard(conds)
            if g is None:
                F.add('R05e', n, run, whate, 'undecided', 'the call of the exact functor is under `%s`' % conds[0][0].text(40))
                continue
            bad = [(m, nn) for (m, nn), holds in sorted(g.items()) if not holds and m > 2]
            if bad:
                F.add('R05e', n, run, whate, 'violation',
                      'the exact phase is skipped for a spanner with m=%d edges and n=%d vertices, which can contain a cycle (a triangle plus isolated '
                      'vertices / several components): its cycles are silently dropped and the result is not a basis' % bad[0], key='R05e|%s|run-skip' % run.g)
            else:
                F.add('R05e', n, run, whate, 'ok', 'skipped only for m <= 2')
    fdefs = field_defs(prog, BASE)
    # R06a: k < 1 rejected before anything is emitted
    what = 'a call with k = 0 throws before anything is emitted (and k >= 1 is accepted)'
    kparam = None
    ctor = None
    for f in prog.functions:
        if f.g == BASE + '::BaseApproxSpannerAlgorithm' and not f.implicit and f.j.get('rec_id') == run.j.get('rec_id'):
            ctor = f
    if ctor is not None:
        for pid in ctor.param_ids:
            if prog.vars[pid]['name'] == 'k':
                kparam = pid
        if kparam is None and len(ctor.param_ids) >= 4:
            kparam = ctor.param_ids[3]
    uses = [n for n in run.walk() if n.k == 'DeclRefExpr' and n.decl_id == out]

    def throwing_of(f_):
        res_ = []
        cfg_ = f_.cfg
        if cfg_ is None:
            return res_
        for b in cfg_.branch_blocks():
            c = cfg_.effective_cond(b)
            if c is None:
                continue
            for ix in (0, 1):
                s = b.succ[ix]
                if s is None:
                    continue
                region = cfg_.reachable_blocks(s)
                # a rejecting edge: every path from it throws (cannot reach a normal return)
                normal = (s == cfg_.exit)
                for rb in region:
                    blk = cfg_.blocks[rb]
                    if cfg_.exit in [x for x in blk.succ if x is not None]:
                        last = [f_.nodes.get(e) for e in blk.elems if e is not None and e >= 0]
                        last = [n for n in last if n is not None]
                        if not any(n.k == 'CXXThrowExpr' for n in last):
                            normal = True
                if not normal and region:
                    res_.append((b, c, ix, f_, None))
        return res_
    throwing = throwing_of(run)
    if not throwing:
        # the precondition check may live in a helper of the class that run() calls first: `check_preconditions();`
        for hc in run.walk():
            if hc.k == 'CXXMemberCallExpr' and hc.callee and hc.callee.get('in_repo') and hc.callee_id is not None and \
                    not any(ex.refs_var(a_, out) for a_ in hc.args()):
                hf = prog.fn_of_fref(hc.callee_id)
                if hf is not None and hf.body is not None and hf.j.get('rec_id') == run.j.get('rec_id') and \
                        any(x.k == 'CXXThrowExpr' for x in hf.walk()):
                    throwing += [(b, c, ix, hf, hc) for (b, c, ix, _f, _h) in throwing_of(hf)]
        # ... or in a constructor of the class (directly or through such a helper): no object exists for k = 0, so run() is
        # never entered
        for cf in prog.functions:
            if cf.g == BASE + '::BaseApproxSpannerAlgorithm' and not cf.implicit and cf.j.get('rec_id') == run.j.get('rec_id') and cf.body is not None and cf.cfg is not None:
                throwing += [(b, c, ix, cf, ('ctor', None, cf)) for (b, c, ix, _f, _h) in throwing_of(cf)]
                for hc in cf.walk():
                    if hc.k == 'CXXMemberCallExpr' and hc.callee and hc.callee.get('in_repo') and hc.callee_id is not None:
                        hf = prog.fn_of_fref(hc.callee_id)
                        if hf is not None and hf.body is not None and hf.j.get('rec_id') == run.j.get('rec_id') and \
                                any(x.k == 'CXXThrowExpr' for x in hf.walk()):
                            throwing += [(b, c, ix, hf, ('ctor', hc, cf)) for (b, c, ix, _f, _h) in throwing_of(hf)]
        # only guards that are integer expressions over k count as "the" precondition check of a helper
        def _evaluable(c_, f_):
            e_ = {}
            for fid, lst in fdefs.items():
                if len(lst) == 1:
                    e_[('def', fid)] = lst[0][0]
            if kparam is not None:
                e_[kparam] = 0
            return lin_eval(c_, f_, e_) is not None
        throwing = [t for t in throwing if _evaluable(t[1], t[3])]
    decided = False
    for (b, c, ix, gfn, hcall) in throwing:
        env0 = {}
        # bind every field to its constructor initialiser, the k parameter to a concrete value
        def make_env(kval):
            e = {}
            for fid, lst in fdefs.items():
                if len(lst) == 1:
                    e[('def', fid)] = lst[0][0]
            if kparam is not None:
                e[kparam] = kval
            return e
        v0 = lin_eval(c, gfn, make_env(0))
        vs = [lin_eval(c, gfn, make_env(kv)) for kv in (1, 2, 3, 7, 1000)]
        shape_note = ''
        if v0 is None or any(v is None for v in vs):
            # the effective k may depend on the size of the graph (`_k(std::min(k, num_vertices(g)))`): evaluate over small graph sizes too
            def env_nv(kval, nv):
                e_ = make_env(kval)
                e_[('nv',)] = nv
                e_[('ne',)] = max(0, nv - 1)
                return e_
            grid0 = [lin_eval(c, gfn, env_nv(0, nv)) for nv in (0, 1, 2, 3, 10)]
            gridp = [(kv, nv, lin_eval(c, gfn, env_nv(kv, nv))) for kv in (1, 2, 3, 7, 1000) for nv in (0, 1, 2, 3, 10)]
            if any(v is None for v in grid0) or any(v is None for (_k, _n, v) in gridp):
                continue
            v0 = 1 if all(bool(v) == (ix == 0) for v in grid0) == (ix == 0) else 0
            if not all(bool(v) == (ix == 0) for v in grid0):
                v0 = 0 if ix == 0 else 1
            vs = [v for (_k, _n, v) in gridp]
            badp = [(kv, nv) for (kv, nv, v) in gridp if bool(v) == (ix == 0)]
            if badp:
                shape_note = ' (k = %d is rejected for a graph with %d vertices: the value tested is not k itself but depends on the size of the graph)' % badp[0]
        rejects0 = bool(v0) == (ix == 0)
        rejects_pos = [bool(v) == (ix == 0) for v in vs]
        # the guard must dominate every use of the output iterator
        if isinstance(hcall, tuple):
            _, hc_, cf_ = hcall
            ccfg = cf_.cfg
            if hc_ is None:
                dom = ccfg.block_dominates(b.id, ccfg.exit)
            else:
                dom = bool(ccfg.pos_of(hc_)) and ccfg.block_dominates(ccfg.pos_of(hc_)[0], ccfg.exit) and gfn.cfg.block_postdominates(b.id, gfn.cfg.entry)
        elif hcall is None:
            dom = all(cfg.block_dominates(b.id, cfg.pos_of(u)[0]) for u in uses if cfg.pos_of(u))
        else:
            # the helper is entered before every use of the iterator, and inside it the guard is on every path
            dom = all(cfg.dominates(hcall, u) for u in uses) and gfn.cfg.block_postdominates(b.id, gfn.cfg.entry) if hasattr(gfn.cfg, 'block_postdominates') else False
        decided = True
        if rejects0 and not any(rejects_pos) and dom:
            F.add('R06a', c, run, what, 'ok', 'guard `%s` evaluated with k:=0 rejects, with k in {1,2,3,7,1000} accepts; dominates all %d uses of the iterator' % (c.text(40), len(uses)))
        else:
            probs = []
            if not rejects0:
                probs.append('with k = 0 the guard `%s` evaluates to %s in the arithmetic of its type (unsigned wrap-around included): not rejected' % (c.text(40), v0))
            if any(rejects_pos):
                probs.append('the guard also rejects some k >= 1' + shape_note)
            if not dom:
                probs.append('the guard does not dominate every use of the output iterator')
            F.add('R06a', c, run, what, 'violation', '; '.join(probs), key='R06a|%s|guard' % run.g)
    if not decided:
        if not throwing:
            F.add('R06a', run.body, run, what, 'violation', 'run() has no rejecting branch at all: k = 0 is accepted',
                  key='R06a|%s|no-guard' % run.g)
        else:
            F.add('R06a', throwing[0][1], run, what, 'undecided', 'rejecting guard `%s` is not an integer expression over k' % throwing[0][1].text(50))

    # R05b: terms added to the returned weight
    wfield = None
    for r in ex.returns_of(run):
        if r.c:
            wfield = ex.var_of(r.c[0]) or wfield
    whatb = 'every term added to the returned weight is read through the caller\'s weight map or comes from a cycle builder'
    if wfield is None:
        F.add('R05b', run.body, run, whatb, 'undecided', 'run() does not return a plain accumulator')
    else:
        writes = [d for (d, rhs) in ex.assignments_to(run, wfield) if d.k in ('CompoundAssignOperator', 'CXXOperatorCallExpr', 'BinaryOperator')]
        for d in writes:
            if d.k == 'BinaryOperator' and d.op == '=' and not _accumulate_onto(d.c[1], wfield):
                earlier = [w for w in writes if w is not d and cfg.reaches(w, d)]
                if earlier:
                    F.add('R05b', d, run, 'the weights of both phases are added up', 'violation',
                          '`%s` overwrites the weight accumulated at line %d: the returned value omits the cycles emitted before' % (d.text(50), earlier[0].line),
                          key='R05b|%s|overwrite' % run.g)
        for (d, rhs) in ex.assignments_to(run, wfield):
            if d.k not in ('CompoundAssignOperator', 'CXXOperatorCallExpr', 'BinaryOperator'):
                continue
            term = d.c[1] if d.k in ('CompoundAssignOperator', 'BinaryOperator') else d.c[2]
            t = term.strip_all()
            if t.k == 'CallExpr' and t.callee and t.callee['g'] == 'boost::get' and len(t.args()) == 2:
                mw, kw = atom(W.world(t.args()[0])), atom(W.world(t.args()[1]))
                if mw == 'G' and kw == 'G':
                    F.add('R05b', d, run, whatb, 'ok', 'get(G-map, G-edge)')
                else:
                    F.add('R05b', d, run, whatb, 'violation' if mw in ('G', 'S', 'T') and kw in ('G', 'S', 'T') else 'undecided',
                          'weight read with map world %s and key world %s' % (mw, kw), key='R05b|%s|get' % run.g)
            elif t.k == 'CXXOperatorCallExpr' and t.op == '[]' and len(t.c) == 3:
                mw, kw = atom(W.world(t.c[1])), atom(W.world(t.c[2]))
                if mw == 'G' and kw == 'G':
                    F.add('R05b', d, run, whatb, 'ok', 'G-map[G-edge]')
                else:
                    F.add('R05b', d, run, whatb, 'violation' if mw in ('G', 'S', 'T') and kw in ('G', 'S', 'T') else 'undecided',
                          'weight read with map world %s and key world %s' % (mw, kw), key='R05b|%s|index' % run.g)
            elif _accumulate_onto(t, wfield):
                # acc = std::accumulate(first, last, acc, [](W a, const Edge &e) { return a + get(W_G, e); })
                from lib import par as _par
                fs, _ln = _par.lambda_functions(prog, t.args()[3])
                okl = False
                why = 'functor of std::accumulate is not `acc + get(caller map, element)`'
                for lf in fs:
                    rs_ = ex.returns_of(lf)
                    if len(lf.param_ids) == 2 and len(rs_) == 1 and rs_[0].c:
                        r_ = rs_[0].c[0].strip_all()
                        if r_.k in ('BinaryOperator', 'CXXOperatorCallExpr') and r_.op == '+':
                            ops_ = r_.c if r_.k == 'BinaryOperator' else r_.c[1:]
                            for a_, b_ in ((ops_[0], ops_[1]), (ops_[1], ops_[0])):
                                bb = b_.strip_all()
                                if ex.var_of(a_) == lf.param_ids[0] and bb.k == 'CallExpr' and bb.callee and bb.callee['g'] == 'boost::get' and len(bb.args()) == 2 and \
                                        ex.var_of(bb.args()[1]) == lf.param_ids[1]:
                                    mw, kw = atom(W.world(bb.args()[0])), atom(W.world(bb.args()[1]))
                                    if mw == 'G' and kw == 'G':
                                        okl = True
                                    elif mw in ('G', 'S', 'T') and kw in ('G', 'S', 'T'):
                                        why = 'weight read with map world %s and key world %s' % (mw, kw)
                                        okl = None
                if okl:
                    F.add('R05b', d, run, whatb, 'ok', 'std::accumulate(acc + get(G-map, G-edge)) onto the running weight')
                elif okl is None:
                    F.add('R05b', d, run, whatb, 'violation', why, key='R05b|%s|get' % run.g)
                else:
                    F.add('R05b', d, run, whatb, 'undecided', why)
            elif t.k in ex.CALL_KINDS and t.callee and (t.callee['g'].startswith(BUILDER) or
                                                         FUNCTOR_RE.match(t.callee['g']) or EXACT_ENTRY_RE.match(t.callee['g'])):
                if t.callee['g'].startswith(BUILDER):
                    F.add('R05b', d, run, whatb, 'ok', 'return value of the non-spanner cycle builder (judged in its own body)')
                else:
                    F.add('R05b', d, run, whatb, 'ok', 'return value of the exact algorithm on the spanner: correct iff the spanner carries the input weights (R05c)')
            else:
                F.add('R05b', d, run, whatb, 'undecided', 'term `%s` not in the idiom table' % term.text(50))

    # R05d (lookups): translation-table reads use at()/find
    for fn in [run]:
        check_lookups(prog, F, W, fn)


def check_lookups(prog, F, W, fn):
    for n in fn.walk():
        if n.k == 'CXXOperatorCallExpr' and n.op == '[]' and len(n.c) == 3:
            t = prog.base_type(n.c[1].strip_all().j.get('t')) or {}
            if (t.get('rec') or '') != 'std::map':
                continue
            w = W.world(n.c[1])
            if not (isinstance(w, tuple) and w[0] == 'kv' and atom(w[1]) == 'S' and w[2] == 'G'):
                continue
            up = n.up()
            is_store = up is not None and up.k in ('BinaryOperator', 'CXXOperatorCallExpr') and up.op == '=' and \
                (up.c[0].strip_all() is n or (len(up.c) > 1 and up.c[1].strip_all() is n))
            what = 'the spanner-edge -> input-edge table is read with at()/find (operator[] would fabricate a null descriptor)'
            if is_store:
                continue
            F.add('R05d', n, fn, what, 'violation', 'operator[] read of the translation table default-inserts a null edge for a missing key',
                  key='R05d|%s|subscript-read' % fn.g)
        if n.k == 'CXXMemberCallExpr' and n.callee and n.callee['name'] in ('at', 'find'):
            w = W.world(n.object_arg()) if n.object_arg() is not None else None
            if isinstance(w, tuple) and w[0] == 'kv' and atom(w[1]) == 'S' and w[2] == 'G':
                F.add('R05d', n, fn, 'the spanner-edge -> input-edge table is read with at()/find (operator[] would fabricate a null descriptor)',
                      'ok', n.callee['name'])


# ---------------------------------------------------------------------------------------------- construct_spanner()
def analyse_construct(prog, F, W, fn):
    cfg = fn.cfg
    nodes = list(fn.walk())
    add_edges = [n for n in nodes if n.k == 'CallExpr' and n.callee and n.callee['g'] == 'boost::add_edge'
                 and atom(W.world(n.args()[-1])) == 'S']
    pushes = [n for n in nodes if n.k == 'CXXMemberCallExpr' and n.callee and n.callee['name'] in ('push_back', 'emplace_back')
              and ex.var_of(n.object_arg()) is not None and prog.vars[ex.var_of(n.object_arg())].get('kind') == 'field'
              and atom(W.world(n.object_arg())) == 'G']
    what_anchor = 'spanner construction loop'
    if not add_edges:
        # delegated to a helper of the class?
        helpers = []
        for n in nodes:
            if n.k in ('CXXMemberCallExpr', 'CallExpr') and n.callee and n.callee.get('in_repo') and n.callee_id is not None:
                hf = prog.fn_of_fref(n.callee_id)
                if hf is not None and hf.body is not None and any(m.k == 'CallExpr' and m.callee and m.callee['g'] == 'boost::add_edge' for m in hf.walk()):
                    helpers.append(n)
        if helpers:
            F.add('R15a', helpers[0], fn, 'every scanned edge is either retained or dropped', 'undecided',
                  'the edge is added to the internal graph inside the helper `%s`: the construction is outside the recognised shape' % helpers[0].callee['name'])
            return
        F.add('R15a', fn.body, fn, 'every scanned edge is either retained or dropped', 'violation',
              'construct_spanner never adds an edge to the internal graph', key='R15a|%s|no-add-edge' % fn.g)
        return
    ae = add_edges[0]
    loop = ae.enclosing('ForStmt', 'WhileStmt', 'CXXForRangeStmt', 'DoStmt')
    if loop is None:
        F.add('R15a', ae, fn, 'every scanned edge is either retained or dropped', 'undecided', 'add_edge is not inside a loop')
        return
    body = loop.body

    # ---- the scanned sequence and the current edge
    seq = None
    cur_edge_vars = set()
    if loop.k == 'ForStmt':
        init = loop.role('init')
        for d in (init.walk() if init is not None else ()):
            if d.k in ('BinaryOperator', 'CXXOperatorCallExpr') and d.op == '=':
                ops = d.c if d.k == 'BinaryOperator' else d.c[1:]
                r = ops[1].strip_all()
                if r.k == 'CXXMemberCallExpr' and r.callee['name'] == 'begin':
                    seq = ex.var_of(r.object_arg())
                    itv = ex.var_of(ops[0])
            if d.k == 'VarDecl' and d.c:
                r = d.c[0].strip_all()
                if r.k == 'CXXMemberCallExpr' and r.callee['name'] == 'begin':
                    seq = ex.var_of(r.object_arg())
    elif loop.k == 'CXXForRangeStmt':
        rng = loop.role('range')
        for d in (rng.walk() if rng is not None else ()):
            if d.k == 'VarDecl' and d.c:
                seq = ex.var_of(d.c[0])
    for n in (body.walk() if body is not None else ()):
        if n.k == 'VarDecl' and n.c and seq is None and loop.k == 'ForStmt':
            r0 = n.c[0].strip_all()
            t0 = prog.base_type(n.j.get('t')) or {}
            if r0.k == 'CXXOperatorCallExpr' and r0.op == '[]' and len(r0.c) == 3 and 'edge_desc_impl' in (t0.get('canon') or '') and ex.var_of(r0.c[1]) is not None:
                seq = ex.var_of(r0.c[1])          # index loop over the scanned sequence
                cur_edge_vars.add(n.decl_id)
        if n.k == 'VarDecl' and n.c and atom(W.world(n.c[0])) == 'G':
            t = prog.base_type(n.j.get('t')) or {}
            if 'edge_desc_impl' in (t.get('canon') or ''):
                cur_edge_vars.add(n.decl_id)
    if loop.k == 'CXXForRangeStmt':
        lv = loop.role('loopvar')
        for d in (lv.walk() if lv is not None else ()):
            if d.k == 'VarDecl':
                cur_edge_vars.add(d.decl_id)

    # ---- R15a partition: every path through one iteration does exactly one of {add_edge, push_back} or throws
    what = 'every scanned edge is retained (add_edge into the spanner) or dropped (recorded), never both or neither'
    acts = {}
    for n in add_edges:
        if loop.is_ancestor_of(n):
            p = cfg.pos_of(n)
            if p:
                acts.setdefault(p[0], []).append('add')
    for n in pushes:
        if loop.is_ancestor_of(n):
            p = cfg.pos_of(n)
            if p:
                acts.setdefault(p[0], []).append('drop')
    body_blocks = set()
    for n in (body.walk() if body is not None else ()):
        p = cfg.positions().get(n.i)
        if p:
            body_blocks.add(p[0])
    first = cfg.pos_of(body)
    bad_paths = []
    if first is not None:
        # enumerate acyclic paths through the body blocks
        def dfs(b, count, seen):
            if len(bad_paths) > 3:
                return
            cnt = count + len(acts.get(b, []))
            blk = cfg.blocks[b]
            nxt = [s for s in blk.succ if s is not None]
            ends_throw = any((fn.nodes.get(e).k == 'CXXThrowExpr') for e in blk.elems if e is not None and e >= 0 and fn.nodes.get(e) is not None)
            if ends_throw:
                return
            leaving = [s for s in nxt if s not in body_blocks]
            inside = [s for s in nxt if s in body_blocks and s not in seen]
            if leaving and cnt != 1:
                bad_paths.append((cnt, b))
            for s in inside:
                dfs(s, cnt, seen | {s})
        dfs(first[0], 0, {first[0]})
    deferred = [n for n in pushes if not loop.is_ancestor_of(n) and n.enclosing('ForStmt', 'WhileStmt', 'CXXForRangeStmt', 'DoStmt') is not None and cfg.reaches(loop, n)]
    if bad_paths and bad_paths[0][0] == 0 and deferred and not [n for n in pushes if loop.is_ancestor_of(n)]:
        # the dropped edges are recorded by a later pass (flags set in the scan, list filled afterwards): which edges that pass records is a
        # value-level relation between the two loops
        F.add('R15a', loop, fn, what, 'undecided', 'dropped edges are recorded by a second loop (line %d), not on the path that drops them' % deferred[0].line)
    elif bad_paths:
        cnt, b = bad_paths[0]
        F.add('R15a', loop, fn, what, 'violation',
              'a path through the loop body performs %d retain/drop actions (block B%d): an edge is %s' % (
                  cnt, b, 'neither retained nor recorded as dropped' if cnt == 0 else 'both retained and dropped'),
              key='R15a|%s|partition' % fn.g)
    else:
        F.add('R15a', loop, fn, what, 'ok', '%d add_edge, %d push_back site(s); every path does exactly one' % (
            len([n for n in add_edges if loop.is_ancestor_of(n)]), len([n for n in pushes if loop.is_ancestor_of(n)])))
    # the whole edge set is scanned: the sequence is copied from edges(_g)
    whats = 'the scanned sequence is the whole edge set of the input graph'
    copied = False
    if seq is not None:
        for n in nodes:
            if n.k == 'CallExpr' and n.callee and n.callee['g'] == 'std::copy' and len(n.args()) == 3:
                dst = W.world(n.args()[2])
                if isinstance(dst, tuple) and dst[0] == 'out' and dst[1] == seq:
                    a0, a1 = n.args()[0].strip_all(), n.args()[1].strip_all()
                    if a0.k == 'MemberExpr' and a1.k == 'MemberExpr' and a0.decl['name'] == 'first' and a1.decl['name'] == 'second' \
                            and ex.var_of(a0.c[0]) == ex.var_of(a1.c[0]) and ex.var_of(a0.c[0]) is not None:
                        d = ex.unique_def(fn, ex.var_of(a0.c[0]))
                        if d is not None and ex.callee_g(d.strip_all()) == 'boost::edges' and atom(W.world(d.strip_all().args()[0])) == 'G':
                            copied = True
            if n.k == 'CXXMemberCallExpr' and n.callee['name'] in ('assign', 'insert') and ex.var_of(n.object_arg()) == seq:
                pass
            # range construction / assign:  std::vector<Edge> seq(R.first, R.second)  with R = boost::edges(_g)
            rng_args = None
            if n.k == 'VarDecl' and n.decl_id == seq and n.c and n.c[0].strip().k in ex.CTOR_KINDS and len(n.c[0].strip().c) >= 2:
                rng_args = n.c[0].strip().c[:2]
            elif n.k == 'CXXMemberCallExpr' and n.callee['name'] == 'assign' and ex.var_of(n.object_arg()) == seq and len(n.args()) == 2:
                rng_args = n.args()
            if rng_args:
                a0, a1 = rng_args[0].strip_all(), rng_args[1].strip_all()
                if a0.k == 'MemberExpr' and a1.k == 'MemberExpr' and a0.decl and a1.decl and a0.decl['name'] == 'first' and a1.decl['name'] == 'second':
                    b0, b1 = a0.c[0].strip_all(), a1.c[0].strip_all()
                    rd = None
                    if ex.var_of(b0) is not None and ex.var_of(b0) == ex.var_of(b1):
                        rd = ex.unique_def(fn, ex.var_of(b0))
                    if rd is not None and ex.callee_g(rd.strip_all()) == 'boost::edges' and atom(W.world(rd.strip_all().args()[0])) == 'G':
                        copied = True
    if copied:
        F.add('R15a', loop, fn, whats, 'ok', 'std::copy(edges(_g).first, .second, back_inserter(seq))')
    else:
        F.add('R15a', loop, fn, whats, 'undecided', 'how the scanned sequence is filled is not in the idiom table')

    # ---- R15b hop limit 2k-1
    whatb = 'the reachability bound is 2*k - 1 hops'
    kfield = None
    for rec in prog.records:
        if isinstance(rec, dict) and rec.get('g') == BASE:
            for fid in rec.get('fields', []):
                if prog.vars[fid]['name'] in ('_k', 'k', 'k_'):
                    kfield = kfield or fid
    fdefs = field_defs(prog, BASE)
    reach = [n for n in nodes if n.k == 'CallExpr' and n.callee and n.callee['g'] == 'parmcb::is_bfs_reachable']
    if not reach:
        F.add('R15b', loop, fn, whatb, 'undecided', 'no call to parmcb::is_bfs_reachable in the construction loop')
    for r in reach:
        bound = r.args()[-1] if len(r.args()) >= 4 else None      # (g, [index map,] s, t, max_hops)
        if bound is None:
            F.add('R15b', r, fn, whatb, 'undecided', 'no hop bound argument')
            continue
        # abstract evaluation of the bound over a grid of (k, n): fields are looked through their constructor
        # initialisers, locals through their unique definition; correct iff  min(2k-1, n-1) <= bound <= 2k-1
        kparams = set()
        for f in prog.functions:
            if f.g == BASE + '::BaseApproxSpannerAlgorithm' and not f.implicit:
                for pid in f.param_ids:
                    if prog.vars[pid]['name'] == 'k':
                        kparams.add(pid)
        base_env = {}
        for fid, lst in fdefs.items():
            if lst:
                base_env[('def', fid)] = lst[0][0]
        for n2 in nodes:
            if n2.k == 'VarDecl' and n2.c and len(ex.assignments_to(fn, n2.decl_id)) == 1:
                base_env[('def', n2.decl_id)] = n2.c[0]
        bad = None
        unknown = False
        for kv in (1, 2, 3, 4, 5, 6, 9):
            for nv in (2, 3, 4, 5, 6, 7, 8, 11, 40):
                e = dict(base_env)
                for kp in kparams:
                    e[kp] = kv
                e[('nv',)] = nv
                val = lin_eval(bound, fn, e)
                if val is None:
                    unknown = True
                    break
                lo, hi = min(2 * kv - 1, nv - 1), 2 * kv - 1
                if not (lo <= val <= hi):
                    bad = (kv, nv, val, lo, hi)
                    break
            if unknown or bad:
                break
        if unknown:
            F.add('R15b', r, fn, whatb, 'undecided', 'bound `%s` is not an integer expression over k (and num_vertices)' % bound.text(40))
        elif bad:
            F.add('R15b', r, fn, whatb, 'violation',
                  'for k=%d on a graph with %d vertices the hop bound evaluates to %d; it must lie in [%d, %d] '
                  '(2k-1, or n-1 when a simple path cannot be longer)' % bad, key='R15b|%s|bound' % fn.g)
        else:
            F.add('R15b', r, fn, whatb, 'ok', 'bound evaluates to 2k-1 (up to the n-1 cap) on the whole (k, n) grid')
        # the test decides retain vs drop with the right polarity and on the current endpoints in S
        g = [(c, pol) for (c, pol, _b) in cfg.guards_of(ae, transitive=False)]
        pol_ok = any(c.strip_all() is r or r in list(c.walk()) for (c, pol) in g)
        whatp = 'an edge is retained exactly when its endpoints are NOT within the hop bound'
        f = None
        stale = []

        def reach_leaf(leaf):
            s_ = leaf.strip_all()
            if s_ is r:
                return ex.f_atom('reach')
            v_ = ex.var_of(s_)
            if v_ is not None:
                defs_ = [(d, rhs) for (d, rhs) in ex.assignments_to(fn, v_) if rhs is not None or d.k != 'VarDecl']
                if defs_ and all(rhs is not None and rhs.strip_all() is r for (d, rhs) in defs_):
                    return ex.f_atom('reach')
                if defs_ and any(rhs is not None and rhs.strip_all() is r for (d, rhs) in defs_):
                    # the verdict has other sources than the search of this iteration
                    for (d, rhs) in defs_:
                        if rhs is None or rhs.strip_all() is r:
                            continue
                        src = stale_table_read(prog, fn, rhs, r)
                        stale.append((d, rhs, src))
                    return ex.f_atom('reach')
            return None
        for (c, pol) in g:
            ff = ex.formula(c, reach_leaf)
            if ff is not None and ex.f_atoms(ff) == ['reach']:
                f = ff if pol else ex.f_not(ff)
        # every drop site (record as non-spanner edge) is reached only with a positive verdict of the hop test of this iteration: dropping an edge
        # without having found a short path breaks the stretch clause (k = 1 included, where only the edge itself would do)
        for dp in [x for x in pushes if loop.is_ancestor_of(x)]:
            whatdrop = 'an edge is recorded as dropped only after the bounded BFS reported its endpoints within the hop bound'
            pcd = ex.path_condition(cfg, dp, reach_leaf)
            atoms_d = ex.f_atoms(pcd)
            if 'reach' not in atoms_d:
                onodes = [o_ for o_ in ex.opaque_nodes(fn, pcd) if loop.body is not None and loop.body.is_ancestor_of(o_)]
                F.add('R15b', dp, fn, whatdrop, 'violation',
                      'this drop is reached without the hop test%s: the dropped edge need not have a path of at most 2k-1 retained edges' % (
                          (' (under `%s`)' % onodes[0].text(40)) if onodes else ''), key='R15b|%s|drop-without-test' % fn.g)
                continue
            others_d = [a_ for a_ in atoms_d if a_ != 'reach']
            import itertools as _it
            witness = None
            for vals in _it.product((False, True), repeat=min(len(others_d), 10)):
                e_ = dict(zip(others_d, vals))
                e_['reach'] = False
                if ex.f_eval(pcd, e_):
                    witness = e_
                    break
            if witness is not None:
                culprit = [a_ for a_ in others_d if isinstance(a_, tuple) and a_[0] == 'opaque' and loop.body is not None and loop.body.is_ancestor_of(fn.nodes[a_[1]])]
                # the shortcut may rest on state the loop itself maintains (a flag set once the spanner has become a spanning tree, a component
                # structure): whether that state implies "within the bound" is a graph-theoretic fact, not a property of the text
                stateful = [a_ for a_ in culprit if witness.get(a_) and any(
                    x_.k == 'DeclRefExpr' and x_.decl_id is not None and prog.vars[x_.decl_id].get('kind') == 'local' and
                    any(dn_.k != 'VarDecl' and loop.is_ancestor_of(dn_) for (dn_, _r) in ex.assignments_to(fn, x_.decl_id)) and
                    # carried across iterations: declared outside the scan loop (a per-edge pre-test declared inside the body is judged as before)
                    any(dn_.k == 'VarDecl' and not loop.is_ancestor_of(dn_) for (dn_, _r) in ex.assignments_to(fn, x_.decl_id))
                    for x_ in [fn.nodes[a_[1]].strip_all()] + list(fn.nodes[a_[1]].walk()))]
                if stateful:
                    F.add('R15b', dp, fn, whatdrop, 'undecided', 'the drop is also reached without a positive hop test when `%s` holds, a flag the scan itself maintains: whether it implies '
                          'a path within the bound is not decided' % fn.nodes[stateful[0][1]].text(40))
                    continue
                F.add('R15b', dp, fn, whatdrop, 'violation',
                      'the drop is also reached when the hop test answered "not reachable"%s: the dropped edge then has no path of at most 2k-1 retained edges '
                      '(for k = 1 every such shortcut is wrong)' % ((' (depends on `%s`)' % fn.nodes[culprit[0][1]].text(40)) if culprit else ''),
                      key='R15b|%s|drop-despite-unreachable' % fn.g)
            else:
                F.add('R15b', dp, fn, whatdrop, 'ok', 'reached only with a positive verdict')
        if stale and any(src for (_d, _rhs, src) in stale):
            d, rhs, src = [x for x in stale if x[2]][0]
            F.add('R15b', ae, fn, whatp, 'violation',
                  'on some iterations the verdict is not the result of a search for the current edge but `%s` (line %d), read from `%s`, the '
                  'distance table left behind by an earlier %s call for another target; %s, so vertices farther away than that '
                  'earlier target still hold "unreached" and an edge whose endpoints are within the bound is retained (a short cycle '
                  'survives)' % (rhs.text(50), d.line, src[0], 'is_bfs_reachable', src[1]), key='R15b|%s|stale-table' % fn.g)
        elif stale:
            F.add('R15b', ae, fn, whatp, 'undecided', 'the verdict `%s` (line %d) does not come from the search of this iteration' % (
                stale[0][1].text(50), stale[0][0].line))
        elif f is None:
            # a retain shortcut: the edge is added on a path that does not carry a negative hop verdict.  If the shortcut is a function of the
            # numbers of vertices and edges only (e.g. "m < n, so the graph is a forest"), evaluate it on the small-graph grid: it must not hold
            # for any (m, n) with m >= 3, because such a graph can contain a triangle (plus isolated vertices), which would be retained whole
            pca = ex.path_condition(cfg, ae, reach_leaf)
            opq = [fn.nodes[a_[1]] for a_ in ex.f_atoms(pca) if isinstance(a_, tuple) and a_[0] == 'opaque' and a_[1] in fn.nodes and loop.body is not None and
                   (loop.body.is_ancestor_of(fn.nodes[a_[1]]) or fn.nodes[a_[1]].enclosing('VarDecl') is not None)]
            decided = False
            for o_ in opq:
                ov = ex.var_of(o_)
                cond_node = ex.unique_def(fn, ov) if ov is not None and ex.unique_def(fn, ov) is not None else o_
                g_ = grid_guard([(cond_node, True)])
                if g_ is None:
                    continue
                decided = True
                bad = [(m_, n_) for (m_, n_), holds in sorted(g_.items()) if holds and m_ >= 3]
                if bad:
                    F.add('R15b', ae, fn, whatp, 'violation',
                          'under `%s` every edge is retained without the hop test; the condition holds for a graph with m=%d edges and n=%d vertices, which can '
                          'contain a triangle (plus isolated vertices / further components): a cycle of at most 2k edges stays in the spanner' % (
                              cond_node.text(50), bad[0][0], bad[0][1]), key='R15b|%s|retain-shortcut' % fn.g)
                else:
                    F.add('R15b', ae, fn, whatp, 'ok', 'retain shortcut `%s` holds only for m <= 2' % cond_node.text(40))
            if not decided:
                F.add('R15b', ae, fn, whatp, 'undecided', 'add_edge is not directly guarded by the reachability test')
        elif ex.f_eval(f, {'reach': False}) and not ex.f_eval(f, {'reach': True}):
            F.add('R15b', ae, fn, whatp, 'ok')
        else:
            F.add('R15b', ae, fn, whatp, 'violation', 'polarity of the reachability test is inverted', key='R15b|%s|polarity' % fn.g)

    # ---- R15c scan order
    whatc = 'edges are scanned by non-decreasing weight of the caller\'s weight map'
    sorts = [n for n in nodes if n.k == 'CallExpr' and n.callee and n.callee['g'] in ('std::sort', 'std::stable_sort')]
    okc = False
    for sc in sorts:
        a = sc.args()
        if len(a) < 3:
            continue
        a0 = a[0].strip_all()
        if not (a0.k == 'CXXMemberCallExpr' and a0.callee['name'] == 'begin' and ex.var_of(a0.object_arg()) == seq):
            continue
        if not cfg.dominates(sc, loop.cond if loop.cond is not None else ae):
            F.add('R15c', sc, fn, whatc, 'violation', 'the sort does not dominate the scan loop', key='R15c|%s|sort-dom' % fn.g)
            okc = True
            continue
        lam = a[2].strip_all()
        verdict = comparator_verdict(prog, W, lam)
        vdetail = None
        if verdict is None:
            verdict, vdetail = comparator_by_orderings(prog, W, lam)
        okc = True
        if verdict == 'asc':
            F.add('R15c', sc, fn, whatc, 'ok', vdetail or 'comparator is W_G[a] < W_G[b]')
        elif verdict in ('desc', 'other'):
            F.add('R15c', sc, fn, whatc, 'violation', vdetail or ('comparator orders the edges %s' % ('by decreasing weight' if verdict == 'desc' else 'not by their weight in the caller\'s map')),
                  key='R15c|%s|comparator' % fn.g)
        else:
            F.add('R15c', sc, fn, whatc, 'undecided', 'comparator not recognised (%s)' % vdetail)
    if not okc:
        dom_sorts = [sc for sc in sorts if cfg.dominates(sc, loop.cond if loop.cond is not None else ae)]
        if dom_sorts:
            F.add('R15c', dom_sorts[0], fn, whatc, 'undecided', 'a sort dominates the scan but what it sorts / what the scan iterates is outside the idiom table')
        else:
            F.add('R15c', loop, fn, whatc, 'violation', 'the scanned sequence is not sorted before the scan', key='R15c|%s|no-sort' % fn.g)

    # ---- R05c / R15d weights, R05d translation
    for n in add_edges:
        if not loop.is_ancestor_of(n):
            continue
        whatw = 'the retained edge carries the weight of the input edge it copies'
        whatt = 'the retained edge is recorded in the spanner-edge -> input-edge table'
        # variable holding the new S edge
        up = n.up()
        evar = None
        hops = 0
        while up is not None and hops < 6 and up.k not in ('VarDecl', 'CompoundStmt'):
            up = up.up()
            hops += 1
        if up is not None and up.k == 'VarDecl':
            evar = up.decl_id
        pn = cfg.pos_of(n)
        weighted = False
        recorded = False
        custom_record = []
        wrong_value = []
        wdetail = ''
        positional = None
        if len(n.args()) == 4:
            prop = n.args()[2]
            if any(is_g_weight_read(W, d, cur_edge_vars) for d in [prop] + list(prop.walk())):
                inner = prop.strip_all()
                # an implicit converting construction: MaterializeTemporary -> CXXConstructExpr (not written as a functional cast) -> the scalar
                if inner.k == 'CXXConstructExpr' and len(inner.c) == 1 and (inner.parent is None or inner.parent.k not in ('CXXFunctionalCastExpr', 'CXXTemporaryObjectExpr')):
                    inner = inner.c[0].strip_all()
                inner_t = prog.base_type(inner.j.get('t')) or {}
                if inner_t.get('arith') or (inner_t.get('canon') or '') in ('double', 'float', 'int', 'long', 'unsigned long', 'long long'):
                    # a bare weight converts implicitly to the graph's whole edge-property bundle by filling its FIRST property, whatever its tag is
                    positional = prop
                else:
                    weighted = True
                    wdetail = '4-argument add_edge with an edge-property object built from the input weight'
        for m in (body.walk() if body is not None else ()):
            pm = cfg.pos_of(m)
            same_path = pm is not None and pn is not None and (pm[0] == pn[0] or cfg.block_postdominates(pm[0], pn[0]) or
                                                                 cfg.block_dominates(pn[0], pm[0]))
            if m.k == 'CallExpr' and m.callee and m.callee['g'] == 'boost::put':
                a = m.args()
                if len(a) == 4 and atom(W.world(a[1])) == 'S' and ex.var_of(a[2]) == evar and evar is not None:
                    if is_g_weight_read(W, a[3], cur_edge_vars) and same_path:
                        weighted = True
                        wdetail = 'put(edge_weight, S, e_S, W_G[e])'
                    elif same_path:
                        wdetail = 'weight written is not W_G of the current edge'
                        wrong_value.append(a[3])
                if len(a) == 3 and atom(W.world(a[0])) == 'S' and ex.var_of(a[1]) == evar and evar is not None:
                    if is_g_weight_read(W, a[2], cur_edge_vars) and same_path:
                        weighted = True
                        wdetail = 'put(W_S, e_S, W_G[e])'
            if m.k in ('BinaryOperator', 'CXXOperatorCallExpr') and m.op == '=':
                ops = m.c if m.k == 'BinaryOperator' else m.c[1:]
                l = ops[0].strip_all()
                if l.k == 'CXXOperatorCallExpr' and l.op == '[]' and len(l.c) == 3 and ex.var_of(l.c[2]) == evar and evar is not None:
                    lw = W.world(l.c[1])
                    if isinstance(lw, tuple) and lw[0] == 'kv':
                        if ex.var_of(ops[1]) in cur_edge_vars and same_path:
                            recorded = True
                    elif atom(lw) == 'S' and is_g_weight_read(W, ops[1], cur_edge_vars) and same_path:
                        weighted = True
                        wdetail = 'W_S[e_S] = W_G[e]'
            if m.k in ('CXXMemberCallExpr', 'CallExpr') and m.callee and m.callee.get('in_repo') and evar is not None and same_path and \
                    any(ex.refs_var(a, evar) for a in m.args()) and any(any(ex.refs_var(a, cv) for cv in cur_edge_vars) for a in m.args()):
                custom_record.append(m)
            if m.k == 'CXXMemberCallExpr' and m.callee['name'] in ('insert', 'emplace') and evar is not None:
                ow = W.world(m.object_arg())
                is_edge_map = ((prog.base_type(m.object_arg().strip_all().j.get('t')) or {}).get('rec') or '') in ('std::map', 'std::unordered_map') and \
                    ((prog.base_type(m.object_arg().strip_all().j.get('t')) or {}).get('canon') or '').count('edge_desc_impl') >= 2
                if ((isinstance(ow, tuple) and ow[0] == 'kv') or is_edge_map) and any(ex.refs_var(a, evar) for a in m.args()) and \
                        any(any(ex.refs_var(a, cv) for cv in cur_edge_vars) for a in m.args()) and same_path:
                    recorded = True
        lossy = [x for x in _LOSSY_COPIES if x[0].fn is fn and loop.is_ancestor_of(x[0])]
        del _LOSSY_COPIES[:]
        if positional is not None and not weighted:
            F.add('R05c', n, fn, whatw, 'violation',
                  'the weight `%s` is passed as the property argument of add_edge: it converts implicitly to the edge-property bundle of the spanner by filling its first '
                  'property, which is edge_weight only for graphs declared property<edge_weight_t, ..>; for a graph whose edge properties start with another tag '
                  '(edge_index_t, edge_name_t, ...) every spanner edge gets weight 0 and the (2k-1) bound is lost' % positional.text(40),
                  key='R05c|%s|positional-property' % fn.g)
        elif weighted and lossy:
            F.add('R05c', n, fn, whatw, 'violation',
                  'the weight is copied through `%s %s` while the map\'s value type is %s: integral weights above 2^53 are rounded, the spanner no longer '
                  'carries the input weights (wider integral instantiations of the same template)' % (lossy[0][2], lossy[0][1], lossy[0][3]),
                  key='R05c|%s|lossy-copy' % fn.g)
        elif weighted:
            F.add('R05c', n, fn, whatw, 'ok', wdetail)
        elif wrong_value and not _known_wrong_weight(W, wrong_value[0]):
            # a weight is written, but where it comes from is outside the idiom table (a cached copy, a decorated sequence, a helper)
            F.add('R05c', n, fn, whatw, 'undecided', 'the weight written for the new edge is `%s`, whose origin is not traced to the caller\'s weight map' % wrong_value[0].text(40))
        else:
            F.add('R05c', n, fn, whatw, 'violation',
                  'add_edge(u, v, spanner) value-initialises the edge weight to 0 and nothing writes the input weight for it%s: '
                  'the exact phase and the closing Dijkstra run on an unweighted spanner' % ((' (' + wdetail + ')') if wdetail else ''),
                  key='R05c|%s|unweighted' % fn.g)
        if recorded:
            F.add('R05d', n, fn, whatt, 'ok', 'table[e_S] = e')
        elif custom_record:
            F.add('R05d', n, fn, whatt, 'undecided', 'the pair (e_S, e) is handed to the repo function `%s` (a table outside the idiom list)' % custom_record[0].callee['g'])
        else:
            F.add('R05d', n, fn, whatt, 'violation', 'no insertion (e_S -> e) for the edge just added on the same path',
                  key='R05d|%s|unrecorded' % fn.g)


def stale_table_read(prog, fn, rhs, reach_call):
    """(table name, why incomplete) if rhs subscripts a container that is handed to the bounded search as an out-parameter and
    that search leaves its main loop early; None otherwise"""
    tables = set()
    for d in rhs.walk():
        if d.k == 'CXXOperatorCallExpr' and d.op == '[]' and len(d.c) == 3:
            v = ex.var_of(d.c[1])
            if v is not None:
                tables.add(v)
        if d.k == 'CXXMemberCallExpr' and d.callee and d.callee['name'] == 'at':
            v = ex.var_of(d.object_arg())
            if v is not None:
                tables.add(v)
    for i, a in enumerate(reach_call.args()):
        v = ex.var_of(a)
        if v is None or v not in tables:
            continue
        callee = prog.fn_of_fref(reach_call.callee_id) if reach_call.callee_id is not None else None
        if callee is None or i >= len(callee.param_ids):
            continue
        pt = prog.type(prog.vars[callee.param_ids[i]]['ty']) or {}
        if not pt.get('ref') or pt.get('const'):
            continue
        # does the search (or what it forwards to) leave its queue loop before the queue is empty?
        for g_ in ex.reachable_functions(prog, [callee]):
            for lp in g_.walk():
                if lp.k in ('WhileStmt', 'ForStmt') and lp.cond is not None and any(
                        x.k == 'CXXMemberCallExpr' and x.callee and x.callee['name'] == 'empty' for x in lp.cond.walk()):
                    exits = [x for x in lp.body.walk() if x.k in ('ReturnStmt', 'BreakStmt')] if lp.body is not None else []
                    exits = [x for x in exits if x.k == 'ReturnStmt' or x.enclosing('WhileStmt', 'ForStmt', 'DoStmt', 'CXXForRangeStmt') is lp]
                    if exits:
                        return (prog.vars[v]['name'], 'that search stops as soon as its own target is dequeued or the hop limit is hit (line %d of %s)' % (
                            exits[0].line, g_.g))
    return None


_LOSSY_COPIES = []


def _accumulate_onto(expr, acc):
    """expr is std::accumulate(first, last, acc, f) with the accumulator itself as initial value"""
    t = expr.strip_all()
    return t.k == 'CallExpr' and t.callee is not None and t.callee['g'] == 'std::accumulate' and len(t.args()) == 4 and ex.var_of(t.args()[2]) == acc


def _known_wrong_weight(W, val):
    """the written value is positively something else than an input weight: a constant, or a read of a map that is not the caller's"""
    s = val.strip_all()
    if s.cv is not None or s.k in ('FloatingLiteral', 'IntegerLiteral', 'CXXScalarValueInitExpr'):
        return True
    if s.k == 'CallExpr' and s.callee and s.callee['g'] == 'boost::get' and len(s.args()) in (2, 3):
        return True          # a property / map read that was not accepted as W_G[current edge]
    if s.k == 'CXXOperatorCallExpr' and s.op == '[]':
        return True
    return False


def is_g_weight_read(W, n, cur_edge_vars, depth=0):
    s = n.strip_all()
    # a local holding the weight read (const WeightType w = get(W_G, e);)
    v0 = ex.var_of(s)
    if v0 is not None and depth < 3 and getattr(n, 'fn', None) is not None:
        d0 = ex.unique_def(n.fn, v0)
        if d0 is not None and is_g_weight_read(W, d0, cur_edge_vars, depth + 1):
            prog = n.fn.prog
            lt = prog.base_type(prog.vars[v0]['ty']) or {}
            rt = prog.base_type(d0.strip_all().j.get('t')) or {}
            if lt.get('float') and not rt.get('float') and rt.get('arith'):
                _LOSSY_COPIES.append((n, prog.vars[v0]['name'], lt.get('s'), rt.get('s')))
            return True
    if s.k == 'CallExpr' and s.callee and s.callee['g'] == 'boost::get' and len(s.args()) == 2:
        return atom(W.world(s.args()[0])) == 'G' and ex.var_of(s.args()[1]) in cur_edge_vars
    if s.k == 'CXXOperatorCallExpr' and s.op == '[]' and len(s.c) == 3:
        return atom(W.world(s.c[1])) == 'G' and not isinstance(W.world(s.c[1]), tuple) and ex.var_of(s.c[2]) in cur_edge_vars
    return False


def comparator_by_orderings(prog, W, lam):
    """general evaluation of a two-parameter comparator over the orderings of the two caller-map weights.  Handles several
    return statements, locals holding the weights, and tolerance tests `abs(w1 - w2) > c` (atom 'far', which implies the weights
    differ).  Returns (verdict, detail): 'asc' when the comparator is true whenever W[a] < W[b] and false whenever W[a] > W[b]
    (any tie-break), 'desc', 'other' with a counterexample, or (None, why) when a leaf is outside the idiom table."""
    import itertools
    if lam.k != 'LambdaExpr':
        return None, 'not a lambda'
    for op in lam.j.get('lambda_ops', ()):
        lf = prog.fn_of_fref(op)
        if lf is None or len(lf.param_ids) != 2 or lf.body is None:
            continue
        a, b = lf.param_ids

        def weight_of(e, depth=0):
            s = e.strip_all()
            if s.k == 'CXXOperatorCallExpr' and s.op == '[]' and len(s.c) == 3 and atom(W.world(s.c[1])) == 'G':
                return ex.var_of(s.c[2])
            if s.k == 'CallExpr' and s.callee and s.callee['g'] == 'boost::get' and len(s.args()) == 2 and atom(W.world(s.args()[0])) == 'G':
                return ex.var_of(s.args()[1])
            v = ex.var_of(s)
            if v is not None and depth < 3:
                d = ex.unique_def(lf, v)
                if d is not None:
                    return weight_of(d, depth + 1)
            return None
        notes = []

        def atomize(leaf):
            s = leaf.strip_all()
            lt, gt = ex.f_atom('lt'), ex.f_atom('gt')
            eq = ex.f_and(ex.f_not(lt), ex.f_not(gt))
            if s.k == 'BinaryOperator' and s.op in ('<', '>', '<=', '>=', '==', '!='):
                x, y = weight_of(s.c[0]), weight_of(s.c[1])
                if (x, y) in ((a, b), (b, a)):
                    l_, g_ = (lt, gt) if (x, y) == (a, b) else (gt, lt)
                    return {'<': l_, '>': g_, '<=': ex.f_not(g_), '>=': ex.f_not(l_), '==': eq, '!=': ex.f_or(lt, gt)}[s.op]
                # tolerance:  abs(w1 - w2) OP c   with a positive constant c
                for (l0, r0, o0) in ((s.c[0], s.c[1], s.op), (s.c[1], s.c[0], {'<': '>', '>': '<', '<=': '>=', '>=': '<='}.get(s.op, s.op))):
                    c0 = l0.strip_all()
                    cval = r0.strip_all()
                    cnum = cval.fvalue if getattr(cval, 'fvalue', None) is not None else cval.cv
                    if c0.k == 'CallExpr' and c0.callee and c0.callee['name'] in ('abs', 'fabs') and c0.args() and cnum is not None:
                        d0 = c0.args()[0].strip_all()
                        if d0.k == 'BinaryOperator' and d0.op == '-' and {weight_of(d0.c[0]), weight_of(d0.c[1])} == {a, b}:
                            if float(cnum) > 0 or (float(cnum) == 0 and o0 in ('<=', '>=')):
                                notes.append((leaf, float(cnum)))
                                far = ex.f_atom('far')
                                return {'>': far, '>=': far, '<': ex.f_not(far), '<=': ex.f_not(far)}.get(o0)
                            if float(cnum) == 0:
                                return {'>': ex.f_or(lt, gt), '<': ex.FALSE}.get(o0)
            return ex.f_atom(('free', leaf.i))
        cfg = lf.cfg
        total = ex.FALSE
        parts = []
        for r in ex.returns_of(lf):
            if not r.c:
                return None, 'return without value'
            v = ex.formula(r.c[0], atomize)
            if v is None:
                return None, 'return value `%s` not understood' % r.c[0].text(40)
            pc = ex.path_condition(cfg, r, atomize)
            parts.append((pc, v))
        if not parts:
            return None, 'no return'
        atoms = []
        for (pc, v) in parts:
            for x in ex.f_atoms(pc) + ex.f_atoms(v):
                if x not in atoms:
                    atoms.append(x)
        if 'lt' not in atoms and 'gt' not in atoms:
            ptypes = [((prog.base_type(d.get('ty')) or {}).get('canon') or '') for d in lf.params]
            if any(not t.replace('const ', '').lstrip().startswith('boost::detail::edge_desc_impl') for t in ptypes):
                return None, 'the sorted elements are not edge descriptors (`%s`): a sort key carried with the element is outside the idiom table' % (ptypes[0][:40] if ptypes else '?')
            return 'other', 'the comparator never compares the two weights of the caller\'s map'
        if len(atoms) > 14:
            return None, 'too many atoms'
        asc = desc = True
        cex = None
        for vals in itertools.product((False, True), repeat=len(atoms)):
            e0 = dict(zip(atoms, vals))
            lt_, gt_ = e0.get('lt', False), e0.get('gt', False)
            if lt_ and gt_:
                continue
            if e0.get('far') and not (lt_ or gt_):
                continue
            if not (lt_ or gt_):
                continue
            val = any(ex.f_eval(pc, e0) and ex.f_eval(v, e0) for (pc, v) in parts)
            if (lt_ and not val) or (gt_ and val):
                if asc:
                    cex = dict(e0)
                asc = False
            if (gt_ and not val) or (lt_ and val):
                desc = False
        if asc:
            return 'asc', 'true whenever W[a] < W[b], false whenever W[a] > W[b], for every valuation of the tie-break'
        if desc:
            return 'desc', 'orders by decreasing weight'
        if cex is not None and 'far' in cex and not cex['far'] and notes:
            return 'other', ('weights that differ by at most %g are treated as ties (`%s`) and ordered by something else: a heavier edge may be '
                             'scanned before a lighter one' % (notes[0][1], notes[0][0].text(40)))
        return 'other', 'for W[a] %s W[b] the comparator answers %s' % ('<' if cex and cex.get('lt') else '>', 'false' if cex and cex.get('lt') else 'true')
    return None, 'no call operator'


def comparator_verdict(prog, W, lam):
    """'asc' if the comparator is W_G[a] < W_G[b] over its two parameters, 'desc', 'other', or None"""
    if lam.k != 'LambdaExpr':
        return None
    for op in lam.j.get('lambda_ops', ()):
        lf = prog.fn_of_fref(op)
        if lf is None or len(lf.param_ids) != 2:
            continue
        rets = ex.returns_of(lf)
        if len(rets) != 1 or not rets[0].c:
            return None
        e = rets[0].c[0].strip_all()
        if e.k != 'BinaryOperator' or e.op not in ('<', '>', '<=', '>='):
            return None
        sides = []
        for x in e.c:
            s = x.strip_all()
            who = None
            if s.k == 'CXXOperatorCallExpr' and s.op == '[]' and len(s.c) == 3:
                if atom(W.world(s.c[1])) == 'G':
                    who = ex.var_of(s.c[2])
            if s.k == 'CallExpr' and s.callee and s.callee['g'] == 'boost::get' and len(s.args()) == 2:
                if atom(W.world(s.args()[0])) == 'G':
                    who = ex.var_of(s.args()[1])
            sides.append(who)
        if None in sides and not any(x.k in ex.CALL_KINDS and x.callee and (x.callee['g'] == 'boost::get' or x.callee['name'] == 'operator[]')
                                     for y in e.c for x in [y.strip_all()] + list(y.walk())):
            return None     # no map lookup at all (sort keys carried with the elements, helpers): not this idiom
        a, b = lf.param_ids
        if sides == [a, b]:
            return 'asc' if e.op == '<' else ('desc' if e.op in ('>', '>=') else None)
        if sides == [b, a]:
            return 'asc' if e.op == '>' else ('desc' if e.op in ('<', '<=') else None)
        return 'other'
    return None


# ---------------------------------------------------------------------------------------------- builder
def analyse_builder(prog, F, W, fn):
    """closing path: Dijkstra on the S graph with the S weight map from the S image of one endpoint; the cycle is
    the translated path plus the dropped edge; weights are read from the caller's map"""
    what = 'the closing path is a shortest path in the weighted spanner between the endpoints of the dropped edge'
    fns = [fn] + [prog.fn_of_fref(op) for n in fn.walk() if n.k == 'LambdaExpr' for op in n.j.get('lambda_ops', ())]
    fns = [f for f in fns if f is not None]
    found = False
    for f in fns:
        for n in f.walk():
            if n.k == 'CallExpr' and n.callee and n.callee['g'] == 'parmcb::dijkstra' and len(n.args()) >= 5:
                found = True
                gw, ww, sw = atom(W.world(n.args()[0])), atom(W.world(n.args()[1])), atom(W.world(n.args()[2]))
                if gw == 'S' and ww == 'S' and sw == 'S':
                    F.add('R06b', n, fn, what, 'ok', 'dijkstra(S graph, S weight map, S vertex, ...)')
                else:
                    F.add('R06b', n, fn, what, 'violation', 'dijkstra arguments have worlds graph=%s weight=%s source=%s' % (gw, ww, sw),
                          key='R06b|%s|dijkstra-worlds' % fn.g)
        # pairing: each edge pushed into the cycle has its caller-map weight added
        pushes = [n for n in f.walk() if n.k == 'CXXMemberCallExpr' and n.callee and n.callee['name'] == 'push_back'
                  and 'edge_desc_impl' in ((prog.base_type(n.args()[0].strip_all().j.get('t')) or {}).get('canon') or '')
                  and (prog.base_type(n.object_arg().strip_all().j.get('t')) or {}).get('rec') == 'std::list']
        for p in pushes:
            ev = ex.var_of(p.args()[0])
            whatp = 'the weight of every edge put into a cycle is read from the caller\'s map for that same edge'
            ok = False
            stmt = p.enclosing_stmt()
            sibs = stmt.parent.c if stmt.parent is not None else []
            for s2 in sibs:
                for d in s2.walk():
                    if d.k == 'CompoundAssignOperator' and d.op == '+=':
                        t = d.c[1].strip_all()
                        if t.k == 'CallExpr' and t.callee and t.callee['g'] == 'boost::get' and len(t.args()) == 2 and \
                                ex.var_of(t.args()[1]) == ev and atom(W.world(t.args()[0])) == 'G':
                            ok = True
            fold = None
            if not ok:
                # the weight may be folded over the finished list instead: accumulate(list.begin(), list.end(), W(), [](sum, e) { return sum + get(W_G, e); })
                lv = ex.var_of(p.object_arg())
                for a_ in f.walk():
                    if a_.k == 'CallExpr' and a_.callee and a_.callee['g'] in ('std::accumulate', 'std::reduce') and len(a_.args()) >= 3:
                        b0 = a_.args()[0].strip_all()
                        if b0.k == 'CXXMemberCallExpr' and b0.callee and b0.callee['name'] in ('begin', 'cbegin') and ex.var_of(b0.object_arg()) == lv and lv is not None:
                            fold = 'unknown'
                            if len(a_.args()) >= 4:
                                lam = ex.alias_of(f, a_.args()[3]) if a_.args()[3].strip_all().k == 'DeclRefExpr' else a_.args()[3].strip_all()
                                lv_ = ex.var_of(a_.args()[3])
                                if lam is not None and lam.k != 'LambdaExpr' and lv_ is not None and ex.unique_def(f, lv_) is not None:
                                    lam = ex.unique_def(f, lv_).strip_all()
                                for op in (lam.j.get('lambda_ops', ()) if lam is not None and lam.k == 'LambdaExpr' else ()):
                                    lf = prog.fn_of_fref(op)
                                    if lf is None or len(lf.param_ids) != 2:
                                        continue
                                    for r_ in ex.returns_of(lf):
                                        e_ = r_.c[0].strip_all() if r_.c else None
                                        if e_ is not None and e_.k == 'BinaryOperator' and e_.op == '+':
                                            sides = [x.strip_all() for x in e_.c]
                                            for (a0, a1) in ((sides[0], sides[1]), (sides[1], sides[0])):
                                                if ex.var_of(a0) == lf.param_ids[0] and a1.k == 'CallExpr' and a1.callee and a1.callee['g'] == 'boost::get' and \
                                                        len(a1.args()) == 2 and ex.var_of(a1.args()[1]) == lf.param_ids[1] and atom(W.world(a1.args()[0])) == 'G':
                                                    fold = 'ok'
                    if a_.k == 'CXXForRangeStmt' and a_.role('range') is not None and ex.var_of(a_.role('range')) == lv and lv is not None and fold is None:
                        fold = 'unknown'
            if ok:
                F.add('R05b', p, fn, whatp, 'ok', 'push_back(e); weight += get(W_G, e)')
            elif fold == 'ok':
                F.add('R05b', p, fn, whatp, 'ok', 'the finished list is folded with sum + get(W_G, e)')
            elif fold == 'unknown':
                F.add('R05b', p, fn, whatp, 'undecided', 'the weight is computed by a fold / loop over the finished list that is outside the idiom table')
            else:
                F.add('R05b', p, fn, whatp, 'violation', 'no `+= get(caller map, %s)` next to the push_back' % (prog.vars[ev]['name'] if ev is not None else '?'),
                      key='R05b|%s|pairing' % fn.g)
    # R06d: every closing path is read from maps that the search of *this* edge filled from a clean state
    whatd = 'the shortest-path maps behind each closing path are filled by a search run for this edge on freshly initialised storage'
    LOOPK = ('ForStmt', 'WhileStmt', 'CXXForRangeStmt', 'DoStmt')
    for f in fns:
        fcfg = f.cfg
        for n in f.walk():
            if not (n.k == 'CallExpr' and n.callee and n.callee['g'] == 'parmcb::dijkstra' and len(n.args()) >= 5):
                continue
            loop = n.enclosing(*LOOPK)
            if loop is None:
                F.add('R06d', n, fn, whatd, 'undecided', 'dijkstra is not called inside a per-edge loop')
                continue
            probs, und = [], []
            # (1) unconditional per iteration?
            from .phase import post_dominates_within
            body = loop.body
            first = body.c[0] if body is not None and body.k == 'CompoundStmt' and body.c else body
            pf, pn = (fcfg.pos_of(first) if first is not None else None), fcfg.pos_of(n)
            uncond = bool(pf and pn and (pf[0] == pn[0] or post_dominates_within(fcfg, pn[0], pf[0], loop))) if loop.cond is not None else bool(pf and pn and pf[0] == pn[0])
            if not uncond and pf and pn:
                # range-for loops have no plain cond node: fall back to control dependence inside the body
                conds = [c_ for (c_, _p) in ex.ast_conditions(n) if body is not None and body.is_ancestor_of(c_)]
                uncond = not conds
            callee = prog.fn_of_fref(n.callee_id) if n.callee_id is not None else None
            early = False
            if callee is not None:
                for lp in callee.walk():
                    if lp.k in ('WhileStmt', 'ForStmt') and lp.cond is not None and any(
                            x.k == 'CXXMemberCallExpr' and x.callee and x.callee['name'] == 'empty' for x in lp.cond.walk()):
                        exits = [x for x in (lp.body.walk() if lp.body is not None else ()) if x.k == 'ReturnStmt' or
                                 (x.k == 'BreakStmt' and x.enclosing('WhileStmt', 'ForStmt', 'DoStmt', 'CXXForRangeStmt') is lp)]
                        if exits:
                            early = True
            if not uncond:
                if early:
                    probs.append('the search is skipped on some iterations (the tree of an earlier edge is reused) although parmcb::dijkstra stops as soon as '
                                 'its own target is settled: the reused tree does not reach the new target, the "cycle" is the edge alone or a wrong path')
                else:
                    und.append('the search is skipped on some iterations (reuse of an earlier tree)')
            # (2) fresh storage
            for ai in (3, 4):
                mv = ex.var_of(n.args()[ai])
                md = ex.unique_def(f, mv) if mv is not None else None
                decl = [d for d in f.walk() if d.k == 'VarDecl' and d.decl_id == mv]
                src = decl[0] if decl else None
                vecs = set()
                for x in (src.walk() if src is not None else ()):
                    if x.k == 'DeclRefExpr' and x.decl_id is not None and x.decl_id != mv and prog.rec_name(prog.vars[x.decl_id]['ty']) == 'std::vector':
                        vecs.add(x.decl_id)
                if not vecs and mv is not None and prog.vars[mv].get('fn') not in (None, f.fref_id) and f is not fn:
                    # the map is captured from the enclosing function: is f the body of a TBB parallel algorithm?
                    par_body = False
                    for x in fn.walk():
                        if x.k == 'CallExpr' and x.callee and x.callee['g'] in ('tbb::parallel_for', 'tbb::parallel_reduce', 'oneapi::tbb::parallel_for',
                                                                             'oneapi::tbb::parallel_reduce', 'tbb::detail::d1::parallel_for', 'tbb::detail::d1::parallel_reduce'):
                            for y in x.walk():
                                if y.k == 'LambdaExpr' and f.fref_id in (y.j.get('lambda_ops') or ()):
                                    par_body = True
                    if par_body:
                        probs.append('`%s` is declared outside the task body and captured by reference: all tasks of the parallel loop run their searches on the same '
                                     'distance / predecessor storage (data race, paths of one edge overwritten by another)' % prog.vars[mv]['name'])
                    else:
                        und.append('`%s` is captured from the enclosing function' % prog.vars[mv]['name'])
                    continue
                if not vecs:
                    und.append('storage behind `%s` not found' % n.args()[ai].text(20))
                    continue
                for vv in vecs:
                    vdecl = [d for d in f.walk() if d.k == 'VarDecl' and d.decl_id == vv]
                    if vdecl and loop.is_ancestor_of(vdecl[0]) and vdecl[0].c and prog.vars[vv]['kind'] == 'local':
                        continue        # declared (and initialised) anew in every iteration
                    reinit = False
                    for x in f.walk():
                        if x.k == 'CallExpr' and x.callee and x.callee['g'] in ('std::fill', 'std::fill_n') and x.args() and ex.var_of(
                                x.args()[0].strip_all().object_arg() if x.args()[0].strip_all().k == 'CXXMemberCallExpr' else x.args()[0]) == vv:
                            if loop.is_ancestor_of(x) and fcfg.dominates(x, n):
                                reinit = True
                        if x.k == 'CXXMemberCallExpr' and x.callee and x.callee['name'] == 'assign' and ex.var_of(x.object_arg()) == vv and \
                                loop.is_ancestor_of(x) and fcfg.dominates(x, n):
                            reinit = True
                    if not reinit:
                        probs.append('`%s` is declared outside the per-edge loop and not re-initialised before the search (parmcb::dijkstra does not '
                                     'initialise its maps): labels and predecessors of the previous edge remain' % prog.vars[vv]['name'])
            if probs:
                F.add('R06d', n, fn, whatd, 'violation', '; '.join(sorted(set(probs))), key='R06d|%s|stale' % fn.g)
            elif und:
                F.add('R06d', n, fn, whatd, 'undecided', '; '.join(und))
            else:
                F.add('R06d', n, fn, whatd, 'ok', 'search called on every iteration; dist / pred vectors declared inside the loop')
    # R05b (sum type): weights are summed in the weight type: std::accumulate / parallel_reduce start values have the element type
    for f in fns:
        for n in f.walk():
            if n.k == 'CallExpr' and n.callee and n.callee['g'] == 'std::accumulate' and len(n.args()) >= 3:
                it = prog.base_type(n.args()[2].strip_all().j.get('t')) or {}
                a0 = n.args()[0].strip_all()
                cont = a0.object_arg().strip_all() if a0.k == 'CXXMemberCallExpr' and a0.object_arg() is not None else None
                ct = prog.base_type(cont.j.get('t')) if cont is not None else None
                el = None
                for ta in ((ct or {}).get('targs') or []):
                    if isinstance(ta, int):
                        el = prog.base_type(ta) or {}
                        break
                whats = 'weights are accumulated in the weight type'
                if el is None or not el.get('arith'):
                    continue
                if it.get('float') and not el.get('float'):
                    F.add('R05b', n, fn, whats, 'violation',
                          'std::accumulate starts from `%s` of type %s while the summed elements are %s: the sum of integral weights is computed in floating point and '
                          'rounded above 2^53, the returned value differs from the weight of the emitted cycles' % (n.args()[2].text(10), it.get('s'), el.get('s')),
                          key='R05b|%s|accumulate-type' % fn.g)
                else:
                    F.add('R05b', n, fn, whats, 'ok', 'start value of type %s' % it.get('s'))
    # any other search routine of the library run on the spanner from inside the builder
    wtypes = set()
    for f in fns:
        for n in f.walk():
            if n.k == 'CallExpr' and n.callee and n.callee['g'] == 'boost::get' and len(n.args()) == 2 and \
                    'edge_desc_impl' in ((prog.base_type(n.args()[1].strip_all().j.get('t')) or {}).get('canon') or ''):
                wt = prog.base_type(n.args()[0].strip_all().j.get('t')) or {}
                if wt.get('canon'):
                    wtypes.add(wt['canon'])
    for f in fns:
        for n in f.walk():
            if n.k == 'CallExpr' and n.callee and n.callee['g'].startswith('parmcb::') and n.callee['g'] != 'parmcb::dijkstra' and \
                    n.callee.get('in_repo') and len(n.args()) >= 4 and atom(W.world(n.args()[0])) == 'S' and \
                    not EXACT_ENTRY_RE.match(n.callee['g']):
                found = True
                argtypes = {(prog.base_type(a.strip_all().j.get('t')) or {}).get('canon') for a in n.args()}
                if wtypes and not (argtypes & wtypes):
                    F.add('R06b', n, fn, what, 'violation',
                          'the predecessors used for the closing path come from %s, which is not given a weight map: it finds a path with the '
                          'fewest edges, not the lightest one, so the cycle may weigh more than (2k-1) times the dropped edge' % n.callee['g'],
                          key='R06b|%s|unweighted-search' % fn.g)
                else:
                    F.add('R06b', n, fn, what, 'undecided', 'closing path computed by %s: not a routine in the idiom table' % n.callee['g'])
    if not found:
        F.add('R06b', fn.body, fn, what, 'undecided', 'no call to parmcb::dijkstra in the cycle builder')


# ---------------------------------------------------------------------------------------------- exact functors
def analyse_functor(prog, F, fn):
    """R05e: the functor the approximate algorithm runs on the spanner returns the exact entry point's result; a path
    that skips the call is only right when the cycle space is provably trivial"""
    what = 'the exact phase is skipped only when the graph provably has no cycle'
    cfg = fn.cfg
    calls = [n for n in fn.walk() if n.k == 'CallExpr' and n.callee and EXACT_ENTRY_RE.match(n.callee['g'])]
    if not calls:
        F.add('R05e', fn.body, fn, what, 'undecided', 'functor does not call an exact entry point')
        return
    call = calls[0]
    pids = fn.param_ids
    okargs = len(call.args()) >= 3 and [ex.var_of(a) for a in call.args()[:3]] == pids[:3]
    if not okargs:
        F.add('R05e', call, fn, 'the functor forwards (graph, weight map, output iterator) unchanged', 'violation',
              'arguments are not forwarded in order', key='R05e|%s|args' % fn.g)
    rets = ex.returns_of(fn)
    for r in rets:
        if r.c and (r.c[0].strip_all() is call or call in list(r.c[0].walk())):
            F.add('R05e', r, fn, what, 'ok', 'returns the entry point\'s value')
            continue
        if r.c and ex.var_of(r.c[0]) is not None:
            d = ex.unique_def(fn, ex.var_of(r.c[0]))
            if d is not None and (d.strip_all() is call):
                F.add('R05e', r, fn, what, 'ok', 'returns the entry point\'s value')
                continue
        # an early return: judge its guard over (m, n) = (num_edges, num_vertices)
        gpar = pids[0] if pids else None

        def atomize(leaf):
            return None
        conds = [(c, pol, None) for (c, pol) in ex.ast_conditions(r)]
        decided = True
        bad = None
        for m, nn in itertools.product(range(0, 8), range(0, 8)):
            if m > nn * (nn - 1) // 2:
                continue

            def ev(node):
                s = node.strip_all()
                if s.cv is not None and s.k not in ex.CALL_KINDS:
                    return s.cv
                if s.k == 'CallExpr' and s.callee and s.callee['g'] in ('boost::num_edges', 'boost::num_vertices') and \
                        ex.var_of(s.args()[0]) == gpar:
                    return m if s.callee['name'] == 'num_edges' else nn
                if s.k == 'BinaryOperator' and len(s.c) == 2:
                    a, b = ev(s.c[0]), ev(s.c[1])
                    if a is None or b is None:
                        return None
                    return {'<': a < b, '<=': a <= b, '>': a > b, '>=': a >= b, '==': a == b, '!=': a != b,
                            '+': a + b, '-': a - b, '*': a * b, '&&': bool(a) and bool(b), '||': bool(a) or bool(b)}.get(s.op)
                if s.k == 'UnaryOperator' and s.op == '!':
                    a = ev(s.c[0])
                    return None if a is None else (not a)
                return None
            holds = True
            for (c, pol, _b) in conds:
                v = ev(c)
                if v is None:
                    decided = False
                    break
                if bool(v) != pol:
                    holds = False
            if not decided:
                break
            if holds and m > 2:
                bad = (m, nn)
                break
        if not decided:
            F.add('R05e', r, fn, what, 'undecided', 'early return under a condition that is not over num_edges/num_vertices')
        elif bad is not None:
            F.add('R05e', r, fn, what, 'violation',
                  'early `%s` is taken for a graph with m=%d edges and n=%d vertices, which can contain a cycle '
                  '(e.g. a triangle plus isolated vertices): its cycles are silently dropped' % (r.text(30), bad[0], bad[1]),
                  key='R05e|%s|early-return' % fn.g)
        else:
            F.add('R05e', r, fn, what, 'ok', 'early return only for m <= 2 (always a forest)')


def report(rep, findings, rules):
    for (rule, node, fn, what, status, detail, key) in findings:
        if rule not in rules:
            continue
        rep.add(rule, node, fn, what, status, detail, key=key)
