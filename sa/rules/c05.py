"""C05 - approximate algorithms return a basis of the caller's graph with true weight.

Claimed (structure): descriptor ownership and weight provenance.  "Is a basis" is value-level and not claimed.
R05a  nothing written to the caller's output iterator is a descriptor of the internal spanner (A5)
R05b  every term of the returned weight is read through the caller's map for the edge being emitted
R05c  the internal graph's edge weights are defined (each add_edge is followed by a write of W_G[e])
R05d  the spanner-edge -> input-edge table is complete and read with at()/find
R05e  the exact phase is never skipped for a spanner that can contain a cycle
R05f  the caller's output iterator is not reused after it was passed by value to something that writes through it
R15e  BGL calls use descriptors with the graph they belong to (world discipline)
"""
import os

from lib import env
from . import approx

TITLE = 'C05: two-world (caller graph vs internal spanner) affinity inference over the approximate algorithms.'
RULES = {'R06a': 1, 'R06d': 2, 'R15b': 2, 'R05h': 4, 'R05a': 3, 'R05b': 4, 'R05c': 1, 'R05d': 2, 'R05e': 5, 'R05f': 2, 'R15e': 10}
DOCS = {
    'R05a': 'no internal descriptor escapes through the caller\'s iterator',
    'R05b': 'returned weight is accumulated from the caller\'s weight map for the emitted edges',
    'R05c': 'spanner edges carry the input weights',
    'R05d': 'translation table complete, read with at()/find',
    'R05e': 'exact phase skipped only for provably acyclic graphs',
    'R05f': 'the caller\'s output iterator is never reused after being handed away by value',
    'R15e': 'same-world discipline of every BGL call in the approximate algorithms',
    'R06a': 'the k check rejects k = 0 and nothing else: every k >= 1 is accepted for every graph size (also the empty graph)',
    'R06b': 'closing path = Dijkstra on the weighted spanner',
    'R05h': 'throws only for violated input preconditions',
    'R06d': 'each closing path comes from a search run for its own edge on freshly initialised maps',
    'R15a': 'retain/drop partition of the scanned edges',
    'R15b': 'hop bound 2k-1 and polarity of the test',
    'R15c': 'edges scanned by non-decreasing input weight',
}


def run_rules(rep, tier, rules, floors, positive=True):
    for r in rules:
        rep.rule(r, DOCS.get(r, ''), floor=floors.get(r, 1))
    tus = [env.witness_tu()]
    if tier == 'thorough':
        tus += [t for t in env.repo_tus() if 'approx' in os.path.basename(t)]
    progs = env.extract(tus, 'full')
    rep.saw_programs(progs.values())
    any_run = False
    for tu, prog in progs.items():
        F, W = approx.analyse(prog)
        if W is not None:
            any_run = True
            rep.extra.setdefault('world_inference', []).append({'tu': os.path.basename(tu), 'rounds': W.rounds, 'variables_with_world': len([v for v in W.W.values() if v is not None])})
        approx.report(rep, F, rules)
    if not any_run:
        rep.analysis_broken('BaseApproxSpannerAlgorithm::run is not instantiated (anchor vanished)')
    if positive:
        pos = os.path.join(env.WITNESS, 'positive', 'approx_broken.cc')
        try:
            pp = env.extract([pos], 'full', ('first:-I' + os.path.join(env.WITNESS, 'positive', 'broken_include'),))[pos]
            F, W = approx.analyse(pp)
            for r in rules:
                if r == 'R05h':
                    continue      # R05h only ever answers ok / undecided
                rep.positive(r, 'witness/positive/approx_broken.cc',
                             any(f[0] == r and f[4] == 'violation' for f in F))
        except env.AnalysisBroken as e:
            # the broken copy no longer fits the repo's other headers: report, but still decide the real tree
            rep.analysis_broken('positive example approx_broken.cc does not parse against the current headers: ' + str(e).split('\n')[1][:200])
    rep.assume('BGL accessor semantics as documented (source/target/opposite/add_edge/get/put); parmcb::dijkstra writes predecessor '
               'edges that are out_edges of its graph argument; the exact entry points emit only descriptors of their graph argument')


def run(rep, tier):
    run_rules(rep, tier, list(RULES), RULES)
    # no state kept across calls in the approximate machinery (a function-local static sized for the first graph breaks the next, larger one)
    from . import c07
    rep.rule('R07g', 'no mutable function-local static state in the approximate algorithms and the searches they call (shared with C07)', floor=0)
    rep.rule('R07h', 'container sizes computed from num_edges / num_vertices in the approximate algorithms do not wrap for sparse disconnected graphs (a '
             'length_error means no basis is returned at all)', floor=0)
    rep.rule('R07q', 'an emitted cycle is not built on top of a moved-from list (each emitted list is one simple cycle whatever the output iterator does with it)', floor=0)
    rep.rule('R07p', 'the returned weight is folded in the weight type (std::accumulate sums in the type of its initial value)', floor=0)
    for prog in env.extract([env.witness_tu()], 'full').values():
        c07.r07g(rep, prog, only_files=('approx_spanner', 'parmcb_approx', 'detail/bfs.hpp', 'detail/dijkstra.hpp'))
        c07.r07h(rep, prog, only_files=('approx_spanner', 'parmcb_approx'))
        c07.r07p(rep, prog, only_files=('approx_spanner', 'parmcb_approx'))
        c07.r07q(rep, prog, only_files=('approx_spanner', 'parmcb_approx'))
