"""Structure of the de Pina phase loop and of the cycle constructors (shared by C01, C02, C04).

Five sibling implementations of the phase loop are cross-checked: mcb_sva_signed, _mcb_sva_trees,
mcb_sva_signed_tbb, mcb_sva_signed_mpi, _mcb_sva_trees_mpi.
"""
import re

from lib import env, ex, par
from . import common, minsel
from .c10 import guards_formula

PHASE_FUNCS = ('parmcb::mcb_sva_signed', 'parmcb::_mcb_sva_trees', 'parmcb::mcb_sva_signed_tbb',
               'parmcb::mcb_sva_signed_mpi', 'parmcb::_mcb_sva_trees_mpi')


class Findings(list):
    def add(self, rule, node, fn, what, status, detail='', key=None):
        self.append((rule, node, fn, what, status, detail, key))


FILTERS = {}


def provenance(fn, var, depth=0):
    """which (kind, tuple variable) a container variable is filled from: ('cyc', T) for the cycle component of the
    (cycle, weight, found) triple T, or ('var', X)"""
    if depth > 5 or var is None:
        return None
    srcs = set()
    for n in fn.walk():
        if n.k == 'CallExpr' and n.callee:
            g = n.callee['g']
            a = n.args()
            if g == 'std::copy' and len(a) == 3:
                dst = a[2].strip_all()
                if dst.k == 'CallExpr' and dst.callee and dst.callee['name'] in ('back_inserter', 'inserter', 'front_inserter') and \
                        ex.var_of(dst.args()[0]) == var:
                    s = a[0].strip_all()
                    if s.k == 'CXXMemberCallExpr' and s.callee['name'] in ('begin', 'cbegin'):
                        srcs.add(source_of(fn, s.object_arg(), depth))
            if g == 'parmcb::convert_edges' and len(a) == 3:
                dst = a[1].strip_all()
                if dst.k == 'CallExpr' and dst.callee and dst.callee['name'] in ('back_inserter', 'inserter', 'front_inserter') and \
                        ex.var_of(dst.args()[0]) == var:
                    srcs.add(source_of(fn, a[0], depth))
        if n.k == 'CXXMemberCallExpr' and n.callee and n.callee['name'] in ('insert', 'push_back') and ex.var_of(n.object_arg()) == var:
            lp = n.enclosing('CXXForRangeStmt')
            if lp is not None and n.args():
                lv = lp.role('loopvar')
                lvid = None
                for d in (lv.walk() if lv is not None else ()):
                    if d.k == 'VarDecl':
                        lvid = d.decl_id
                arg = n.args()[-1]
                direct = lvid is not None and ex.var_of(arg) == lvid
                if lvid is not None and not direct:
                    # insert(index(e)) / const idx = index(e); insert(idx): a per-element conversion of the loop variable
                    a1 = arg.strip_all()
                    av = ex.var_of(a1)
                    if av is not None:
                        d1 = ex.unique_def(fn, av)
                        a1 = d1.strip_all() if d1 is not None else a1
                    if a1.k in ('CXXOperatorCallExpr', 'CXXMemberCallExpr', 'CallExpr') and \
                            [x for x in a1.walk() if x.k == 'DeclRefExpr' and x.decl_id is not None and x.decl_id == lvid] and \
                            len([x for x in a1.walk() if x.k == 'DeclRefExpr' and x.decl_id is not None and x.prog.vars[x.decl_id].get('kind') in ('local', 'param')
                                 and x.decl_id != lvid and 'ForestIndex' not in (x.tname or '')]) == 0:
                        direct = True
                if direct:
                    # a filter on the inserted elements makes the copy partial: recognised only as `index < bound`
                    g = n.parent
                    filt = []
                    while g is not None and g is not lp:
                        if g.k in ('IfStmt', 'ConditionalOperator', 'SwitchStmt'):
                            filt.append(g)
                        g = g.parent
                    if filt:
                        FILTERS.setdefault(var, []).extend((n, g) for g in filt)
                    rng = lp.role('range')
                    for d in (rng.walk() if rng is not None else ()):
                        if d.k == 'VarDecl' and d.c:
                            srcs.add(source_of(fn, d.c[0], depth))
    for n in fn.walk():
        if n.k == 'VarDecl' and n.decl_id == var and n.c:
            s = source_of(fn, n.c[0], depth)
            if s is not None and s[0] == 'cyc':
                srcs.add(s)
    srcs.discard(None)
    if len(srcs) == 1:
        return list(srcs)[0]
    if not srcs:
        return None
    return ('mixed', tuple(sorted(srcs, key=repr)))


def source_of(fn, expr, depth=0):
    if expr is None:
        return None
    i, x = minsel.tuple_index(expr)
    if i == 0:
        return ('cyc', ex.var_of(x))
    s = expr.strip_all()
    if s.k == 'MemberExpr' and s.decl and s.decl.get('name') in ('edges', 'cycle') and s.c:
        return ('cyc', ex.var_of(s.c[0]))
    # a container built from a whole range: std::list<Edge>(X.begin(), X.end())
    if s.k in ex.CTOR_KINDS and (len(s.c) == 2 or (len(s.c) == 3 and s.c[2].k == 'CXXDefaultArgExpr')):
        b, e = s.c[0].strip_all(), s.c[1].strip_all()
        if b.k == 'CXXMemberCallExpr' and e.k == 'CXXMemberCallExpr' and b.callee and e.callee and b.callee['name'] in ('begin', 'cbegin') and \
                e.callee['name'] in ('end', 'cend') and ex.key(b.object_arg()) == ex.key(e.object_arg()):
            return source_of(fn, b.object_arg(), depth)
    v = ex.var_of(s)
    if v is not None:
        p = provenance(fn, v, depth + 1)
        return p if p is not None else ('var', v)
    return None


def find_phase_loop(prog, fn):
    csd = None
    for n in fn.walk():
        if n.k == 'VarDecl' and n.c:
            s = n.c[0].strip_all()
            if s.k == 'CXXMemberCallExpr' and s.callee and s.callee['g'] == 'parmcb::ForestIndex::cycle_space_dimension':
                csd = n.decl_id
    if csd is None:
        return None
    out = None
    for pid in fn.param_ids:
        if prog.vars[pid]['name'] in ('out',):
            out = pid
    if out is None and len(fn.param_ids) >= 3:
        out = fn.param_ids[2]
    emits = []
    for n in fn.walk():
        if n.k == 'CXXOperatorCallExpr' and n.op == '=' and len(n.c) == 3:
            l = n.c[1].strip_all()
            if l.k == 'CXXOperatorCallExpr' and l.op == '*':
                inner = l.c[1].strip_all()
                while inner.k == 'CXXOperatorCallExpr' and inner.op in ('++', '--'):
                    inner = inner.c[1].strip_all()
                if ex.var_of(inner) == out:
                    emits.append(n)
    loops = []
    for n in fn.walk():
        if n.k == 'ForStmt' and n.cond is not None:
            c = n.cond.strip_all()
            if c.k == 'BinaryOperator' and ex.var_of(c.c[1]) == csd and any(n.is_ancestor_of(e) for e in emits):
                loops.append(n)
    if not loops:
        return None
    return {'csd': csd, 'out': out, 'emits': emits, 'loop': loops[0]}


def loop_header(loop):
    init, cond, inc = loop.role('init'), loop.cond, loop.role('inc')
    iv, lo = None, None
    for d in (init.walk() if init is not None else ()):
        if d.k == 'VarDecl' and d.c:
            iv, lo = d.decl_id, d.c[0]
            break
        if d.k == 'BinaryOperator' and d.op == '=':
            iv, lo = ex.var_of(d.c[0]), d.c[1]
            break
    c = cond.strip_all() if cond is not None else None
    op, hi = None, None
    if c is not None and c.k == 'BinaryOperator' and ex.var_of(c.c[0]) == iv:
        op, hi = c.op, c.c[1]
    i = inc.strip_all() if inc is not None else None
    step = None
    if i is not None:
        if i.k == 'UnaryOperator' and i.op == '++' and ex.var_of(i.c[0]) == iv:
            step = 1
        elif i.k == 'CompoundAssignOperator' and i.op == '+=' and ex.var_of(i.c[0]) == iv:
            step = i.c[1].strip_all().cv
    return iv, lo, op, hi, step


def elem_ref(fns, node, depth=0):
    """(container variable, index node) when node denotes container[index]: X[i], X.at(i), *(X.begin() + i), a reference / iterator
    local bound once to one of those (resolved in any of the functions `fns`: the task body and its enclosing function)"""
    if node is None or depth > 4:
        return None
    s = node.strip_all()
    if s.k == 'CXXOperatorCallExpr' and s.op == '[]' and len(s.c) == 3 and ex.var_of(s.c[1]) is not None:
        return ex.var_of(s.c[1]), s.c[2]
    if s.k == 'CXXMemberCallExpr' and s.callee and s.callee['name'] == 'at' and s.args() and ex.var_of(s.object_arg()) is not None:
        return ex.var_of(s.object_arg()), s.args()[0]
    if s.k in ('CXXOperatorCallExpr', 'UnaryOperator') and s.op == '*':
        return elem_ref(fns, s.c[-1], depth + 1)
    if s.k == 'CXXOperatorCallExpr' and s.op == '+' and len(s.c) == 3:
        b = s.c[1].strip_all()
        if b.k == 'CXXMemberCallExpr' and b.callee and b.callee['name'] in ('begin', 'cbegin') and ex.var_of(b.object_arg()) is not None:
            return ex.var_of(b.object_arg()), s.c[2]
    v = ex.var_of(s)
    if v is not None and s.k == 'DeclRefExpr':
        vt = s.prog.type(s.prog.vars[v].get('ty')) or {}
        for f in fns:
            ds = ex.assignments_to(f, v)
            decl = [x for x in ds if x[0].k == 'VarDecl' and x[1] is not None]
            # a reference is bound once: later `x += ...` act on the element it names; a value / iterator local must not be re-assigned
            if len(decl) == 1 and (len(ds) == 1 or vt.get('ref')):
                return elem_ref(fns, decl[0][1], depth + 1)
    return None


def support_update(prog, fn, loopinfo):
    """find the orthogonalisation update inside the phase loop: returns dict or None"""
    loop = loopinfo['loop']
    body = loop.body
    k, _lo, _op, _hi, _st = loop_header(loop)
    # the `+=` on support[...]
    cands = []
    scopes = [(fn, body)]
    for n in body.walk():
        if par.is_parallel_call(n) and n.callee['name'] == 'parallel_for':
            for a in n.args()[1:]:
                fs, ln = par.lambda_functions(prog, a)
                for lf in fs:
                    scopes.append((lf, lf.body, n))
    for sc in scopes:
        f2, b2 = sc[0], sc[1]
        for n in b2.walk():
            if n.k == 'CXXOperatorCallExpr' and n.op == '+=' and len(n.c) == 3:
                l, r = n.c[1].strip_all(), n.c[2].strip_all()
                le, re_ = elem_ref((f2, fn), l), elem_ref((f2, fn), r)
                if le is not None and re_ is not None and 'SpVecGF2' in (prog.base_type(l.j.get('t')) or {}).get('canon', ''):
                    cands.append((f2, n, le, re_, sc[2] if len(sc) > 2 else None))
                elif 'SpVecGF2' in (prog.base_type(n.c[1].strip_all().j.get('t')) or {}).get('canon', ''):
                    OTHER_UPDATES.append(n)
            elif n.k in ('CallExpr', 'CXXMemberCallExpr') and n.callee and n.callee.get('in_repo'):
                # a repo helper that receives support vectors by mutable reference may hide the update
                for pt in n.callee.get('params', []):
                    ty = prog.type(pt) or {}
                    if ty.get('ref') and 'SpVecGF2' in ty.get('canon', '') and not (prog.base_type(pt) or {}).get('const') and \
                            'const' not in ty.get('canon', '').split('SpVecGF2')[0]:
                        OTHER_UPDATES.append(n)
    return k, cands


OTHER_UPDATES = []


def analyse(prog):
    F = Findings()
    for gname in PHASE_FUNCS:
        for fn in prog.fns(gname):
            info = find_phase_loop(prog, fn)
            if info is None:
                F.add('R01a', fn.body, fn, 'phase loop over 0..cycle_space_dimension emitting through the output iterator',
                      'undecided', 'phase loop not recognised')
                continue
            analyse_phase(prog, F, fn, info)
    analyse_constructors(prog, F)
    analyse_searches(prog, F)
    return F


def analyse_phase(prog, F, fn, info):
    cfg = fn.cfg
    loop = info['loop']
    is_mpi = 'mpi' in fn.g
    rank_vars = common.rank_vars_of(fn)
    k, lo, op, hi, step = loop_header(loop)
    # ------------------------------------------------------------ R01a count
    what = 'one cycle is emitted per phase k = 0 .. cycle_space_dimension-1'
    probs = []
    if lo is None or lo.strip_all().cv != 0:
        probs.append('phase loop does not start at 0')
    if op != '<' or ex.var_of(hi) != info['csd']:
        probs.append('phase loop condition is not k < cycle_space_dimension')
    if step != 1:
        probs.append('phase loop step is not +1')
    emits = [e for e in info['emits'] if loop.is_ancestor_of(e)]
    outside = [e for e in info['emits'] if not loop.is_ancestor_of(e)]
    if len(emits) != 1:
        probs.append('%d emissions inside the phase loop (expected exactly one)' % len(emits))
    if outside:
        probs.append('emission outside the phase loop at line %d' % outside[0].line)
    for e in emits:
        inner = e.enclosing('ForStmt', 'WhileStmt', 'DoStmt', 'CXXForRangeStmt')
        if inner is not loop:
            probs.append('emission sits in an inner loop')
        pc = guards_formula(cfg, e, lambda leaf: ex.f_atom('rank0') if is_rank0(leaf, rank_vars) else None)
        for a in ex.f_atoms(pc):
            if isinstance(a, tuple) and a[0] == 'opaque':
                cn = fn.nodes.get(a[1])
                if cn is not None and loop.body is not None and loop.body.is_ancestor_of(cn):
                    probs.append('emission depends on the unrelated condition `%s` (line %d)' % (cn.text(50), cn.line))
    if probs:
        F.add('R01a', loop, fn, what, 'violation', '; '.join(sorted(set(probs))), key='R01a|%s|count' % fn.g)
    else:
        F.add('R01a', loop, fn, what, 'ok', 'for (k = 0; k < csd; k++) with exactly one unconditional emission%s' % (
            ' on rank 0' if is_mpi else ''))
    if not emits:
        return
    emit = emits[0]
    # ------------------------------------------------------------ R01d / R04e root-only emission
    if is_mpi:
        pc = guards_formula(cfg, emit, lambda leaf: ex.f_atom('rank0') if is_rank0(leaf, rank_vars) else None)
        whatd = 'only rank 0 emits cycles'
        envs_ok = True
        atoms = ex.f_atoms(pc)
        if 'rank0' not in atoms:
            F.add('R01d', emit, fn, whatd, 'violation', 'emission is not conditioned on world.rank() == 0', key='R01d|%s|root-only' % fn.g)
        else:
            others = [a for a in atoms if a != 'rank0']
            e1 = {a: True for a in others}
            e1['rank0'] = False
            if ex.f_eval(pc, e1):
                F.add('R01d', emit, fn, whatd, 'violation', 'emission is reachable with rank != 0', key='R01d|%s|root-only' % fn.g)
            else:
                F.add('R01d', emit, fn, whatd, 'ok')
    # ------------------------------------------------------------ provenance of emitted set, update set, weight
    emitted = emit.c[2]
    ev = ex.var_of(emitted)
    FILTERS.pop(ev, None)
    T_emit = provenance(fn, ev) if ev is not None else source_of(fn, emitted)
    if ev is not None and FILTERS.get(ev):
        F.add('R01c', emit, fn, 'the emitted list is the whole cycle found by the search', 'undecided',
              'the emitted list is filled under a filter at line %d' % FILTERS[ev][0][1].line, key='R01c|%s|filtered' % fn.g)
    # R02a
    whatw = 'the returned value is increased once per phase by the weight of the very cycle that is emitted'
    rets = ex.returns_of(fn)

    def zero_for_empty_basis(r):
        # `if (csd == 0) return WeightType();` in front of the phase loop: the loop would not run and the sum is zero anyway
        if not r.c or loop.is_ancestor_of(r):
            return False
        z = r.c[0].strip_all()
        zero = z.cv == 0 or (z.k in ('CXXScalarValueInitExpr', 'CXXTemporaryObjectExpr', 'CXXFunctionalCastExpr') and not z.c) or \
            (z.k == 'FloatingLiteral' and z.value == 0.0)
        conds = ex.ast_conditions(r)
        if not zero or len(conds) != 1:
            return False
        c, pol = conds[0]
        c = c.strip_all()
        if c.k == 'BinaryOperator' and c.op in ('==', '<', '<=') and pol:
            l, rr = c.c[0], c.c[1]
            if ex.var_of(l) == info['csd'] and ((c.op == '==' and rr.strip_all().cv == 0) or (c.op == '<' and rr.strip_all().cv == 1) or
                                                (c.op == '<=' and rr.strip_all().cv == 0)):
                return True
            if ex.var_of(rr) == info['csd'] and c.op == '==' and l.strip_all().cv == 0:
                return True
        if c.k == 'UnaryOperator' and c.op == '!' and ex.var_of(c.c[0]) == info['csd'] and pol:
            return True
        return False
    rets = [r for r in rets if not zero_for_empty_basis(r)]
    accs = set(ex.var_of(r.c[0]) for r in rets if r.c)
    if len(accs) != 1 or None in accs:
        F.add('R02a', fn.body, fn, whatw, 'undecided', 'function does not return a single accumulator variable')
    else:
        acc = list(accs)[0]
        adds = [(d, rhs) for (d, rhs) in ex.assignments_to(fn, acc) if d.k != 'VarDecl']
        inloop = [d for (d, rhs) in adds if loop.is_ancestor_of(d)]
        probs = []
        und_w = []
        if len(adds) != 1 or len(inloop) != 1:
            probs.append('%d modification(s) of the accumulator, %d inside the phase loop (expected exactly one, inside)' % (len(adds), len(inloop)))
        for d in inloop:
            if d.k != 'CompoundAssignOperator' or d.op != '+=':
                probs.append('accumulator is not updated with +=')
                continue
            wv = minsel.weight_of(d.c[1])
            if wv is None:
                probs.append('added term `%s` is not the weight component of a (cycle, weight, found) triple' % d.c[1].text(40))
            elif T_emit is None:
                und_w.append('how the emitted list is built is outside the idiom table')
            elif T_emit[0] != 'cyc' or T_emit[1] != wv:
                probs.append('the weight added comes from `%s` but the emitted cycle comes from %s' % (
                    prog.vars[wv]['name'], describe(prog, T_emit)))
            pa, pe = cfg.pos_of(d), cfg.pos_of(emit)
            if pa and pe and pa[0] != pe[0]:
                # same control conditions
                ga = guards_formula(cfg, d, lambda leaf: ex.f_atom('rank0') if is_rank0(leaf, rank_vars) else None)
                ge = guards_formula(cfg, emit, lambda leaf: ex.f_atom('rank0') if is_rank0(leaf, rank_vars) else None)
                eq, _ = ex.f_equiv(ga, ge)
                if not eq:
                    probs.append('weight accumulation and emission happen under different conditions')
            if d.enclosing('ForStmt', 'WhileStmt', 'DoStmt', 'CXXForRangeStmt') is not loop:
                probs.append('weight accumulation sits in an inner loop')
        init = [n for n in fn.walk() if n.k == 'VarDecl' and n.decl_id == acc]
        if init and init[0].c:
            z = init[0].c[0].strip_all()
            zero = z.cv == 0 or (z.k in ('CXXScalarValueInitExpr', 'CXXTemporaryObjectExpr', 'CXXFunctionalCastExpr') and not z.c) or \
                (z.k == 'FloatingLiteral' and z.value == 0.0)
            if not zero:
                probs.append('accumulator does not start at zero')
        if probs:
            F.add('R02a', inloop[0] if inloop else fn.body, fn, whatw, 'violation', '; '.join(sorted(set(probs))), key='R02a|%s|weight' % fn.g)
        elif und_w:
            F.add('R02a', inloop[0] if inloop else fn.body, fn, whatw, 'undecided', '; '.join(sorted(set(und_w))))
        else:
            F.add('R02a', inloop[0], fn, whatw, 'ok', 'acc += weight(T) with T the source of the emitted list')

    # ------------------------------------------------------------ R01b orthogonalisation update
    whatb = 'after phase k every later support vector with odd intersection with the emitted cycle gets support[k] added'
    del OTHER_UPDATES[:]
    kvar, cands = support_update(prog, fn, info)
    if len(cands) != 1:
        F.add('R01b', loop, fn, whatb, 'violation' if not cands and not OTHER_UPDATES else 'undecided',
              '%d candidate update statements `support[l] += support[k]` in the phase loop' % len(cands), key='R01b|%s|missing' % fn.g)
        return
    f2, upd, l, r, pcall = cands[0]
    probs = []
    (supp_l, lidx), (supp_r, ridx) = l, r
    if supp_l != supp_r:
        probs.append('source and target of the update are different containers')
    if ex.var_of(ridx) != kvar:
        probs.append('the vector added is support[%s], not support[k]' % ridx.text(20))
    # the inner index and its range
    lv = ex.var_of(lidx)
    rng_lo = rng_hi = None
    inner_fn = f2
    if pcall is not None:
        rng = pcall.args()[0].strip_all()
        if rng.k in ex.CTOR_KINDS and len(rng.c) >= 2:
            rng_lo, rng_hi = rng.c[0], rng.c[1]
        ivs, rp = par.induction_vars(f2, pcall)
        if lv not in ivs:
            probs.append('updated index `%s` is not the induction variable of the task range' % lidx.text(20))
    else:
        il = upd.enclosing('ForStmt')
        if il is None or il is loop:
            probs.append('update is not inside an inner loop over l')
        else:
            iv2, lo2, op2, hi2, st2 = loop_header(il)
            if iv2 != lv:
                probs.append('updated index `%s` is not the inner loop variable' % lidx.text(20))
            if op2 != '<' or st2 != 1:
                probs.append('inner loop is not l < bound; ++l')
            rng_lo, rng_hi = lo2, hi2
    if rng_lo is not None:
        dlo = ex.lin(rng_lo).add(ex.Lin({('v', kvar): 1}), -1)
        if not (dlo.is_const() and dlo.const == 1):
            probs.append('update range starts at `%s`, not at k + 1' % rng_lo.text(20))
        if ex.var_of(rng_hi) != info['csd']:
            probs.append('update range ends at `%s`, not at the cycle space dimension' % rng_hi.text(20))
    else:
        probs.append('range of the update not recognised')
    # condition:  support[l] * C == 1
    cfg2 = f2.cfg
    Cvar = {}

    def atomize(leaf):
        s = leaf.strip_all()
        if s.k == 'BinaryOperator' and s.op in ('==', '!='):
            a, b = s.c[0].strip_all(), s.c[1].strip_all()
            for x, y in ((a, b), (b, a)):
                if x.k == 'CXXOperatorCallExpr' and x.op == '*' and len(x.c) == 3 and y.cv in (0, 1):
                    vx = elem_ref((f2, fn), x.c[1])
                    if vx is not None and vx[0] == supp_l and ex.key(vx[1]) == ex.key(lidx):
                        Cvar['v'] = ex.var_of(x.c[2])
                        f = ex.f_atom('odd')
                        truth = (s.op == '==') == (y.cv == 1)
                        return f if truth else ex.f_not(f)
        if s.k == 'CXXOperatorCallExpr' and s.op == '*' and len(s.c) == 3:
            vx = elem_ref((f2, fn), s.c[1])
            if vx is not None and vx[0] == supp_l and ex.key(vx[1]) == ex.key(lidx):
                Cvar['v'] = ex.var_of(s.c[2])
                return ex.f_atom('odd')
        return None
    pc = guards_formula(cfg2, upd, atomize)
    atoms = ex.f_atoms(pc)
    if 'odd' not in atoms:
        probs.append('the update is not conditioned on support[l] * C')
    else:
        others = [a for a in atoms if a != 'odd']
        import itertools
        for vals in itertools.product((False, True), repeat=len(others)):
            e = dict(zip(others, vals))
            e1, e0 = dict(e, odd=True), dict(e, odd=False)
            if ex.f_eval(pc, e0):
                probs.append('the update is also applied when the intersection is even')
                break
        inner_conds = [fn2 for fn2 in others if isinstance(fn2, tuple) and fn2[0] == 'opaque']
        for a in inner_conds:
            cn = f2.nodes.get(a[1])
            if cn is None:
                continue
            # conditions of the loops themselves are fine
            if cn.enclosing('ForStmt', 'WhileStmt') is not None and (cn.enclosing('ForStmt', 'WhileStmt').cond is not None and
                                                                    (cn.enclosing('ForStmt', 'WhileStmt').cond.is_ancestor_of(cn) or cn.enclosing('ForStmt', 'WhileStmt').cond.strip() is cn)):
                continue
            if is_rank0(cn, rank_vars):
                continue
            if f2 is not fn or loop.body.is_ancestor_of(cn):
                probs.append('the update additionally depends on `%s`' % cn.text(40))
    unrec = []
    if 'v' in Cvar and Cvar['v'] is not None:
        FILTERS.pop(Cvar['v'], None)
        T_c = provenance(fn, Cvar['v'])
        for (ins, g) in FILTERS.get(Cvar['v'], []):
            # dropping indices >= cycle space dimension is invisible to support vectors, which live in [0, csd)
            okf = False
            if g.k == 'IfStmt' and g.cond is not None and g.then is not None and (g.then is ins or g.then.is_ancestor_of(ins)):
                c = g.cond.strip_all()
                if c.k == 'BinaryOperator' and c.op in ('<', '>'):
                    small, big = (c.c[0], c.c[1]) if c.op == '<' else (c.c[1], c.c[0])
                    if ex.var_of(big) == info['csd'] and ex.key(small) == ex.key(ins.args()[-1]):
                        okf = True
            if not okf:
                unrec.append('the index set tested against support[l] is a filtered copy of the cycle (`%s`, line %d): filter not understood' % (
                    g.cond.text(30) if getattr(g, 'cond', None) is not None else g.k, g.line))
        if T_c is None or T_c[0] != 'cyc':
            probs.append('the index set tested against support[l] is not converted from the cycle found in this phase')
        elif T_emit is not None and T_emit[0] == 'cyc' and T_c[1] != T_emit[1]:
            probs.append('support vectors are updated against the cycle of `%s` but the cycle emitted comes from `%s`' % (
                prog.vars[T_c[1]]['name'], prog.vars[T_emit[1]]['name']))
    elif 'odd' in atoms:
        probs.append('index set operand of the product not recognised')
    if T_emit is None:
        unrec.append('how the emitted list is built is outside the idiom table')
    elif T_emit[0] != 'cyc':
        probs.append('the emitted list is not built from the cycle component of the search result (%s)' % describe(prog, T_emit))
    if probs:
        F.add('R01b', upd, fn, whatb, 'violation', '; '.join(sorted(set(probs))), key='R01b|%s|update' % fn.g)
    elif unrec:
        F.add('R01b', upd, fn, whatb, 'undecided', '; '.join(sorted(set(unrec))), key='R01b|%s|update' % fn.g)
    else:
        F.add('R01b', upd, fn, whatb, 'ok', 'for l in k+1..csd: if (support[l] * C == 1) support[l] += support[k], C and the emitted list from the same search result')

    # the search input is converted from support[k]
    whats = 'the odd-cycle search of phase k is driven by support[k]'
    ok_in = False
    for n in loop.body.walk():
        if n.k == 'CallExpr' and n.callee and n.callee['g'] == 'parmcb::convert_edges' and n.args():
            a0 = n.args()[0].strip_all()
            if a0.k == 'CXXOperatorCallExpr' and a0.op == '[]' and ex.var_of(a0.c[1]) == supp_l and ex.var_of(a0.c[2]) == kvar:
                ok_in = True
        if n.k == 'CXXMemberCallExpr' and n.callee and n.callee['name'] == 'find' and n.args():
            a0 = n.args()[0].strip_all()
            if a0.k == 'CXXOperatorCallExpr' and a0.op == '[]' and ex.var_of(a0.c[1]) == supp_l and ex.var_of(a0.c[2]) == kvar:
                ok_in = True
    if ok_in:
        F.add('R01b', loop, fn, whats, 'ok')
    else:
        F.add('R01b', loop, fn, whats, 'violation', 'no conversion of support[k] into the signed edge set inside the phase loop',
              key='R01b|%s|search-input' % fn.g)

    # order: the conversion of support[k] must come after any swap/modification of support[k] in this iteration
    for n in loop.body.walk():
        if n.k == 'CallExpr' and n.callee and n.callee['g'] == 'std::swap' and n.args():
            a0 = n.args()[0].strip_all()
            if a0.k == 'CXXOperatorCallExpr' and a0.op == '[]' and ex.var_of(a0.c[1]) == supp_l:
                conv = [m for m in loop.body.walk() if m.k == 'CallExpr' and m.callee and m.callee['g'] == 'parmcb::convert_edges'
                        and m.args() and m.args()[0].strip_all().k == 'CXXOperatorCallExpr' and ex.var_of(m.args()[0].strip_all().c[1]) == supp_l]
                finds = [m for m in loop.body.walk() if m.k == 'CXXMemberCallExpr' and m.callee and m.callee['name'] == 'find' and m.args()
                         and m.args()[0].strip_all().k == 'CXXOperatorCallExpr' and ex.var_of(m.args()[0].strip_all().c[1]) == supp_l]
                whatsw = 'the sparsest-support swap happens before support[k] is read for the search'
                late = [m for m in conv + finds if not cfg.reaches(n, m) or cfg.dominates(m, n)]
                if late:
                    F.add('R01b', n, fn, whatsw, 'violation', 'support[k] is converted at line %d before the swap at line %d: the search uses one vector and the update another' % (late[0].line, n.line),
                          key='R01b|%s|swap-order' % fn.g)
                else:
                    F.add('R01b', n, fn, whatsw, 'ok')


def describe(prog, t):
    if t is None:
        return 'an unknown source'
    if t[0] == 'cyc':
        return 'the cycle component of `%s`' % prog.vars[t[1]]['name']
    if t[0] == 'var':
        return 'variable `%s`' % prog.vars[t[1]]['name']
    return str(t)


def is_rank0(leaf, rank_vars):
    s = leaf.strip_all()
    if s.k == 'BinaryOperator' and s.op == '==':
        a, b = s.c
        if (common.mentions_rank(a, rank_vars) and b.strip_all().cv == 0) or (common.mentions_rank(b, rank_vars) and a.strip_all().cv == 0):
            return True
    return False


# ================================================================================== cycle constructors (R01c, R02b)
def returns_triple(fn):
    """ReturnStmts returning make_tuple(set, weight, found) -> [(ret, set expr, weight expr, found const)]"""
    res = []
    for r in ex.returns_of(fn):
        if not r.c:
            continue
        s = r.c[0].strip_all()
        if s.k == 'CallExpr' and s.callee and s.callee['g'] == 'std::make_tuple' and len(s.args()) == 3:
            res.append((r, s.args()[0], s.args()[1], s.args()[2].strip_all().cv))
    return res


def flag_vars(prog, fn):
    """bool locals only ever assigned constants"""
    res = {}
    for n in fn.walk():
        if n.k == 'VarDecl' and (prog.type(n.j.get('t')) or {}).get('bool') and prog.vars[n.decl_id]['kind'] == 'local':
            ok = True
            for (d, rhs) in ex.assignments_to(fn, n.decl_id):
                if rhs is None or rhs.strip_all().cv is None:
                    ok = False
            if ok:
                res[n.decl_id] = True
    return res


def reach_with_flags(prog, fn, start_block, start_state, flags, target_pred):
    """path-sensitive forward exploration over (block, flag valuation): assignments flag = const update the
    valuation, branches whose condition is a formula over flags only are followed on the consistent edge.
    Returns the first node satisfying target_pred reached, or None."""
    cfg = fn.cfg
    seen = set()
    work = [(start_block, tuple(sorted(start_state.items())))]
    while work:
        b, st = work.pop()
        if (b, st) in seen:
            continue
        seen.add((b, st))
        state = dict(st)
        blk = cfg.blocks[b]
        for e in blk.elems:
            if e is None or e < 0:
                if e is not None and e <= -2:
                    e = -2 - e
                else:
                    continue
            n = fn.nodes.get(e)
            if n is None:
                continue
            if target_pred(n):
                return n
            if n.k == 'BinaryOperator' and n.op == '=' and ex.var_of(n.c[0]) in flags:
                v = n.c[1].strip_all().cv
                state[ex.var_of(n.c[0])] = None if v is None else bool(v)
            up = n.parent
            if n.k not in ('VarDecl',) and up is not None and up.k == 'VarDecl' and up.decl_id in flags and up.c and up.c[0] is n:
                v = n.strip_all().cv
                state[up.decl_id] = None if v is None else bool(v)
        succs = blk.succ
        if len(succs) == 2 and succs[0] != succs[1]:
            c = cfg.effective_cond(blk)
            f = ex.formula(c, lambda leaf: (ex.f_atom(('flag', ex.var_of(leaf))) if ex.var_of(leaf) in flags else None)) if c is not None else None
            decided = None
            if f is not None:
                atoms = ex.f_atoms(f)
                if all(isinstance(a, tuple) and a[0] == 'flag' and state.get(a[1]) is not None for a in atoms):
                    decided = ex.f_eval(f, {a: state[a[1]] for a in atoms})
            for ix, s in enumerate(succs):
                if s is None:
                    continue
                if decided is not None and (ix == 0) != bool(decided):
                    continue
                work.append((s, tuple(sorted(state.items()))))
        else:
            for s in succs:
                if s is not None:
                    work.append((s, tuple(sorted(state.items()))))
    return None


def analyse_constructors(prog, F):
    targets = [f for f in prog.functions if f.g in ('parmcb::bidirectional_signed_dijkstra', 'parmcb::CandidateCycleBuilder::operator()',
                                                     'parmcb::signed_dijkstra')]
    for fn in targets:
        cfg = fn.cfg
        triples = returns_triple(fn)
        succ = [t for t in triples if t[3] == 1]
        if not succ:
            F.add('R01c', fn.body, fn, 'cycle constructor returns (set, weight, true) on success', 'undecided', 'no success return recognised')
            continue
        setvars = set(ex.var_of(t[1]) for t in succ)
        wvars = set(ex.var_of(t[2]) for t in succ)
        flags = flag_vars(prog, fn)
        for sv in setvars:
            if sv is None:
                continue
            inserts = [n for n in fn.walk() if n.k == 'CXXMemberCallExpr' and n.callee and n.callee['name'] == 'insert'
                       and ex.var_of(n.object_arg()) == sv]
            for ins in inserts:
                in_loop = ins.enclosing('WhileStmt', 'ForStmt', 'DoStmt') is not None
                what = 'a walk that repeats an edge is discarded (insert(e).second is tested and failure invalidates the result)'
                if not in_loop:
                    continue   # the seed element inserted once cannot be a duplicate
                # the branch testing .second of this insert
                blk, f = None, None
                for b in cfg.branch_blocks():
                    c = cfg.effective_cond(b)
                    if c is None:
                        continue

                    def atomize(leaf):
                        s = leaf.strip_all()
                        if s.k == 'MemberExpr' and s.decl and s.decl['name'] == 'second' and s.c and s.c[0].strip_all() is ins:
                            return ex.f_atom('inserted')
                        if s.k == 'BinaryOperator' and s.op in ('==', '!=') and s.c[1].strip_all().cv in (0, 1):
                            inner = atomize(s.c[0])
                            if inner is not None:
                                want = s.c[1].strip_all().cv == 1
                                return inner if (s.op == '==') == want else ex.f_not(inner)
                        return None
                    ff = ex.formula(c, atomize)
                    if ff is not None and ex.f_atoms(ff) == ['inserted']:
                        blk, f = b, ff
                        break
                if blk is None:
                    F.add('R01c', ins, fn, what, 'violation', 'the result of `%s` is ignored: a repeated edge goes unnoticed and the returned set is not the walk' % ins.text(40),
                          key='R01c|%s|ignored' % fn.g)
                    continue
                fail_ix = 0 if ex.f_eval(f, {'inserted': False}) else 1
                start = blk.succ[fail_ix]

                def is_success_return(n):
                    if n.k == 'ReturnStmt' and n.c:
                        s = n.c[0].strip_all()
                        if s.k == 'CallExpr' and s.callee and s.callee['g'] == 'std::make_tuple' and len(s.args()) == 3:
                            return s.args()[2].strip_all().cv == 1
                        return False
                    return False
                init_state = {}
                # flag values known at the branch: take declared initial constants (sound: they are only refined by assignments on the path)
                for fv in flags:
                    init_state[fv] = None
                # values of flags on entry to the failing edge: propagate from function entry is overkill; the idiom sets the
                # flag right after the test, so start with "unknown" and let assignments decide
                hit = reach_with_flags(prog, fn, start, init_state, flags, is_success_return) if start is not None else None
                if hit is not None:
                    F.add('R01c', ins, fn, what, 'violation',
                          'after a failed insert the success return at line %d is still reachable' % hit.line, key='R01c|%s|not-invalidated' % fn.g)
                else:
                    F.add('R01c', ins, fn, what, 'ok', 'every path from the failed insert ends in a not-found result')
        # ---- R02b edge/weight pairing
        for sv in setvars:
            if sv is None:
                continue
            for wv in wvars:
                if wv is None:
                    continue
                whatp = 'every edge put into the cycle has its weight (read from the weight map for that edge) added to the cycle weight'
                inserts = [n for n in fn.walk() if n.k == 'CXXMemberCallExpr' and n.callee and n.callee['name'] == 'insert'
                           and ex.var_of(n.object_arg()) == sv and n.args()]
                wparam = fn.param_ids[1] if fn.g == 'parmcb::bidirectional_signed_dijkstra' else None
                adds = []
                for (d, rhs) in ex.assignments_to(fn, wv):
                    term = None
                    if d.k == 'CompoundAssignOperator' and d.op == '+=':
                        term = d.c[1]
                    elif d.k == 'VarDecl' and d.c:
                        term = d.c[0]
                    elif d.k == 'BinaryOperator' and d.op == '=':
                        term = d.c[1]
                    if term is None:
                        continue
                    t = term.strip_all()
                    if t.k == 'CallExpr' and t.callee and t.callee['g'] == 'boost::get' and len(t.args()) == 2:
                        adds.append((d, ex.var_of(t.args()[1]), ex.var_of(t.args()[0])))
                    elif t.k in ('CXXScalarValueInitExpr', 'CXXTemporaryObjectExpr') or t.cv == 0:
                        continue
                    else:
                        adds.append((d, None, None))
                for ins in inserts:
                    evar = ex.var_of(ins.args()[-1])
                    scope = ins.enclosing('WhileStmt', 'ForStmt', 'DoStmt') or fn.body
                    m = [a for a in adds if a[1] == evar and evar is not None and (scope.is_ancestor_of(a[0]) or scope is fn.body)]
                    if m:
                        F.add('R02b', ins, fn, whatp, 'ok', 'insert(%s) paired with += get(weight_map, %s)' % (prog.vars[evar]['name'], prog.vars[evar]['name']))
                    else:
                        F.add('R02b', ins, fn, whatp, 'violation', 'no `weight += get(weight_map, %s)` in the same scope as `%s`' % (
                            prog.vars[evar]['name'] if evar is not None else '?', ins.text(30)), key='R02b|%s|unpaired-insert' % fn.g)
                for (d, evar, mv) in adds:
                    if evar is None:
                        F.add('R02b', d, fn, whatp, 'undecided', 'weight term `%s` is not get(weight_map, edge)' % d.text(40))
                        continue
                    scope = d.enclosing('WhileStmt', 'ForStmt', 'DoStmt') or fn.body
                    m = [i for i in inserts if ex.var_of(i.args()[-1]) == evar and (scope.is_ancestor_of(i) or scope is fn.body)]
                    if not m:
                        F.add('R02b', d, fn, whatp, 'violation', 'weight of `%s` is added but that edge is not inserted into the cycle' % prog.vars[evar]['name'],
                              key='R02b|%s|unpaired-weight' % fn.g)


# ================================================================================== searches (R02c sequential, R02d, R02e, R02f)
def analyse_searches(prog, F):
    for fn in prog.functions:
        if not (fn.file.startswith(env.REPO + '/include') or fn.file.startswith(env.WITNESS + '/positive')):
            continue
        if fn.implicit:
            continue
        cfg = fn.cfg
        if cfg is None:
            continue
        # R02e limit pairing
        for n in fn.walk():
            if n.k in ex.CALL_KINDS and n.callee:
                g = n.callee['g']
                a = None
                if g == 'parmcb::bidirectional_signed_dijkstra' and len(n.args()) >= 11:
                    a = (n.args()[9], n.args()[10])
                elif g == 'parmcb::CandidateCycleBuilder::operator()' and len(n.c) >= 7:
                    a = (n.c[5], n.c[6])
                if a is not None:
                    what = 'the pruning limit passed to the search is (found, weight) of one and the same running best'
                    fv, wv = minsel.found_of(a[0]), minsel.weight_of(a[1])
                    if a[0].strip_all().cv == 0 and fv is None:
                        F.add('R02e', n, fn, what, 'ok', 'no limit used (constant false)')
                    elif fv is not None and fv == wv:
                        F.add('R02e', n, fn, what, 'ok', 'limit taken from `%s`' % prog.vars[fv]['name'])
                    elif fv is None or wv is None:
                        F.add('R02e', n, fn, what, 'undecided', 'limit arguments `%s`, `%s` not in the idiom table' % (a[0].text(30), a[1].text(30)))
                    else:
                        F.add('R02e', n, fn, what, 'violation', 'found flag of `%s` is paired with the weight of `%s`' % (
                            prog.vars[fv]['name'], prog.vars[wv]['name']), key='R02e|%s|mixed-limit' % fn.g)
        # R02c sequential running best: assignments X = Y between (cycle, weight, found) triples in loops
        if fn.is_lambda:
            continue
        groups = {}
        for n in fn.walk():
            if n.k == 'CXXOperatorCallExpr' and n.op == '=' and len(n.c) == 3:
                lt = prog.base_type(n.c[1].strip_all().j.get('t')) or {}
                if (lt.get('rec') or '') != 'std::tuple' or len(lt.get('targs') or []) != 3:
                    continue
                acc, x = ex.var_of(n.c[1]), ex.var_of(n.c[2])
                lp = n.enclosing('ForStmt', 'WhileStmt', 'CXXForRangeStmt', 'DoStmt')
                if acc is None or x is None or lp is None:
                    continue
                groups.setdefault((acc, x, lp.i), []).append(n)
        for (acc, x, _lp), sites in groups.items():
            # all sites that assign the same candidate to the same running best inside one loop form one update
            what = 'the running best is replaced only by a found candidate that is lighter (or when nothing was found yet)'
            verdict, detail = minsel.min_update_contract(fn, sites, acc, x)
            F.add('R02c', sites[0], fn, what, verdict, detail + (' (%d sites)' % len(sites) if len(sites) > 1 else ''),
                  key='R02c|%s|update' % fn.g if verdict == 'violation' else None)
        # R02d sorted candidates for first-found lookup
        for n in fn.walk():
            if n.k in ex.CTOR_KINDS and n.callee and n.callee['g'] == 'parmcb::ShortestOddCycleLookup::ShortestOddCycleLookup' and len(n.c) >= 5:
                flag = n.c[4].strip_all()
                what = 'a lookup that returns the first valid candidate is only built over candidates sorted by non-decreasing weight'
                val = flag.cv
                if val is None and ex.var_of(flag) is not None:
                    d = ex.unique_def(fn, ex.var_of(flag))
                    val = d.strip_all().cv if d is not None else None
                if val == 0:
                    F.add('R02d', n, fn, what, 'ok', 'sorted_cycles == false: the lookup scans all candidates')
                    continue
                if val is None:
                    F.add('R02d', n, fn, what, 'undecided', 'sorted_cycles flag is not a constant')
                    continue
                cyc = ex.var_of(n.c[3])
                sorts = [m for m in fn.walk() if m.k == 'CallExpr' and m.callee and m.callee['g'] in ('std::sort', 'std::stable_sort')
                         and len(m.args()) >= 2 and m.args()[0].strip_all().k == 'CXXMemberCallExpr' and ex.var_of(m.args()[0].strip_all().object_arg()) == cyc]
                good = False
                detail = 'no std::sort of the candidate vector dominates the construction'
                for sc in sorts:
                    if not cfg.dominates(sc, n):
                        detail = 'the sort at line %d does not dominate the construction (skipped on some path)' % sc.line
                        continue
                    # no growth of the vector between sort and construction
                    later = [m for m in fn.walk() if m.k == 'CXXMemberCallExpr' and m.callee and m.callee['name'] in ('push_back', 'insert', 'emplace_back')
                             and ex.var_of(m.object_arg()) == cyc and cfg.reaches(sc, m) and cfg.reaches(m, n)]
                    if later:
                        detail = 'candidates are appended at line %d after the sort' % later[0].line
                        continue
                    asc = None
                    if len(sc.args()) >= 3:
                        lam = sc.args()[2].strip_all()
                        asc = weight_comparator(prog, lam)
                    else:
                        asc = None
                    if asc == 'asc':
                        good = True
                    elif asc == 'desc':
                        detail = 'the comparator at line %d sorts by decreasing weight' % sc.line
                    elif isinstance(asc, tuple) and asc[0] == 'lossy':
                        detail = 'comparator at line %d: %s' % (sc.line, asc[1])
                    elif asc == 'other':
                        detail = 'the comparator at line %d does not order a lighter candidate before a heavier one in every case' % sc.line
                    else:
                        undecided_cmp = sc
                        detail = None
                if good:
                    F.add('R02d', n, fn, what, 'ok', 'std::sort(cycles, ascending by weight) dominates the construction')
                elif detail is None:
                    F.add('R02d', n, fn, what, 'undecided', 'comparator of the dominating sort is outside the idiom table')
                else:
                    F.add('R02d', n, fn, what, 'violation', detail, key='R02d|%s|unsorted' % fn.g)
        # R01f: no candidate is taken out of the collection before the lookup is built (each candidate is a different (tree, edge) circuit)
        for n in fn.walk():
            if n.k in ex.CTOR_KINDS and n.callee and n.callee['g'] == 'parmcb::ShortestOddCycleLookup::ShortestOddCycleLookup' and len(n.c) >= 4:
                cyc = ex.var_of(n.c[3])
                what = 'no candidate cycle is removed from the collection between its construction and the lookup'
                removers = []
                for m in fn.walk():
                    if m.k == 'CXXMemberCallExpr' and m.callee and m.callee['name'] in ('erase', 'pop_back', 'resize', 'clear') and ex.var_of(m.object_arg()) == cyc \
                            and cfg.reaches(m, n):
                        removers.append(m)
                    if m.k == 'CallExpr' and m.callee and m.callee['g'] in ('std::remove_if', 'std::remove') and m.args() and cfg.reaches(m, n):
                        a0 = m.args()[0].strip_all()
                        if a0.k == 'CXXMemberCallExpr' and ex.var_of(a0.object_arg()) == cyc:
                            removers.append(m)
                if not removers:
                    F.add('R01f', n, fn, what, 'ok', 'the candidate vector is only appended to and sorted')
                    continue
                for m in removers:
                    uniq = [x for x in m.walk() if x.k == 'CallExpr' and x.callee and x.callee['g'] == 'std::unique']
                    okeq = False
                    if uniq and len(uniq[0].args()) >= 3:
                        lam = uniq[0].args()[2].strip_all()
                        fields = set()
                        for op in (lam.j.get('lambda_ops', ()) if lam.k == 'LambdaExpr' else ()):
                            lf = prog.fn_of_fref(op)
                            for x in (lf.walk() if lf is not None else ()):
                                if x.k == 'CXXMemberCallExpr' and x.callee and x.callee['name'] in ('tree', 'edge', 'weight'):
                                    fields.add(x.callee['name'])
                        okeq = {'tree', 'edge'} <= fields
                    if okeq:
                        F.add('R01f', m, fn, what, 'ok', 'only exact duplicates (same tree and same edge) are removed')
                    else:
                        F.add('R01f', m, fn, what, 'violation',
                              '`%s` removes candidates that are not duplicates: two candidates with the same closing edge (and weight) in different trees are different '
                              'circuits; with the isometric collection, which keeps one representative per circuit, a needed circuit disappears and a phase finds no '
                              'odd candidate' % m.text(50), key='R01f|%s|removed' % fn.g)
        # R02f hidden-edge heuristic: the hidden set shrinks on every iteration
        for n in fn.walk():
            if n.k == 'CXXMemberCallExpr' and n.callee and n.callee['name'] == 'erase' and n.args():
                hv = ex.var_of(n.object_arg())
                a0 = n.args()[0].strip_all()
                loop = n.enclosing('ForStmt', 'WhileStmt', 'CXXForRangeStmt')
                if loop is None or loop.body is None or hv is None:
                    continue
                first_elem = a0.k == 'CXXMemberCallExpr' and a0.callee['name'] == 'begin' and ex.var_of(a0.object_arg()) == hv
                if not (first_elem or is_current_element(fn, a0, loop)):
                    continue
                # is the set passed to a search in this loop?
                searches = [m for m in loop.body.walk() if m.k == 'CallExpr' and m.callee and m.callee['g'] == 'parmcb::bidirectional_signed_dijkstra'
                            and any(ex.var_of(x) == hv for x in m.args())]
                if not searches:
                    continue
                what = 'the hidden-edge set loses its first element on every iteration of the hidden-edge heuristic'
                pe = cfg.pos_of(n)
                first = cfg.pos_of(loop.body)
                ok = pe is not None and first is not None and post_dominates_within(cfg, pe[0], first[0], loop)
                if ok:
                    F.add('R02f', n, fn, what, 'ok', 'erase(begin()) is executed on every path through the loop body')
                else:
                    F.add('R02f', n, fn, what, 'violation',
                          'some path through the loop body (continue / early exit) skips `%s`: the hidden set then lags behind the '
                          'iteration and a later search hides the wrong edges' % n.text(40), key='R02f|%s|skipped-erase' % fn.g)


def is_current_element(fn, a, loop):
    """is `a` the element the loop is currently visiting: the range-for variable, `*it` of the loop iterator, or a local
    defined once as one of those"""
    a = a.strip_all()
    v = ex.var_of(a)
    if v is not None:
        if loop.k == 'CXXForRangeStmt':
            lv = loop.role('loopvar')
            for d in (lv.walk() if lv is not None else ()):
                if d.k == 'VarDecl' and d.decl_id == v:
                    return True
        d = ex.unique_def(fn, v)
        if d is not None and loop.is_ancestor_of(d):
            return is_current_element(fn, d, loop)
        return False
    if a.k in ('UnaryOperator', 'CXXOperatorCallExpr') and a.op == '*':
        it = ex.var_of(a.c[-1])
        if it is not None and loop.k == 'ForStmt':
            iv = loop_header(loop)[0] if loop.cond is not None else None
            hdr = [x for x in (loop.c[0].walk() if loop.c else ()) if x.k == 'VarDecl' and x.decl_id == it]
            if hdr or iv == it:
                return True
    return False


def post_dominates_within(cfg, b, entry, loop):
    """every path from block `entry` (first block of the loop body) that comes back to the loop header for the next
    iteration passes block b.  Paths that leave the loop altogether (break / return / throw) do not matter."""
    header = cfg.pos_of(loop.cond)[0] if loop.cond is not None and cfg.pos_of(loop.cond) else None
    if header is None:
        return False
    seen = set()
    work = [entry]
    while work:
        x = work.pop()
        if x in seen or x == b:
            continue
        if x == header:
            return False
        seen.add(x)
        for s in cfg.blocks[x].succ:
            if s is not None:
                work.append(s)
    return True


def weight_comparator(prog, lam):
    """'asc' if the comparator returns true whenever a.weight() < b.weight() and false whenever a.weight() > b.weight() (any
    tie-break), 'desc' for the reverse, ('lossy', why) if the weights are compared through a narrowing conversion, None if the
    comparator is outside the idiom table"""
    import itertools
    if lam.k != 'LambdaExpr':
        return None
    res = None
    for op in lam.j.get('lambda_ops', ()):
        lf = prog.fn_of_fref(op)
        if lf is None or len(lf.param_ids) != 2:
            continue
        a, b = lf.param_ids
        rets = ex.returns_of(lf)
        if len(rets) != 1 or not rets[0].c:
            return None
        lossy = []

        def diff_var(v):
            """var holding a.weight() - b.weight() (or reversed): returns +1 / -1, flags narrowing"""
            d = ex.unique_def(lf, v)
            if d is None:
                return None
            dd = d.strip_all()
            if dd.k == 'BinaryOperator' and dd.op == '-':
                x, y = minsel.weight_of(dd.c[0]), minsel.weight_of(dd.c[1])
                if (x, y) in ((a, b), (b, a)):
                    vt = prog.base_type(prog.vars[v]['ty']) or {}
                    wt = prog.base_type(dd.j.get('t')) or {}
                    if vt.get('int') and wt.get('float'):
                        lossy.append('the weight difference is stored in `%s %s`: weights that differ by less than 1 compare as equal, so a heavier '
                                     'candidate may precede a lighter one' % (vt.get('s'), prog.vars[v]['name']))
                    return 1 if (x, y) == (a, b) else -1
            return None

        def atomize(leaf):
            l = minsel.less_of(leaf)
            if l == (a, b):
                return ex.f_atom('lt')
            if l == (b, a):
                return ex.f_atom('gt')
            s_ = leaf.strip_all()
            if s_.k == 'BinaryOperator' and s_.op in ('<', '>', '!=', '==', '<=', '>=') and s_.c[1].strip_all().cv == 0 and ex.var_of(s_.c[0]) is not None:
                sg = diff_var(ex.var_of(s_.c[0]))
                if sg is not None:
                    lt, gt = ex.f_atom('lt'), ex.f_atom('gt')
                    if sg < 0:
                        lt, gt = gt, lt
                    eq = ex.f_and(ex.f_not(lt), ex.f_not(gt))
                    return {'<': lt, '>': gt, '!=': ex.f_or(lt, gt), '==': eq, '<=': ex.f_or(lt, eq), '>=': ex.f_or(gt, eq)}[s_.op]
            le = minsel.leq_of(leaf)
            if le == (a, b):
                return ex.f_not(ex.f_atom('gt'))
            if le == (b, a):
                return ex.f_not(ex.f_atom('lt'))
            return None

        def value_formula(e_):
            s_ = e_.strip_all()
            if s_.k == 'ConditionalOperator':
                c_ = ex.formula(s_.cond, lambda leaf: atomize(leaf) or ex.f_atom(('free', leaf.i)))
                t_, f_ = value_formula(s_.then), value_formula(s_.els)
                if c_ is None or t_ is None or f_ is None:
                    return None
                return ex.f_or(ex.f_and(c_, t_), ex.f_and(ex.f_not(c_), f_))
            return ex.formula(e_, lambda leaf: atomize(leaf) or ex.f_atom(('free', leaf.i)))
        f = value_formula(rets[0].c[0])
        if f is None:
            return None
        if lossy:
            return ('lossy', lossy[0])
        atoms = ex.f_atoms(f)
        if 'lt' not in atoms and 'gt' not in atoms:
            return None
        free = [x for x in atoms if x not in ('lt', 'gt')]
        asc = desc = True
        for vals in itertools.product((False, True), repeat=len(free)):
            e0 = dict(zip(free, vals))
            v_lt = ex.f_eval(f, dict(e0, lt=True, gt=False))
            v_gt = ex.f_eval(f, dict(e0, lt=False, gt=True))
            if not (v_lt and not v_gt):
                asc = False
            if not (v_gt and not v_lt):
                desc = False
        cur = 'asc' if asc else ('desc' if desc else 'other')
        if res is not None and res != cur:
            return 'other'
        res = cur
    return res


def report(rep, findings, rules):
    for (rule, node, fn, what, status, detail, key) in findings:
        if rule not in rules:
            continue
        rep.add(rule, node, fn, what, status, detail, key=key)
