"""C19 - headers are self-contained and usable from several translation units.

R19a  every public header compiles as the only (and first) parmcb header of a TU, per build
      configuration, with clang++ (and g++ in the thorough tier)            [compile witness]
R19b  its templates can be instantiated in such a TU                          [compile witness]
R19c  no definition with external linkage in a header is non-inline           [AST rule]
R19d  two objects that include every public header link                      [link witness, nothing runs]
"""
import concurrent.futures
import glob
import os
import re
import subprocess

from lib import env

TITLE = 'C19: compile/link witnesses per header and build configuration plus an AST rule over all header definitions.'


def public_headers():
    root = os.path.join(env.REPO, 'include')
    hs = sorted(glob.glob(os.path.join(root, 'parmcb', '**', '*.hpp'), recursive=True))
    return [os.path.relpath(h, root) for h in hs]


def is_mpi(h):
    return h.startswith('parmcb/mpi/')


def is_tbb_api(h):
    return h.endswith('_tbb.hpp')


def applicable(h, variant):
    if variant in ('nompi',):
        return not is_mpi(h)
    if variant == 'notbb_nompi':
        # the TBB/MPI entry-point headers *are* the TBB/MPI API; parmcb/mpi requires TBB (CMakeLists)
        return not is_mpi(h) and not is_tbb_api(h)
    return True


def snippet_for(h):
    rel = h[len('parmcb/'):].replace('/', '__')
    p = os.path.join(env.WITNESS, 'instantiate', rel + '.inc')
    return p if os.path.exists(p) else None


def _compile(job):
    compiler, variant, name, text, extra = job
    d = os.path.join(env.scratch(), 'c19')
    os.makedirs(d, exist_ok=True)
    src = os.path.join(d, re.sub(r'[^A-Za-z0-9_]', '_', '%s_%s_%s' % (compiler, variant, name)) + '.cc')
    with open(src, 'w') as fh:
        fh.write(text)
    flags = [f for f in env.flags(variant) if f != '-UNDEBUG']
    if compiler == 'g++':
        flags = [f for f in flags if f != '-Wno-everything'] + ['-w', '-fmax-errors=5']
    else:
        flags = flags + ['-ferror-limit=5']
    cmd = [compiler] + flags + ['-I' + os.path.join(env.WITNESS, 'instantiate')] + list(extra) + [src]
    p = subprocess.run(cmd, stdout=subprocess.PIPE, stderr=subprocess.STDOUT)
    out = p.stdout.decode(errors='replace')
    errs = [l for l in out.splitlines() if 'error' in l][:4]
    try:
        os.unlink(src)
    except OSError:
        pass
    return (job, p.returncode, errs)


def run(rep, tier):
    hs = public_headers()
    rep.rule('R19a', 'header compiles when it is the only parmcb header of the TU (-fsyntax-only)', floor=28)
    rep.rule('R19b', 'templates of the header instantiate in a TU whose only parmcb header it is', floor=20)
    rep.rule('R19c', 'no non-inline definition with external linkage in a header', floor=100)
    if len(hs) < 28:
        rep.analysis_broken('only %d public headers found under include/parmcb' % len(hs))

    thorough = tier == 'thorough'
    variants = ['full', 'nompi', 'notbb_nompi', 'full_logging'] if thorough else ['full', 'notbb_nompi']
    compilers = ['clang++', 'g++'] if thorough else ['clang++']
    jobs = []
    for h in hs:
        for v in variants:
            if not applicable(h, v):
                continue
            for c in compilers:
                jobs.append((c, v, 'a:' + h, '#include <%s>\n' % h, ['-fsyntax-only']))
        sn = snippet_for(h)
        if sn:
            for v in (variants if thorough else ['full']):
                if not applicable(h, v):
                    continue
                if v == 'notbb_nompi' and 'tbb' in open(sn).read() and 'PARMCB_HAVE_TBB' not in open(sn).read():
                    continue
                for c in compilers:
                    text = '#include <%s>\n#include "_common.inc"\n#include "%s"\n' % (h, os.path.basename(sn))
                    jobs.append((c, v, 'b:' + h, text, ['-fsyntax-only']))
        else:
            rep.info('R19b', 'include/' + h, 'header', 'no instantiation snippet: syntax-only witness', '')
    # positive examples (must fail to compile)
    pos_hdr = os.path.join(env.WITNESS, 'positive', 'c19_not_self_contained.hpp')
    jobs.append(('clang++', 'full', 'pos:a', '#include "%s"\n' % pos_hdr, ['-fsyntax-only']))

    with concurrent.futures.ThreadPoolExecutor(max_workers=16) as ex:
        results = list(ex.map(_compile, jobs))
    ncomp = 0
    for (job, rc, errs) in results:
        compiler, variant, name, text, extra = job
        kind, h = name.split(':', 1)
        if kind == 'pos':
            rep.positive('R19a', 'witness/positive/c19_not_self_contained.hpp', rc != 0)
            continue
        ncomp += 1
        rule = 'R19a' if kind == 'a' else 'R19b'
        what = '%s alone [%s, %s]' % ('compiles' if kind == 'a' else 'instantiates', variant, compiler)
        if rc == 0:
            rep.ok(rule, 'include/' + h, h, what)
        else:
            rep.violation(rule, 'include/' + h, h, what, ' | '.join(errs), key='%s|%s|%s' % (rule, h, variant))
    rep.extra['compilations'] = ncomp

    # ---- R19c on the resolved program
    tus = [env.witness_tu()]
    if thorough:
        tus += env.repo_tus()
    progs = env.extract(tus, 'full')
    rep.saw_programs(progs.values())
    inc_root = os.path.join(env.REPO, 'include') + '/'
    seen_files = set()
    for prog in progs.values():
        seen_files.update(f for f in prog.all_files if f.startswith(inc_root))
        for d in prog.header_decls:
            f = d['file']
            if not f.startswith(inc_root):
                continue
            site = '%s:%d:%d' % (f, d['loc'][1], d['loc'][2])
            bad = d['external'] and not d['inline'] and not d['templated']
            if d['kind'] == 'variable' and d['constexpr']:
                bad = False
            what = '%s %s is inline, a template, or has internal linkage' % (d['kind'], d['q'])
            if bad:
                rep.violation('R19c', site, d['q'], what,
                              'non-inline %s definition with external linkage in a header: every TU that includes it '
                              'defines the symbol' % d['kind'], key='R19c|%s' % d['q'])
            else:
                rep.ok('R19c', site, d['q'], what)
    missing = [h for h in hs if os.path.join(inc_root, h) not in seen_files]
    if missing:
        rep.analysis_broken('headers not reached by the witness TU (R19c would be vacuous for them): %s' % missing)

    # positive example for R19c
    pos = os.path.join(env.WITNESS, 'positive', 'c19_odr.cc')
    pp = env.extract([pos], 'full')[pos]
    fired = any(d['external'] and not d['inline'] and not d['templated'] and d['q'] == 'positive::not_inline'
                for d in pp.header_decls)
    rep.positive('R19c', 'witness/positive/c19_odr.hpp', fired)

    # ---- R19d link witness
    if True:
        link_witness(rep, hs)
        undefined_witness(rep, hs)
    rep.assume('a build configuration is one of the four config.hpp variants CMake can produce here '
               '(TBB+MPI, TBB only, neither, +LOGGING); *_tbb.hpp and mpi/ headers are the TBB/MPI API and are not '
               'required to compile without those libraries')


def undefined_witness(rep, hs):
    """R19e: each instantiation snippet, compiled by g++ at -O0 into an object and linked on its own with -z defs against the libraries the
    project links, leaves no undefined reference into the library's own namespace (a static data member that is odr-used but never defined,
    a declared-only function)"""
    rep.rule('R19e', 'nothing the header-only library declares is left undefined when its templates are instantiated (-O0 link, -z defs)', floor=15)
    d = os.path.join(env.scratch(), 'c19undef')
    os.makedirs(d, exist_ok=True)
    flags = [f for f in env.flags('full') if f not in ('-UNDEBUG', '-Wno-everything')]
    libs = ['-ltbb', '-lboost_mpi', '-lboost_serialization', '-lboost_timer', '-lboost_system', '-lboost_thread', '-lpthread']
    mpi_link = subprocess.run(['mpicxx', '--showme:link'], stdout=subprocess.PIPE, stderr=subprocess.DEVNULL).stdout.decode().split()

    def one(h):
        sn = snippet_for(h)
        if not sn:
            return None
        base = re.sub(r'[^A-Za-z0-9_]', '_', h)
        src = os.path.join(d, base + '.cc')
        with open(src, 'w') as fh:
            fh.write('#include <%s>\n#include "_common.inc"\n#include "%s"\n' % (h, os.path.basename(sn)))
        obj = os.path.join(d, base + '.o')
        p1 = subprocess.run(['g++'] + flags + ['-w', '-O0', '-fPIC', '-I' + os.path.join(env.WITNESS, 'instantiate'), '-c', src, '-o', obj],
                            stdout=subprocess.PIPE, stderr=subprocess.STDOUT)
        if p1.returncode != 0:
            return (h, 'compile', p1.stdout.decode(errors='replace')[:300])
        p2 = subprocess.run(['g++', '-shared', '-Wl,-z,defs', obj, '-o', os.path.join(d, base + '.so')] + libs + mpi_link,
                            stdout=subprocess.PIPE, stderr=subprocess.STDOUT)
        out = p2.stdout.decode(errors='replace')
        for f_ in (src, obj, os.path.join(d, base + '.so')):
            try:
                os.unlink(f_)
            except OSError:
                pass
        return (h, 'link', p2.returncode, out)
    with concurrent.futures.ThreadPoolExecutor(max_workers=8) as ex_:
        results = [r for r in ex_.map(one, hs) if r is not None]
    # positive example: must fail to link
    pos = os.path.join(env.WITNESS, 'positive', 'c19_undefined.cc')
    pobj = os.path.join(d, 'pos.o')
    pc = subprocess.run(['g++'] + flags + ['-w', '-O0', '-fPIC', '-c', pos, '-o', pobj], stdout=subprocess.PIPE, stderr=subprocess.STDOUT)
    pl = subprocess.run(['g++', '-shared', '-Wl,-z,defs', pobj, '-o', os.path.join(d, 'pos.so')], stdout=subprocess.PIPE, stderr=subprocess.STDOUT)
    rep.positive('R19e', 'witness/positive/c19_undefined.cc', pc.returncode == 0 and pl.returncode != 0 and b'undefined reference' in pl.stdout)
    for r in results:
        h = r[0]
        what = 'instantiation snippet of %s links with no undefined reference' % h
        if r[1] == 'compile':
            rep.info('R19e', 'include/' + h, h, what, 'object does not compile (reported by R19b)')
            continue
        rc, out = r[2], r[3]
        und = sorted(set(re.findall(r"undefined reference to `([^']+)'", out)))
        ours = [u for u in und if 'parmcb::' in u]
        if rc == 0:
            rep.ok('R19e', 'include/' + h, h, what)
        elif ours:
            rep.violation('R19e', 'include/' + h, h, what, 'undefined: %s (declared in the header, odr-used by an instantiation, defined nowhere: a header-only '
                          'library has no translation unit to put the definition in)' % '; '.join(ours[:3]), key='R19e|%s|%s' % (h, ours[0][:80]))
        else:
            rep.analysis_broken('R19e link of %s failed for another reason: %s' % (h, out[:300]))


def link_witness(rep, hs):
    rep.rule('R19d', 'two objects including every public header link without duplicate symbols', floor=1)
    d = os.path.join(env.scratch(), 'c19link')
    os.makedirs(d, exist_ok=True)
    objs = []
    procs = []
    for n in (1, 2):
        src = os.path.join(d, 'tu%d.cc' % n)
        with open(src, 'w') as fh:
            for h in hs:
                fh.write('#include <%s>\n' % h)
            fh.write('int tu%d() { return %d; }\n' % (n, n))
        obj = os.path.join(d, 'tu%d.o' % n)
        flags = [f for f in env.flags('full') if f not in ('-UNDEBUG', '-Wno-everything')]
        procs.append(subprocess.Popen(['g++'] + flags + ['-w', '-O0', '-fPIC', '-c', src, '-o', obj],
                                      stdout=subprocess.PIPE, stderr=subprocess.STDOUT))
        objs.append(obj)
    outs = [p.communicate()[0].decode(errors='replace') for p in procs]
    if any(p.returncode != 0 for p in procs):
        rep.analysis_broken('link witness objects do not compile: ' + ' '.join(outs)[:500])
        return
    p = subprocess.run(['g++', '-shared', '-o', os.path.join(d, 'w.so')] + objs, stdout=subprocess.PIPE,
                       stderr=subprocess.STDOUT)
    out = p.stdout.decode(errors='replace')
    dups = sorted(set(re.findall(r'multiple definition of `([^\']+)\'', out)))
    if p.returncode == 0:
        rep.ok('R19d', 'include/parmcb', 'all public headers', 'two TUs including every public header link')
    elif dups:
        for s in dups:
            rep.violation('R19d', 'include/parmcb', s, 'symbol defined once across two including TUs',
                          'multiple definition of ' + s, key='R19d|' + s)
    else:
        rep.analysis_broken('link witness failed for another reason: ' + out[:500])
