"""C18 - prime-field arithmetic (fp, primes, SpVecFP) matches arithmetic modulo p.

Values of gcds / inverses and primality by trial division are value-level: NOT claimed.  Decided:
R18a  ext_gcd: every sign selector that flows into the coefficient of a (out-parameter x) holds "a was negative", and
      into the coefficient of b holds "b was negative", on every path (path-sensitive abstract interpretation of the bool locals)
R18b  every value SpVecFP stores lies in [1, p-1]: symbolic interval analysis (bounds linear in p) of each push site
R18c  SpVecFP operator+ / dot product are index merges with the right action table; compound operators are alias-safe; copy ops
      copy every member
R18d  is_prime never returns the constant false under a divisibility test p % c == 0 with constant c unless p == c is excluded
R18e  get_mult_inverse throws unless the gcd is 1 and returns the coefficient of its first argument
"""
import os

from lib import env, ex
from . import c17

TITLE = 'C18: sign-flag pairing by path-sensitive abstract interpretation; range of stored F_p values by symbolic interval analysis; merge tables.'


# ================================================================================================ R18a
def explore_flags(prog, fn, tracked, transfer, visit):
    """forward exploration over (block, valuation of tracked locals); `transfer(node, state)` updates the state for an
    element, `visit(node, state)` observes it.  Branches on tracked bools with a constant value are pruned."""
    cfg = fn.cfg
    seen = set()
    init = tuple(sorted(((v, "u") for v in tracked), key=repr))
    work = [(cfg.entry, init)]
    while work:
        b, st = work.pop()
        if (b, st) in seen:
            continue
        seen.add((b, st))
        state = dict(st)
        blk = cfg.blocks[b]
        for e in blk.elems:
            if e is None:
                continue
            if e <= -2:
                e = -2 - e
            if e < 0:
                continue
            n = fn.nodes.get(e)
            if n is None:
                continue
            visit(n, state)
            transfer(n, state)
        succs = blk.succ
        decided = None
        if len(succs) == 2 and succs[0] != succs[1]:
            c = cfg.effective_cond(blk)
            if c is not None:
                f = ex.formula(c, lambda leaf: ex.f_atom(('flag', ex.var_of(leaf))) if ex.var_of(leaf) in tracked else None)
                if f is not None:
                    atoms = ex.f_atoms(f)
                    if atoms and all(state.get(a[1]) in ('T', 'F') for a in atoms):
                        decided = ex.f_eval(f, {a: state[a[1]] == 'T' for a in atoms})
        for ix, s in enumerate(succs):
            if s is None:
                continue
            if decided is not None and (ix == 0) != bool(decided):
                continue
            work.append((s, tuple(sorted(state.items(), key=repr))))
    return len(seen)


def check_gcd_sign(rep, prog, fn):
    """R18h: every value returned by ext_gcd is computed from the absolute values of its arguments: a `return a` / `return b` / `return _a[..]` is
    reached only after the normalisation `p = (p < 0) ? -p : p` (or with a flag holding p < 0, std::abs, `if (p < 0) p = -p`) of every argument
    that can flow into it"""
    if len(fn.param_ids) != 4:
        return
    pa, pb = fn.param_ids[0], fn.param_ids[1]
    cfg = fn.cfg
    what = 'the gcd returned by ext_gcd is computed from the absolute values of the arguments (it is non-negative)'

    def is_neg_test(c, pv):
        s_ = c.strip_all()
        if s_.k == 'BinaryOperator' and s_.op == '<' and ex.var_of(s_.c[0]) == pv and s_.c[1].strip_all().cv == 0:
            return True
        if s_.k == 'BinaryOperator' and s_.op == '>' and ex.var_of(s_.c[1]) == pv and s_.c[0].strip_all().cv == 0:
            return True
        v = ex.var_of(s_)
        if v is not None:
            defs = [rhs for (_d, rhs) in ex.assignments_to(fn, v) if rhs is not None]
            return bool(defs) and all(is_neg_test(r_, pv) for r_ in defs)
        return False

    def is_neg_of(e, pv):
        s_ = e.strip_all()
        return s_.k == 'UnaryOperator' and s_.op == '-' and ex.var_of(s_.c[0]) == pv
    norms = {pa: [], pb: []}
    for d in fn.walk():
        if d.k == 'BinaryOperator' and d.op == '=' and ex.var_of(d.c[0]) in norms:
            pv = ex.var_of(d.c[0])
            r = d.c[1].strip_all()
            if r.k == 'ConditionalOperator' and is_neg_test(r.cond, pv) and is_neg_of(r.then, pv) and ex.var_of(r.els) == pv:
                norms[pv].append(d)
            elif r.k == 'CallExpr' and r.callee and r.callee['name'] in ('abs', 'labs', 'llabs') and r.args() and ex.var_of(r.args()[0]) == pv:
                norms[pv].append(d)
            elif is_neg_of(r, pv):
                # if (p < 0) p = -p;
                conds = ex.ast_conditions(d)
                if conds and is_neg_test(conds[0][0], pv) and conds[0][1]:
                    norms[pv].append(conds[0][0].enclosing('IfStmt') or d)
    # local arrays / variables fed from the parameters
    feeds = {}
    for d in fn.walk():
        if d.k == 'BinaryOperator' and d.op == '=':
            l = d.c[0].strip_all()
            rv = ex.var_of(d.c[1])
            if rv in (pa, pb):
                tgt = ex.var_of(l.c[0]) if l.k == 'ArraySubscriptExpr' and l.c else ex.var_of(l)
                if tgt is not None and tgt not in (pa, pb):
                    feeds.setdefault(tgt, []).append((d, rv))
    n = 0
    for r in ex.returns_of(fn):
        if not r.c:
            continue
        e = r.c[0].strip_all()
        srcs = []
        v = ex.var_of(e.c[0]) if e.k == 'ArraySubscriptExpr' and e.c else ex.var_of(e)
        if v in (pa, pb):
            srcs = [(r, v)]
        elif v in feeds:
            srcs = feeds[v]
        else:
            continue
        n += 1
        bad = [(site, pv) for (site, pv) in srcs if not any(cfg.dominates(nm, site) for nm in norms[pv])]
        if bad:
            site, pv = bad[0]
            rep.violation('R18h', r, fn, what, '`%s` can carry the raw argument %s (line %d is reached without `%s = |%s|`): for a negative argument the returned '
                          '"gcd" is negative' % (r.text(30), prog.vars[pv]['name'], site.line, prog.vars[pv]['name'], prog.vars[pv]['name']),
                          key='R18h|%s|raw-%s' % (fn.g, prog.vars[pv]['name']))
        else:
            rep.ok('R18h', r, fn, what, 'every argument flowing into `%s` was replaced by its absolute value first' % r.text(30))
    return n


def check_ext_gcd(rep, prog, fn):
    check_gcd_sign(rep, prog, fn)
    what = 'sign flags are paired with the coefficients they belong to (x with the sign of a, y with the sign of b)'
    if len(fn.param_ids) != 4:
        rep.undecided('R18a', fn.body, fn, what, 'ext_gcd does not have the signature (a, b, x, y)')
        return
    pa, pb, px, py = fn.param_ids
    bools = set()
    for n in fn.walk():
        if n.k == 'VarDecl' and (prog.type(n.j.get('t')) or {}).get('bool') and prog.vars[n.decl_id]['kind'] == 'local':
            bools.add(n.decl_id)
    first_write = {}
    cfg = fn.cfg

    def sign_test(rhs):
        """'sa' / 'sb' if rhs is `<param> < 0`"""
        s = rhs.strip_all()
        if s.k in ('BinaryOperator', 'CXXOperatorCallExpr') and s.op == '<':
            ops = s.c if s.k == 'BinaryOperator' else s.c[1:]
            v = ex.var_of(ops[0])
            z = ops[1].strip_all()
            zero = z.cv == 0 or (z.k in ex.CTOR_KINDS and len(z.c) == 1 and z.c[0].strip_all().cv == 0)
            if zero and v == pa:
                return 'sa'
            if zero and v == pb:
                return 'sb'
        if s.k in ('BinaryOperator', 'CXXOperatorCallExpr') and s.op == '>':
            ops = s.c if s.k == 'BinaryOperator' else s.c[1:]
            v = ex.var_of(ops[1])
            z = ops[0].strip_all()
            if z.cv == 0 and v == pa:
                return 'sa'
            if z.cv == 0 and v == pb:
                return 'sb'
        return None
    modified = {'a': False, 'b': False}
    problems = []
    selections = []

    def transfer(n, st):
        if n.k == 'DeclStmt':
            for ch in n.c:
                if ch.k == 'VarDecl':
                    transfer(ch, st)
            return
        if n.k in ('BinaryOperator', 'CXXOperatorCallExpr') and n.op == '=':
            ops = n.c if n.k == 'BinaryOperator' else n.c[1:]
            v = ex.var_of(ops[0])
            if v in bools:
                r = ops[1].strip_all()
                if r.cv is not None and r.k != 'CallExpr':
                    st[v] = 'T' if r.cv else 'F'
                else:
                    sg = sign_test(ops[1])
                    if sg is not None:
                        # the test must read the parameter before it is overwritten with its absolute value
                        st[v] = sg if not st.get(('mod', sg)) else 'u'
                    elif ex.var_of(r) in bools:
                        st[v] = st.get(ex.var_of(r), 'u')
                    elif r.k == 'UnaryOperator' and r.op == '!' and ex.var_of(r.c[0]) in bools:
                        st[v] = {'T': 'F', 'F': 'T'}.get(st.get(ex.var_of(r.c[0]), 'u'), 'u')
                    else:
                        st[v] = 'u'
            if v == pa:
                st[('mod', 'sa')] = True
            if v == pb:
                st[('mod', 'sb')] = True
        if n.k == 'VarDecl' and n.decl_id in bools and n.c:
            r = n.c[0].strip_all()
            if r.cv is not None and r.k != 'CallExpr':
                st[n.decl_id] = 'T' if r.cv else 'F'
            else:
                sg = sign_test(n.c[0])
                st[n.decl_id] = sg if sg and not st.get(('mod', sg)) else (st.get(ex.var_of(r), 'u') if ex.var_of(r) in bools else 'u')
        if n.k == 'CallExpr' and n.callee and n.callee['g'] == 'std::swap' and len(n.args()) == 2:
            x, y = ex.var_of(n.args()[0]), ex.var_of(n.args()[1])
            if x in bools and y in bools:
                st[x], st[y] = st.get(y, 'u'), st.get(x, 'u')

    def visit(n, st):
        if n.k in ('BinaryOperator', 'CXXOperatorCallExpr') and n.op == '=':
            ops = n.c if n.k == 'BinaryOperator' else n.c[1:]
            v = ex.var_of(ops[0])
            if v in (px, py):
                want = 'sa' if v == px else 'sb'
                def is_sign_selector(d):
                    # flag ? -1 : 1  (either order): the branches are the constants +1 and -1
                    if d.k != 'ConditionalOperator' or d.cond is None:
                        return False
                    vals = {d.then.strip_all().cv, d.els.strip_all().cv}
                    return vals == {1, -1}
                cands = []
                for d in ops[1].walk():
                    if d.k == 'ConditionalOperator':
                        cands.append(d)
                    if d.k == 'DeclRefExpr' and d.decl_id is not None and prog.vars[d.decl_id].get('kind') == 'local' and d.decl_id not in bools:
                        # a local holding the sign: const int asign = aneg ? -1 : 1;
                        dd = ex.unique_def(fn, d.decl_id)
                        if dd is not None and dd.strip_all().k == 'ConditionalOperator':
                            cands.append(dd.strip_all())
                for d in cands:
                    if not is_sign_selector(d):
                        continue
                    fv = ex.var_of(d.cond)
                    if fv in bools:
                        content = st.get(fv, 'u')
                        selections.append((n, d, v, want, content, fv))

    tracked = set(bools)
    explore_flags(prog, fn, tracked, transfer, visit)
    if not selections:
        rep.undecided('R18a', fn.body, fn, what, 'no sign selector `flag ? -1 : 1` flows into the out-parameters')
        return
    by_site = {}
    for (n, d, v, want, content, fv) in selections:
        by_site.setdefault((n.i, d.i), []).append((n, d, v, want, content, fv))
    for key, lst in by_site.items():
        n, d, v, want, _c, fv = lst[0]
        contents = set(x[4] for x in lst)
        whats = 'selector of the coefficient written at line %d is the sign of %s' % (n.line, 'a' if v == px else 'b')
        if contents == {want}:
            rep.ok('R18a', n, fn, whats, 'flag %s holds "%s < 0" on every path reaching the assignment' % (prog.vars[fv]['name'], 'a' if want == 'sa' else 'b'))
        elif 'u' in contents and len(contents - {'u', want}) == 0:
            rep.undecided('R18a', n, fn, whats, 'content of flag %s is not determined on some path' % prog.vars[fv]['name'])
        else:
            wrong = sorted(contents - {want})
            rep.violation('R18a', n, fn, whats,
                          '`%s` uses flag %s, which on some path holds %s: the coefficient of %s gets the sign of the other operand, so a*x + b*y = -g' % (
                              n.text(50), prog.vars[fv]['name'], ', '.join({'sa': '"a < 0"', 'sb': '"b < 0"', 'u': 'an undetermined value', 'T': 'true', 'F': 'false'}[w] for w in wrong),
                              'a' if v == px else 'b'), key='R18a|%s|%s' % (fn.g, 'x' if v == px else 'y'))


# ================================================================================================ R18b symbolic intervals
INF = ('inf',)
NINF = ('ninf',)


def b_add(x, y):
    if x in (INF, NINF):
        return x
    if y in (INF, NINF):
        return y
    return (x[0] + y[0], x[1] + y[1])


def b_le(x, y):
    """x <= y for all p >= 2, bounds are (c, k) meaning c + k*p"""
    if x == NINF or y == INF:
        return True
    if x == INF or y == NINF:
        return False
    dc, dk = y[0] - x[0], y[1] - x[1]
    return dk >= 0 and dc + 2 * dk >= 0


def b_min(x, y):
    if b_le(x, y):
        return x
    if b_le(y, x):
        return y
    return None


def b_max(x, y):
    if b_le(x, y):
        return y
    if b_le(y, x):
        return x
    return None


class Iv(object):
    __slots__ = ('lo', 'hi')

    def __init__(self, lo, hi):
        self.lo, self.hi = lo, hi

    def __repr__(self):
        def f(b):
            if b == INF:
                return '+inf'
            if b == NINF:
                return '-inf'
            c, k = b
            if k == 0:
                return str(c)
            s = ('%dp' % k) if k not in (1, -1) else ('p' if k == 1 else '-p')
            return s + (('%+d' % c) if c else '')
        return '[%s, %s]' % (f(self.lo), f(self.hi))

    def empty(self):
        return not b_le(self.lo, self.hi) and b_le(self.hi, self.lo) and self.lo != self.hi


TOP = Iv(NINF, INF)
P = (0, 1)
ZERO = (0, 0)


def iv_join(a, b):
    if a is None:
        return b
    if b is None:
        return a
    lo = b_min(a.lo, b.lo)
    hi = b_max(a.hi, b.hi)
    return Iv(lo if lo is not None else NINF, hi if hi is not None else INF)


def iv_add(a, b):
    return Iv(b_add(a.lo, b.lo) if NINF not in (a.lo, b.lo) else NINF, b_add(a.hi, b.hi) if INF not in (a.hi, b.hi) else INF)


def iv_shift(a, dc, dk):
    def sh(x):
        return x if x in (INF, NINF) else (x[0] + dc, x[1] + dk)
    return Iv(sh(a.lo), sh(a.hi))


def iv_meet(a, lo=None, hi=None):
    """restrict to [lo, hi]; returns None if provably empty"""
    nlo, nhi = a.lo, a.hi
    if lo is not None:
        m = b_max(nlo, lo)
        nlo = m if m is not None else nlo
    if hi is not None:
        m = b_min(nhi, hi)
        nhi = m if m is not None else nhi
    if nlo not in (NINF,) and nhi not in (INF,) and b_le(nhi, nlo) and nhi != nlo:
        return None
    return Iv(nlo, nhi)


class FpInterp(object):
    """interprets one loop body of an SpVecFP member function over symbolic intervals"""

    def __init__(self, prog, fn, rep, rule):
        self.prog, self.fn, self.rep, self.rule = prog, fn, rep, rule
        self.pfield = None
        for n in fn.walk():
            if n.k == 'MemberExpr' and n.decl and n.decl.get('kind') == 'field' and n.decl.get('name') == 'p' and n.c and n.c[0].strip_all().k == 'CXXThisExpr':
                self.pfield = n.decl_id
        self.pushes = []
        self.returns = []
        self.unknown_nodes = []
        self.depth = 0

    def is_p(self, n):
        s = n.strip_all()
        return s.k == 'MemberExpr' and s.decl_id == self.pfield and self.pfield is not None

    def value(self, n, envv):
        s = n.strip_all()
        if s.cv is not None and s.k not in ex.CALL_KINDS:
            return Iv((s.cv, 0), (s.cv, 0))
        if s.k in ex.CTOR_KINDS and len(s.c) == 1:
            return self.value(s.c[0], envv)
        if self.is_p(s):
            return Iv(P, P)
        v = ex.var_of(s)
        if v is not None and v in envv:
            return envv[v]
        if s.k == 'CallExpr' and s.callee and s.callee['g'] in ('boost::get', 'boost::tuples::get', 'std::get') and s.args():
            ta = s.callee.get('targs') or []
            which = ta[0].get('int') if ta and isinstance(ta[0], dict) else None
            if which == 1:
                # value component of an existing entry: the class invariant (induction hypothesis)
                return Iv((1, 0), (-1, 1))
            return TOP
        if s.k in ('BinaryOperator', 'CXXOperatorCallExpr') and s.op in ('+', '-', '*', '%') and len(s.c if s.k == 'BinaryOperator' else s.c[1:]) == 2:
            ops = s.c if s.k == 'BinaryOperator' else s.c[1:]
            a, b = self.value(ops[0], envv), self.value(ops[1], envv)
            if s.op == '+':
                return iv_add(a, b)
            if s.op == '-':
                nb = Iv(tuple(-x for x in b.hi) if b.hi not in (INF, NINF) else NINF, tuple(-x for x in b.lo) if b.lo not in (INF, NINF) else INF)
                return iv_add(a, nb)
            if s.op == '*':
                if a.lo == a.hi and a.lo not in (INF, NINF) and a.lo[1] == 0 and b.lo not in (INF, NINF) and b.hi not in (INF, NINF) and a.lo[0] >= 0:
                    return Iv((b.lo[0] * a.lo[0], b.lo[1] * a.lo[0]), (b.hi[0] * a.lo[0], b.hi[1] * a.lo[0]))
                # product of two entries in [1,p-1]: non-negative, unbounded in p
                if b_le(ZERO, a.lo) and b_le(ZERO, b.lo):
                    return Iv(ZERO, INF)
                return TOP
            if s.op == '%' and self.is_p(ops[1]):
                if b_le(ZERO, a.lo):
                    hi = b_min(a.hi, (-1, 1)) if a.hi != INF else (-1, 1)
                    return Iv(ZERO if not b_le((0, 0), a.lo) or True else a.lo, hi if hi is not None else (-1, 1))
                return Iv((1, -1), (-1, 1))
        # a one-parameter helper of the class (e.g. normalize(v)): interpreted with the argument's interval
        if s.k in ('CXXMemberCallExpr', 'CallExpr') and s.callee and s.callee.get('in_repo') and s.callee_id is not None and len(s.args()) == 1 and self.depth < 3:
            hf = self.prog.fn_of_fref(s.callee_id)
            if hf is not None and hf.body is not None and len(hf.param_ids) == 1:
                sub = FpInterp(self.prog, hf, self.rep, self.rule)
                sub.depth = self.depth + 1
                sub.run(hf.body, {hf.param_ids[0]: self.value(s.args()[0], envv)})
                self.unknown_nodes += sub.unknown_nodes
                if sub.returns and not sub.pushes:
                    out = None
                    for r in sub.returns:
                        out = iv_join(out, r)
                    return out
        # an existing entry's value read through an iterator / reference: the class invariant
        self.unknown_nodes.append(s)
        return TOP

    def refine(self, cond, envv, truth):
        """refine envv under `cond == truth`; returns new env or None if infeasible"""
        s = cond.strip_all()
        if s.k in ('BinaryOperator', 'CXXOperatorCallExpr') and s.op in ('<', '<=', '>', '>=', '!=', '=='):
            ops = s.c if s.k == 'BinaryOperator' else s.c[1:]
            v = ex.var_of(ops[0])
            other = ops[1]
            op = s.op
            if v is None or v not in envv:
                v = ex.var_of(ops[1])
                other = ops[0]
                op = {'<': '>', '>': '<', '<=': '>=', '>=': '<=', '!=': '!=', '==': '=='}[op]
            if v is None or v not in envv:
                return envv
            o = self.value(other, envv)
            if o.lo != o.hi or o.lo in (INF, NINF):
                return envv
            c = o.lo
            if not truth:
                op = {'<': '>=', '>=': '<', '>': '<=', '<=': '>', '!=': '==', '==': '!='}[op]
            cur = envv[v]
            new = cur
            if op == '<':
                new = iv_meet(cur, hi=(c[0] - 1, c[1]))
            elif op == '<=':
                new = iv_meet(cur, hi=c)
            elif op == '>':
                new = iv_meet(cur, lo=(c[0] + 1, c[1]))
            elif op == '>=':
                new = iv_meet(cur, lo=c)
            elif op == '==':
                new = iv_meet(cur, lo=c, hi=c)
            elif op == '!=':
                if cur.lo == c:
                    new = Iv((c[0] + 1, c[1]), cur.hi)
                elif cur.hi == c:
                    new = Iv(cur.lo, (c[0] - 1, c[1]))
            if new is None:
                return None
            e2 = dict(envv)
            e2[v] = new
            return e2
        return envv

    def run(self, stmt, envv):
        k = stmt.k
        if envv is None:
            return None
        if k == 'CompoundStmt':
            for c in stmt.c:
                envv = self.run(c, envv)
                if envv is None:
                    return None
            return envv
        if k == 'ReturnStmt':
            if stmt.c:
                self.returns.append(self.value(stmt.c[0], envv))
            return None
        if k == 'DeclStmt':
            for n in stmt.c:
                if n.k == 'VarDecl':
                    envv = dict(envv)
                    envv[n.decl_id] = self.value(n.c[0], envv) if n.c else TOP
            return envv
        if k == 'IfStmt':
            t = self.refine(stmt.cond, envv, True)
            f = self.refine(stmt.cond, envv, False)
            rt = self.run(stmt.then, t) if t is not None and stmt.then is not None else None
            rf = self.run(stmt.els, f) if (f is not None and stmt.els is not None) else f
            if rt is None:
                return rf
            if rf is None:
                return rt
            out = {}
            for v in set(rt) | set(rf):
                out[v] = iv_join(rt.get(v), rf.get(v)) if v in rt and v in rf else (rt.get(v) or rf.get(v))
            return out
        if k == 'WhileStmt':
            # normalisation loops  while (v < 0) v += p;   while (v >= p) v -= p;
            body = stmt.body
            upd = None
            for d in body.walk():
                if d.k in ('CompoundAssignOperator', 'CXXOperatorCallExpr') and d.op in ('+=', '-='):
                    ops = d.c if d.k == 'CompoundAssignOperator' else d.c[1:]
                    if self.is_p(ops[1]) and ex.var_of(ops[0]) in envv:
                        upd = (ex.var_of(ops[0]), 1 if d.op == '+=' else -1)
            if upd is None:
                return envv     # other loops do not touch the tracked values (checked by the caller per loop body)
            v, sign = upd
            cur = envv
            result = None
            for _ in range(6):
                stay = self.refine(stmt.cond, cur, False)
                go = self.refine(stmt.cond, cur, True)
                if stay is not None:
                    result = stay if result is None else {x: iv_join(result.get(x), stay.get(x)) for x in set(result) | set(stay)}
                if go is None:
                    cur = None
                    break
                go = dict(go)
                go[v] = iv_shift(go[v], 0, sign)
                cur = go
            if cur is not None:
                # not stabilised: the loop exits only with the negated condition
                stay = self.refine(stmt.cond, {**cur, v: TOP}, False)
                if stay is not None:
                    result = stay if result is None else {x: iv_join(result.get(x), stay.get(x)) for x in set(result) | set(stay)}
            return result
        e = stmt.strip_all() if hasattr(stmt, 'strip_all') else stmt
        if e.k in ('CompoundAssignOperator', 'BinaryOperator', 'CXXOperatorCallExpr') and e.op in ('=', '+=', '-=', '*=', '%='):
            ops = e.c if e.k != 'CXXOperatorCallExpr' else e.c[1:]
            v = ex.var_of(ops[0])
            if v is not None and v in envv:
                envv = dict(envv)
                if e.op == '=':
                    envv[v] = self.value(ops[1], envv)
                elif e.op in ('+=', '-='):
                    r = self.value(ops[1], envv)
                    if e.op == '-=':
                        r = Iv(tuple(-x for x in r.hi) if r.hi not in (INF, NINF) else NINF, tuple(-x for x in r.lo) if r.lo not in (INF, NINF) else INF)
                    envv[v] = iv_add(envv[v], r)
                else:
                    envv[v] = TOP
            return envv
        if e.k == 'CXXMemberCallExpr' and e.callee and e.callee['name'] in ('push_back', 'emplace_back'):
            a = e.args()
            val = None
            if len(a) == 1:
                t = a[0].strip_all()
                hops_ = 0
                while t.k in ex.CTOR_KINDS and len(t.c) == 1 and hops_ < 3:
                    t = t.c[0].strip_all()      # converting construction tuple<size_t,int> -> tuple<size_t,P>
                    hops_ += 1
                if t.k == 'CallExpr' and t.callee and t.callee['name'] in ('make_tuple', 'make_pair') and len(t.args()) == 2:
                    val = t.args()[1]
                elif t.k in ex.CTOR_KINDS and len(t.c) == 2:
                    val = t.c[1]
            elif len(a) == 2:
                val = a[1]
            if val is not None:
                self.pushes.append((e, val, self.value(val, envv)))
            elif len(a) == 1 and a[0].strip_all().k in ('UnaryOperator', 'CXXOperatorCallExpr') and a[0].strip_all().op == '*':
                # an existing entry copied through an iterator: the class invariant (induction hypothesis)
                self.pushes.append((e, a[0], Iv((1, 0), (-1, 1))))
            elif len(a) == 1 and ex.var_of(a[0]) is not None and 'tuple' in ((self.prog.base_type(a[0].strip_all().j.get('t')) or {}).get('canon') or ''):
                self.pushes.append((e, a[0], Iv((1, 0), (-1, 1))))
            else:
                self.pushes.append((e, None, None))
            return envv
        return envv


def check_fp_ranges(rep, prog, fn):
    """R18b on one member function of SpVecFP"""
    interp = FpInterp(prog, fn, rep, 'R18b')
    if fn.body is None:
        return 0
    # interpret every outermost loop body (and the function body itself for straight-line members) from a fresh state
    tops = [n for n in fn.body.c if n.k in ('WhileStmt', 'ForStmt')]
    if tops:
        for lp in tops:
            interp.run(lp.body, {})
    interp_top = FpInterp(prog, fn, rep, 'R18b')
    straight = [n for n in fn.body.c if n.k not in ('WhileStmt', 'ForStmt')]
    envv = {}
    for st in straight:
        envv = interp_top.run(st, envv) or envv
    pushes = interp.pushes + interp_top.pushes
    n = 0
    for (node, val, iv) in pushes:
        # only pushes into the entries of an SpVecFP (res.entries / entries)
        o = node.object_arg()
        if o is None or not (o.strip_all().k == 'MemberExpr' and o.strip_all().decl and o.strip_all().decl.get('name') == 'entries'):
            continue
        n += 1
        what = 'the value stored by `%s` lies in [1, p-1]' % node.text(50)
        if iv is None:
            rep.undecided('R18b', node, fn, what, 'pushed element is not (index, value)')
            continue
        ok = b_le((1, 0), iv.lo) and b_le(iv.hi, (-1, 1))
        unk = interp.unknown_nodes + interp_top.unknown_nodes
        if ok:
            rep.ok('R18b', node, fn, what, 'symbolic interval %r' % iv)
        elif unk and iv.lo == NINF and iv.hi == INF:
            rep.undecided('R18b', node, fn, what, 'the stored value depends on `%s`, which the interval interpreter does not understand' % unk[0].text(40))
        else:
            rep.violation('R18b', node, fn, what,
                          'the stored value ranges over %r (bounds in terms of p): it can be %s, so a coordinate that is 0 modulo p is kept or a value is not reduced' % (
                              iv, 'p itself' if iv.hi == P else ('0 or negative' if not b_le((1, 0), iv.lo) else 'p or larger')),
                          key='R18b|%s|range' % fn.g)
    return n


def check_dot_accumulator(rep, prog, fn):
    """R18g: the accumulator of the dot product is reduced modulo p in every step: with acc in [0, p-1] at the head of an iteration it is back
    in [0, p-1] at its end (inductive invariant checked with the interval interpreter).  An accumulator that only grows (`res += x * y`, one
    reduction at the end) overflows the value type for large primes and many common coordinates."""
    rets = ex.returns_of(fn)
    if not rets or not rets[0].c:
        return 0
    acc = None
    for x in [rets[0].c[0].strip_all()] + list(rets[0].c[0].walk()):
        v = ex.var_of(x) if x.k == 'DeclRefExpr' else None
        if v is not None and prog.vars[v]['kind'] == 'local':
            acc = v
            break
    what = 'the dot-product accumulator is reduced modulo p in every step (stays within [0, p-1] across iterations)'
    if acc is None:
        rep.undecided('R18g', fn.body, fn, what, 'returned accumulator not found')
        return 1
    loops = [n for n in fn.body.c if n.k in ('WhileStmt', 'ForStmt')]
    touched = [lp for lp in loops if any(d.k in ('BinaryOperator', 'CompoundAssignOperator', 'CXXOperatorCallExpr') and d.op in ('=', '+=', '*=', '-=') and
                                         ex.var_of((d.c if d.k != 'CXXOperatorCallExpr' else d.c[1:])[0]) == acc for d in lp.walk())]
    if not touched:
        rep.undecided('R18g', fn.body, fn, what, 'no loop updates the accumulator')
        return 1
    for lp in touched:
        interp = FpInterp(prog, fn, rep, 'R18g')
        out = interp.run(lp.body, {acc: Iv(ZERO, (-1, 1))})
        iv = (out or {}).get(acc)
        if iv is None:
            rep.undecided('R18g', lp, fn, what, 'loop body not interpretable')
        elif b_le(ZERO, iv.lo) and b_le(iv.hi, (-1, 1)):
            rep.ok('R18g', lp, fn, what, 'inductive: [0, p-1] at the head gives %r at the end of an iteration' % iv)
        else:
            rep.violation('R18g', lp, fn, what,
                          'starting an iteration within [0, p-1] the accumulator ends it within %r: it is not reduced per step, so it grows with every common '
                          'coordinate (up to (p-1)^2 each) and overflows the value type for built-in integers' % iv, key='R18g|%s|accumulator' % fn.g)
    return 1


# ================================================================================================ R18c merge tables for SpVecFP
def check_fp_merge(rep, prog, fn, kind):
    what = 'SpVecFP %s is an index merge of two strictly increasing entry lists' % ('operator+' if kind == 'plus' else 'dot product')
    m = c17.MergeModel(prog, fn)
    main = c17.find_main_loop(prog, fn, m.cursors)
    if main is None:
        rep.undecided('R18c', fn.body, fn, what, 'no two-cursor merge loop found')
        return
    m.classify_locals(main.body)
    for st in fn.body.c:
        if st is main:
            break
        if st.k != 'DeclStmt' and not c17.is_assert_stmt(st):
            rep.undecided('R18c', st, fn, what, 'statement in front of the merge loop is not in the idiom table')
            return
    bad = []
    for order in ('lt', 'eq', 'gt'):
        acts = m.actions(main.body, order)
        advs = sorted(a[1] for a in acts if a[0] == 'adv')
        pushes = [a for a in acts if a[0] == 'push']
        cond_pushes = []
        for a in acts:
            if a[0] in ('if', 'else'):
                cond_pushes += [x for x in a[2] if x[0] == 'push']
        want_adv = {'lt': ['this'], 'gt': ['arg'], 'eq': ['arg', 'this']}[order]
        if advs != want_adv:
            bad.append('%s: cursors advanced %s, expected %s' % (order, advs, want_adv))
        if kind == 'plus':
            if order in ('lt', 'gt'):
                owner = 'this' if order == 'lt' else 'arg'
                wantp = ('tuple', ('idx', owner), ('val', owner))
                if len(pushes) != 1 or pushes[0][1] not in (wantp, ('elem', owner), ('entry', owner)):
                    bad.append('%s: pushes %s, expected the entry of the %s operand' % (order, [p[1] for p in pushes], owner))
            else:
                if pushes:
                    bad.append('eq: an entry is pushed unconditionally (the sum may be 0 mod p)')
                if len(cond_pushes) != 1:
                    bad.append('eq: %d conditional pushes (expected one, guarded by v != 0)' % len(cond_pushes))
                else:
                    d = cond_pushes[0][1]
                    if not (d[0] == 'tuple' and d[1][0] == 'idx'):
                        bad.append('eq: pushed entry does not carry the common index')
        else:
            if pushes or cond_pushes:
                bad.append('%s: dot product pushes entries' % order)
    if bad:
        rep.violation('R18c', main, fn, what, '; '.join(bad), key='R18c|%s|table' % fn.g)
    else:
        rep.ok('R18c', main, fn, what, 'action table matches (lt: copy left, gt: copy right, eq: combine)')
    if kind == 'plus':
        c17.check_tails(rep, prog, fn, m, main, 'R18c', what, expect_push=True)


# ================================================================================================ R18d / R18e
def check_is_prime(rep, prog, fn):
    what = 'a divisibility shortcut p % c == 0 with constant c does not call c itself composite'
    p = fn.param_ids[0] if fn.param_ids else None
    n = 0
    for r in ex.returns_of(fn):
        if not r.c:
            continue
        conds = ex.ast_conditions(r)
        for (c, pol) in conds:
            s = c.strip_all()
            if s.k in ('BinaryOperator', 'CXXOperatorCallExpr') and s.op == '==' and pol:
                ops = s.c if s.k == 'BinaryOperator' else s.c[1:]
                l = ops[0].strip_all()
                if l.k in ('BinaryOperator', 'CXXOperatorCallExpr') and l.op == '%':
                    lops = l.c if l.k == 'BinaryOperator' else l.c[1:]
                    if ex.var_of(lops[0]) == p:
                        d = lops[1].strip_all()
                        cval = d.cv
                        if cval is None and d.k in ex.CTOR_KINDS and len(d.c) == 1:
                            cval = d.c[0].strip_all().cv
                        if cval is None:
                            continue     # variable divisor (trial division loop): value-level
                        if r.enclosing('WhileStmt', 'ForStmt', 'DoStmt') is not None:
                            continue
                        n += 1
                        rv = r.c[0].strip_all()
                        excl = any(excludes_equal(prog, fn, cc, pp, p, cval) for (cc, pp) in conds if cc is not c)
                        if rv.cv == 0 and not excl:
                            rep.violation('R18d', r, fn, what, '`if (p %% %d == 0) return false` also fires for p == %d, which is prime' % (cval, cval) if is_small_prime(cval) else
                                          'shortcut returns false for every multiple of %d' % cval, key='R18d|%s|%d' % (fn.g, cval))
                        else:
                            rep.ok('R18d', r, fn, what, 'returns `%s` under p %% %d == 0' % (rv.text(20), cval))
    return n


def check_trial_division(rep, prog, fn):
    """R18f: the trial-division loop tries the divisor sqrt(p) itself: its condition, folded with t := q and p := q*q,
    holds for odd primes q (otherwise squares of primes are reported prime)"""
    what = 'trial division reaches floor(sqrt(p)): the square of a prime is not reported prime'
    p = fn.param_ids[0] if fn.param_ids else None
    n = 0
    for lp in fn.body.walk():
        if lp.k not in ('WhileStmt', 'ForStmt', 'DoStmt') or lp.cond is None or lp.body is None:
            continue
        # divisor variable: p % t == 0 -> return false inside the loop
        tvar = None
        for d in lp.body.walk():
            if d.k in ('BinaryOperator', 'CXXOperatorCallExpr') and d.op == '%':
                ops = d.c if d.k == 'BinaryOperator' else d.c[1:]
                if len(ops) == 2 and ex.var_of(ops[0]) == p and ex.var_of(ops[1]) is not None:
                    tvar = ex.var_of(ops[1])
        if tvar is None:
            continue
        n += 1
        defs = {}
        for d in fn.walk():
            if d.k == 'VarDecl' and d.c and d.decl_id != tvar and len(ex.assignments_to(fn, d.decl_id)) == 1:
                defs[d.decl_id] = d.c[0]
        bad = None
        unknown = None
        for q in (3, 5, 7, 11, 13, 101):
            def bind(s_, q=q):
                v = ex.var_of(s_)
                if v == tvar:
                    return q
                if v == p:
                    return q * q
                return None
            try:
                if not ex.ceval(lp.cond, bind, defs):
                    bad = q
                    break
            except ex.Unknown as e:
                unknown = str(e)
                break
        # start value and step
        starts = [rhs for (d, rhs) in ex.assignments_to(fn, tvar) if rhs is not None and not lp.body.is_ancestor_of(d) and
                  not (lp.role('inc') is not None and lp.role('inc').is_ancestor_of(d))]
        if unknown:
            rep.undecided('R18f', lp, fn, what, 'loop condition could not be evaluated: ' + unknown)
        elif bad:
            rep.violation('R18f', lp, fn, what, 'with p = %d and divisor candidate t = %d the loop condition `%s` is false: %d is never tried, so %d is '
                          'reported prime' % (bad * bad, bad, lp.cond.text(30), bad, bad * bad), key='R18f|%s|bound' % fn.g)
        else:
            rep.ok('R18f', lp, fn, what, 'condition holds at t = q, p = q*q for q in {3,5,7,11,13,101}')
    return n


def is_small_prime(c):
    return c in (2, 3, 5, 7, 11, 13)


def excludes_equal(prog, fn, cond, pol, p, cval):
    s = cond.strip_all()
    if s.k in ('BinaryOperator', 'CXXOperatorCallExpr') and s.op in ('!=', '>', '=='):
        ops = s.c if s.k == 'BinaryOperator' else s.c[1:]
        if ex.var_of(ops[0]) == p:
            v = ops[1].strip_all().cv
            if v is None and ex.var_of(ops[1]) is not None:
                d = ex.unique_def(fn, ex.var_of(ops[1]))
                if d is not None:
                    dd = d.strip_all()
                    v = dd.cv if dd.cv is not None else (dd.c[0].strip_all().cv if dd.k in ex.CTOR_KINDS and len(dd.c) == 1 else None)
            if v == cval:
                return (s.op in ('!=', '>') and pol) or (s.op == '==' and not pol)
    return False


def check_mult_inverse(rep, prog, fn):
    what = 'get_mult_inverse throws unless gcd(a, p) == 1 and returns the coefficient of a'
    calls = [n for n in fn.walk() if n.k == 'CallExpr' and n.callee and n.callee['g'].endswith('fp::ext_gcd')]
    if not calls or len(fn.param_ids) != 2:
        rep.undecided('R18e', fn.body, fn, what, 'no call to ext_gcd')
        return
    call = calls[0]
    a = call.args()
    probs = []
    if [ex.var_of(x) for x in a[:2]] != fn.param_ids[:2]:
        probs.append('ext_gcd is not called with (a, p) in this order')
    xv = ex.var_of(a[2]) if len(a) > 2 else None
    rets = ex.returns_of(fn)
    if not (rets and all(r.c and ex.var_of(r.c[0]) == xv and xv is not None for r in rets)):
        probs.append('the value returned is not the coefficient computed for a')
    # exact path conditions over the atom "gcd == 1": a return needs it, and whenever it fails a throw is reached
    from .c10 import guards_formula
    up = call.top_transparent().parent
    gvar = up.decl_id if up is not None and up.k == 'VarDecl' else None

    def is_g(e):
        return any(x is call for x in e.walk()) or (gvar is not None and ex.var_of(e) == gvar)

    def atomize(leaf):
        s = leaf.strip_all()
        if s.k in ('BinaryOperator', 'CXXOperatorCallExpr') and s.op in ('!=', '=='):
            ops = s.c if s.k == 'BinaryOperator' else s.c[1:]
            if len(ops) == 2:
                for a_, b_ in ((ops[0], ops[1]), (ops[1], ops[0])):
                    if is_g(a_) and b_.strip_all().cv == 1:
                        f = ex.f_atom('is1')
                        return f if s.op == '==' else ex.f_not(f)
        return None
    cfg = fn.cfg
    throws = [t for t in fn.walk() if t.k == 'CXXThrowExpr' and not (t.enclosing('IfStmt') is not None and cfg.dominates(t, call))]
    throws = [t for t in throws if cfg.reaches(call, t)]
    und = []
    pcs_t = [guards_formula(cfg, t, atomize) for t in throws]
    pcs_r = [guards_formula(cfg, r, atomize) for r in rets]
    atoms = []
    for f in pcs_t + pcs_r:
        for a_ in ex.f_atoms(f):
            if a_ not in atoms:
                atoms.append(a_)
    others = [a_ for a_ in atoms if a_ != 'is1']
    if 'is1' not in atoms:
        g_tested = any(cfg.effective_cond(b_) is not None and is_g(cfg.effective_cond(b_)) for b_ in cfg.branch_blocks())
        if not g_tested and rets and any(cfg.reaches(call, r_) for r_ in rets):
            probs.append('the gcd returned by ext_gcd is not tested by any branch: a Bezout coefficient is returned as "inverse" whenever 1 < gcd(a, p) '
                         '(a composite modulus sharing a factor with a) instead of throwing')
        elif others:
            und.append('the gcd test is outside the idiom table')
        else:
            probs.append('no `throw` guarded by ext_gcd(...) != 1')
    else:
        import itertools
        for vals in itertools.product((False, True), repeat=len(others)):
            e = dict(zip(others, vals))
            if any(ex.f_eval(f, dict(e, is1=False)) for f in pcs_r):
                probs.append('a value is returned although the gcd is not 1 (no inverse exists)')
                break
            if others:
                continue
            if not any(ex.f_eval(f, dict(e, is1=False)) for f in pcs_t):
                probs.append('no `throw` is reached when the gcd is not 1')
                break
            if any(ex.f_eval(f, dict(e, is1=True)) for f in pcs_t):
                probs.append('a `throw` is reached although the gcd is 1')
                break
    if probs:
        rep.violation('R18e', call, fn, what, '; '.join(probs), key='R18e|%s|contract' % fn.g)
    elif und:
        rep.undecided('R18e', call, fn, what, '; '.join(und))
    else:
        rep.ok('R18e', call, fn, what)


def builtin_number_instance(prog, fn):
    """the enclosing class template / the function template is instantiated with built-in arithmetic types only"""
    fr = fn.fref
    tys = []
    rt = prog.types[fr['rec_ty']] if isinstance(fr.get('rec_ty'), int) else None
    if rt is not None:
        tys += [a for a in (rt.get('targs') or []) if isinstance(a, int)]
    tys += [a for a in (fr.get('targs') or []) if isinstance(a, int)]
    for a in tys:
        bt = prog.base_type(a) or {}
        if not bt.get('arith'):
            return False
    return True


def run_on(rep, prog):
    n = 0
    for fn in prog.functions:
        fr = fn.fref
        if fn.implicit or fn.body is None:
            continue
        if (fn.g.startswith('parmcb::fp::') or fn.g.startswith('parmcb::primes::') or fr.get('rec') == 'parmcb::SpVecFP') and \
                not builtin_number_instance(prog, fn):
            # instantiation with a class-type number (boost::multiprecision::cpp_int in test_spvecfp): its AST consists of expression-template
            # operator calls the interval / truth-table analyses do not model; the same template text is decided on the built-in
            # instantiations of the witness TU (instances are keyed by template, not by instantiation)
            continue
        if fn.g == 'parmcb::fp::ext_gcd':
            check_ext_gcd(rep, prog, fn)
            n += 1
        elif fn.g == 'parmcb::fp::get_mult_inverse':
            check_mult_inverse(rep, prog, fn)
        elif fn.g == 'parmcb::primes::is_prime':
            check_is_prime(rep, prog, fn)
            check_trial_division(rep, prog, fn)
        elif fr.get('rec') == 'parmcb::SpVecFP':
            name = fr['name']
            check_fp_ranges(rep, prog, fn)
            if name == 'operator+' and len(fn.param_ids) == 1:
                check_fp_merge(rep, prog, fn, 'plus')
            if name == 'operator*' and len(fn.param_ids) == 1:
                pt = prog.base_type(prog.vars[fn.param_ids[0]]['ty']) or {}
                if (pt.get('rec') or '') == 'parmcb::SpVecFP':
                    check_fp_merge(rep, prog, fn, 'dot')
                    check_dot_accumulator(rep, prog, fn)
            if name in ('operator+=', 'operator*=', 'operator-='):
                c17.check_compound(rep, prog, fn, rule='R18c')
    c17.check_copy_ops(rep, prog, 'parmcb::SpVecFP', 'R18c')
    check_index_assignment(rep, prog)
    return n


def check_no_narrowing(rep, prog):
    """R18j: with fp.hpp as the first include of a translation unit and the built-in 64-bit instantiations, no operand of ext_gcd / get_mult_inverse
    passes through a narrowing integral conversion.  An unqualified `abs(a)` on the value type is such a place: for a class type ADL finds the
    right overload, for `long` / `long long` only glibc's `int abs(int)` is visible at the template definition, so the operand is cut to 32 bits
    (whether std::abs overloads happen to be visible depends on what was included before the header)."""
    what = 'no operand of the number-theory routines is narrowed on its way into a call (fp.hpp included first, 64-bit built-in types)'
    n = 0
    W = {'unsigned char': 8, 'signed char': 8, 'char': 8, 'unsigned short': 16, 'short': 16, 'unsigned int': 32, 'int': 32,
         'unsigned long': 64, 'long': 64, 'unsigned long long': 64, 'long long': 64}
    for fn in prog.functions:
        if fn.implicit or fn.body is None or not fn.g.startswith('parmcb::fp::') and not fn.g.startswith('parmcb::primes::'):
            continue
        n += 1
        bad = None
        for c in fn.walk():
            if c.k not in ex.CALL_KINDS or c.k == 'CXXOperatorCallExpr':
                continue
            for a_ in c.args():
                x = a_
                while x is not None and x.k in ('ImplicitCastExpr',) and x.c:
                    if x.j.get('ck') == 'IntegralCast':
                        tt = ((prog.type(x.j.get('t')) or {}).get('canon') or '').replace('const ', '').strip()
                        ft = ((prog.type(x.c[0].strip().j.get('t')) or {}).get('canon') or '').replace('const ', '').strip()
                        if W.get(tt) is not None and W.get(ft) is not None and W[tt] < W[ft] and any(ex.refs_var(x.c[0], p_) for p_ in fn.param_ids):
                            bad = (c, ft, tt)
                    x = x.c[0]
        if bad:
            rep.violation('R18j', bad[0], fn, what, '`%s` receives its argument through a conversion from %s to %s: the call resolves to `%s`, the only overload visible when the header is '
                          'included first - operands of 2^31 and above are truncated, the gcd and the Bezout coefficients are computed for other numbers' % (
                              bad[0].text(30), bad[1], bad[2], (bad[0].callee or {}).get('g', '?')), key='R18j|%s|narrow-arg' % fn.g)
        else:
            rep.ok('R18j', fn.body, fn, what)
    return n


def check_index_assignment(rep, prog, cls='parmcb::SpVecFP', rule='R18i'):
    """assignment from an index makes the vector the unit vector e_index whatever it held before: the entry list is emptied (clear / a
    fresh list) before the single entry is stored.  `entries.resize(1, x)` is NOT that: resize uses its value argument only for
    elements it adds, so a non-empty vector keeps its old first entry."""
    what = 'operator=(index) replaces the previous contents by the single entry (index, 1)'
    n = 0
    for fn in prog.fns(cls + '::operator='):
        if fn.body is None or fn.implicit or len(fn.param_ids) != 1:
            continue
        pt = prog.base_type(prog.vars[fn.param_ids[0]]['ty']) or {}
        if (pt.get('rec') or '').startswith('parmcb::') or 'initializer_list' in (pt.get('canon') or ''):
            continue
        if not any(w_ in (pt.get('canon') or pt.get('s') or '') for w_ in ('unsigned long', 'unsigned int', 'unsigned short', 'size_t', 'long', 'int')):
            continue
        n += 1
        cfg = fn.cfg
        fields = [v_ for v_ in range(len(prog.vars)) if isinstance(prog.vars[v_], dict) and prog.vars[v_].get('kind') == 'field' and prog.vars[v_].get('rec') == cls]
        ops = [x for x in fn.walk() if x.k == 'CXXMemberCallExpr' and x.callee and x.object_arg() is not None and ex.var_of(x.object_arg()) in fields]
        asg = [x for x in fn.walk() if x.k == 'CXXOperatorCallExpr' and x.op == '=' and len(x.c) == 3 and ex.var_of(x.c[1]) in fields]
        clears = [x for x in ops if x.callee['name'] == 'clear']
        probs, und = [], []
        stores = 0
        for x in ops:
            nm = x.callee['name']
            if nm in ('push_back', 'emplace_back', 'push_front', 'emplace_front', 'insert', 'emplace'):
                stores += 1
                if not any(cfg.dominates(c_, x) for c_ in clears) and not any(cfg.dominates(a_, x) for a_ in asg):
                    probs.append('`%s` (line %d) appends to whatever the vector held before (no clear() in front of it)' % (x.text(40), x.line))
            elif nm == 'resize':
                if not any(cfg.dominates(c_, x) for c_ in clears):
                    probs.append('`%s` (line %d) keeps the old first entry of a non-empty vector: std::vector::resize(n, v) uses v only for elements it adds' % (x.text(40), x.line))
                else:
                    stores += 1
            elif nm == 'assign':
                a0 = x.args()[0].strip_all() if x.args() else None
                if a0 is not None and a0.cv == 1:
                    stores += 1
                else:
                    und.append('`%s`' % x.text(40))
            elif nm in ('clear', 'size', 'empty', 'begin', 'end', 'reserve', 'shrink_to_fit', 'capacity'):
                pass
            else:
                und.append('`%s`' % x.text(40))
        for a_ in asg:
            und.append('`%s`' % a_.text(40))
        if probs:
            rep.violation(rule, (ops or [fn.body])[0], fn, what, '; '.join(probs), key='%s|%s|index-assign' % (rule, fn.g))
        elif und:
            rep.undecided(rule, fn.body, fn, what, 'entry list modified through %s' % und[0])
        elif stores == 1:
            rep.ok(rule, fn.body, fn, what, 'clear(); one entry stored')
        elif stores == 0 and not ops:
            rep.undecided(rule, fn.body, fn, what, 'no operation on the entry list found (delegation?)')
        else:
            rep.violation(rule, fn.body, fn, what, '%d entries are stored' % stores, key='%s|%s|index-assign-count' % (rule, fn.g))
    return n


def run(rep, tier):
    rep.rule('R18i', 'assignment from an index yields the unit vector whatever the vector held before', floor=1)
    rep.rule('R18a', 'ext_gcd sign selectors are paired with their operand on every path', floor=4)
    rep.rule('R18b', 'every stored F_p value lies in [1, p-1]', floor=7)
    rep.rule('R18c', 'SpVecFP merges, compound operators and copy operations', floor=6)
    rep.rule('R18d', 'is_prime constant-divisor shortcuts exclude the divisor itself', floor=1)
    rep.rule('R18e', 'get_mult_inverse contract', floor=1)
    rep.rule('R18f', 'trial division bound includes the square root', floor=1)
    rep.rule('R18g', 'dot-product accumulator reduced in every step', floor=1)
    rep.rule('R18h', 'ext_gcd returns a value computed from absolute values', floor=3)
    tus = [env.witness_tu()]
    if tier == 'thorough':
        tus += [t for t in env.repo_tus() if 'fp' in os.path.basename(t)]
    progs = env.extract(tus, 'full')
    rep.saw_programs(progs.values())
    n = 0
    for prog in progs.values():
        n += run_on(rep, prog)
    if n == 0:
        rep.analysis_broken('fp<T>::ext_gcd not instantiated (anchor vanished)')
    rep.rule('R18j', 'no narrowing of operands when fp.hpp is the first include (long / long long instantiations)', floor=2)
    first = os.path.join(env.WITNESS, 'fp_first.cc')
    try:
        for fprog in env.extract([first], 'full').values():
            check_no_narrowing(rep, fprog)
    except env.AnalysisBroken as e:
        rep.analysis_broken('witness/fp_first.cc does not compile: fp.hpp is not usable as the first include with long / long long (%s)' % str(e)[:200])
    pos = os.path.join(env.WITNESS, 'positive', 'c18_fp.cc')
    try:
        pp = env.extract([pos], 'full', ('first:-I' + os.path.join(env.WITNESS, 'positive', 'broken_include2'),))[pos]
        prep = type(rep)(rep.prop, rep.tier)
        run_on(prep, pp)
        for r in ('R18a', 'R18b', 'R18c', 'R18d', 'R18e', 'R18f', 'R18g', 'R18h'):
            rep.positive(r, 'witness/positive/c18_fp.cc', any(i.status == 'violation' and i.rule == r for i in prep.instances.values()))
    except env.AnalysisBroken as e:
        rep.analysis_broken('positive example c18_fp.cc does not parse: ' + str(e)[:300])
    rep.assume('class invariant as induction hypothesis: entries already stored in an SpVecFP have values in [1, p-1]; both operands of '
               'a binary operation share the same prime p >= 2')
    rep.assume('the % operator of the value type truncates toward zero (built-in integers and boost::multiprecision::cpp_int)')
    rep.note('NOT claimed: the numeric value of the gcd / of the Bezout coefficients, primality by trial division, multiprecision types beyond the structure checked')
