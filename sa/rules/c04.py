"""C04 - MPI entry points are correct for every rank count and memory layout.

Claimed: deadlock-freedom shape, slice coverage, layout independence of slices, root-only emission, wire-format
completeness, the MPI reduction operator.  Optimality of what rank 0 receives inherits the limits of C01/C02.
R04a  collective matching: both arms of every rank-conditioned `if` execute the same sequence of collectives; any other
      branch/loop that decides whether a collective runs has a rank-invariant condition                      (A7 i, iii)
R04b  no return/throw under a rank atom in a function that executes collectives                             (A7 ii)
R04g  per phase, the support vector the search is converted from was the argument of a broadcast on every rank
R04c  rank slices cover 0..total-1 exactly once for every (total, size): abstract evaluation over a grid     (A4)
R04d  no rank slice indexes a sequence whose order comes from an address-ordered container (std::set<Edge>) unless it was
      sorted by an address-free injective key first                                                          (A8)
R01d  (=R04e) only rank 0 emits
R04f  serialize() archives every data member exactly once; is_mpi_datatype types have only arithmetic members
R04m  the MPI reduction operator is a minimum that treats "does not exist" as identity                         (A3)
R16e  ForestIndex numbers edges in an order that does not depend on addresses (the index is the wire format)
"""
import itertools
import os
import re

from lib import env, ex, par
from . import common, minsel, phase

TITLE = 'C04: collective matching, rank-slice coverage by abstract evaluation, address-order taint, wire format, MPI min operator.'

COLLECTIVES = ('broadcast', 'reduce', 'all_reduce', 'scatter', 'scatterv', 'gather', 'gatherv', 'all_gather', 'all_gatherv',
               'all_to_all', 'scan', 'barrier')
ROOT_ONLY_OUT = {'reduce': 2, 'gather': 2, 'gatherv': 2}


def is_collective(n):
    if n.k not in ex.CALL_KINDS or not n.callee:
        return False
    c = n.callee
    if c['g'].startswith('boost::mpi::') and c['name'] in COLLECTIVES:
        return True
    return False


def collective_functions(prog):
    """fref ids of repo functions that may execute a collective (closure)"""
    direct = set()
    for f in prog.functions:
        for n in f.walk():
            if is_collective(n):
                direct.add(f.fref_id)
                break
    changed = True
    while changed:
        changed = False
        for f in prog.functions:
            if f.fref_id in direct:
                continue
            if ex.callees_of(f) & direct:
                direct.add(f.fref_id)
                changed = True
    return direct


def coll_signature(prog, node, collfns):
    """ordered list of collectives executed by a statement subtree"""
    sig = []
    for n in node.walk():
        if is_collective(n):
            root = None
            a = n.args()
            if a and a[-1].strip_all().cv is not None:
                root = a[-1].strip_all().cv
            in_loop = False
            for anc in n.ancestors():
                if anc is node:
                    break
                if anc.k in ('ForStmt', 'WhileStmt', 'DoStmt', 'CXXForRangeStmt'):
                    in_loop = True
            sig.append((n.callee['name'], root, '*' if in_loop else ''))
        elif n.k in ex.CALL_KINDS and n.callee_id in collfns:
            sig.append(('call:' + n.callee['g'], None, ''))
    return sig


def rank_taint(prog, fn):
    """variables whose value may differ between ranks: derived from rank(), or the out-argument of a root-only collective"""
    rv = set(common.rank_vars_of(fn))
    for n in fn.walk():
        if is_collective(n) and n.callee['name'] in ROOT_ONLY_OUT:
            a = n.args()
            ix = ROOT_ONLY_OUT[n.callee['name']]
            if len(a) > ix + 1:
                v = ex.var_of(a[ix])
                if v is not None:
                    rv.add(v)
    changed = True
    while changed:
        changed = False
        for n in fn.walk():
            tgt = rhs = None
            if n.k == 'VarDecl' and n.c:
                tgt, rhs = n.decl_id, n.c[0]
            elif n.k == 'BinaryOperator' and n.op == '=':
                tgt, rhs = ex.var_of(n.c[0]), n.c[1]
            elif n.k == 'CXXOperatorCallExpr' and n.op == '=' and len(n.c) == 3:
                tgt, rhs = ex.var_of(n.c[1]), n.c[2]
            if tgt is not None and tgt not in rv and rhs is not None and (common.mentions_rank(rhs, rv) or (ex.vars_in(rhs) & rv)):
                rv.add(tgt)
                changed = True
    return rv


def check_collectives(rep, prog):
    collfns = collective_functions(prog)
    nfn = 0
    for fn in prog.functions:
        if fn.fref_id not in collfns or not (fn.file.startswith(env.REPO + '/include') or fn.file.startswith(env.WITNESS + '/positive')):
            continue
        if fn.is_lambda:
            continue
        nfn += 1
        cfg = fn.cfg
        rv = rank_taint(prog, fn)
        rank_only = set(common.rank_vars_of(fn))
        # R04a (i): rank-conditioned ifs
        def _ends_with_exit(arm):
            if arm is None:
                return False
            last = arm.c[-1] if arm.k == 'CompoundStmt' and arm.c else arm
            return last.k in ('ReturnStmt', 'CXXThrowExpr')

        def _tail_signature(node):
            # the collectives executed after `node` on the way to the end of the function (statements that follow it in the enclosing
            # compound statements; stops at a loop, whose repetition is not modelled)
            sig, cur = [], node
            while cur.parent is not None and cur.parent.k in ('CompoundStmt', 'IfStmt'):
                par = cur.parent
                if par.k == 'CompoundStmt':
                    after = False
                    for st in par.c:
                        if st is cur:
                            after = True
                            continue
                        if after:
                            sig += coll_signature(prog, st, collfns)
                cur = par
                if cur is fn.body:
                    break
            return sig if cur is fn.body else None
        exit_ok_conds = set()
        for n in fn.walk():
            if n.k == 'IfStmt' and n.cond is not None and common.mentions_rank(n.cond, rank_only):
                what = 'both arms of `if (%s)` execute the same sequence of collectives' % n.cond.text(30)
                s1 = coll_signature(prog, n.then, collfns) if n.then is not None else []
                s2 = coll_signature(prog, n.els, collfns) if n.els is not None else []
                if (_ends_with_exit(n.then) or _ends_with_exit(n.els)) and _tail_signature(n) is not None:
                    # an arm that leaves the function: compare what each group of ranks executes up to its own exit
                    tail = _tail_signature(n)
                    f1 = s1 + ([] if _ends_with_exit(n.then) else tail)
                    f2 = s2 + ([] if _ends_with_exit(n.els) else tail)
                    if f1 == f2:
                        rep.ok('R04a', n, fn, what, 'sequence up to the exit of each arm: %s' % (f1 or 'none'), trivial=not f1)
                        exit_ok_conds.add(n.cond.i)
                        continue
                    s1, s2 = f1, f2
                if s1 == s2:
                    rep.ok('R04a', n, fn, what, 'sequence: %s' % (s1 or 'none'), trivial=not s1)
                else:
                    rep.violation('R04a', n, fn, what,
                                  'ranks for which the condition holds execute %s, the others %s: the ranks block in different collectives' % (s1 or 'no collective', s2 or 'no collective'),
                                  key='R04a|%s|rank-if' % fn.g)
        # R04a (iii): other branches / loops deciding whether a collective runs
        for n in fn.walk():
            if n.k in ('IfStmt', 'ForStmt', 'WhileStmt', 'DoStmt') and n.cond is not None and not common.mentions_rank(n.cond, rank_only):
                if n.k == 'IfStmt':
                    s1 = coll_signature(prog, n.then, collfns) if n.then is not None else []
                    s2 = coll_signature(prog, n.els, collfns) if n.els is not None else []
                    if s1 == s2:
                        continue
                    sig = (s1, s2)
                else:
                    sb = coll_signature(prog, n.body, collfns) if n.body is not None else []
                    if not sb:
                        continue
                    sig = (sb,)
                what = 'the condition `%s` that decides whether collectives run is the same on every rank' % n.cond.text(40)
                tainted = ex.vars_in(n.cond) & rv
                if tainted:
                    rep.violation('R04a', n, fn, what, 'it depends on rank-dependent data (%s)' % ', '.join(prog.vars[v]['name'] for v in tainted),
                                  key='R04a|%s|tainted-cond' % fn.g)
                else:
                    rep.ok('R04a', n, fn, what, 'no rank-dependent variable in the condition (given the same graph on all ranks and R04g)')
        # R04b exits under rank atoms
        nexits = 0
        for n in fn.walk():
            if n.k in ('ReturnStmt', 'CXXThrowExpr') or (n.k == 'CallExpr' and n.callee and n.callee.get('noreturn') and not n.callee['name'].startswith('__assert')):
                bad = [c for (c, pol, _b) in cfg.guards_of(n) if common.mentions_rank(c, rank_only) and c.i not in exit_ok_conds and
                       not any(c.i == x_.i for k_ in exit_ok_conds for x_ in [fn.nodes[k_]] + list(fn.nodes[k_].walk()))]
                if bad:
                    # is a collective reachable afterwards on the other ranks?  (any collective in the function counts)
                    rep.violation('R04b', n, fn, 'no exit of a function with collectives depends on the rank',
                                  '`%s` is control dependent on `%s`: the remaining ranks continue into collectives' % (n.text(30), bad[0].text(30)),
                                  key='R04b|%s|rank-exit' % fn.g)
                nexits += 1
        rep.ok('R04b', fn.body, fn, 'no exit of a function with collectives depends on the rank', '%d exit(s) examined' % nexits)
    return nfn


# ------------------------------------------------------------------------------------------------ R04g
def check_broadcast_before_use(rep, prog):
    n = 0
    for gname in ('parmcb::mcb_sva_signed_mpi', 'parmcb::_mcb_sva_trees_mpi'):
        for fn in prog.fns(gname):
            info = phase.find_phase_loop(prog, fn)
            if info is None:
                rep.undecided('R04g', fn.body, fn, 'support[k] is broadcast at the start of every phase', 'phase loop not recognised')
                continue
            n += 1
            loop = info['loop']
            cfg = fn.cfg
            k, _lo, _op, _hi, _st = phase.loop_header(loop)
            convs = [m for m in loop.body.walk() if m.k == 'CallExpr' and m.callee and m.callee['g'] == 'parmcb::convert_edges' and m.args()
                     and m.args()[0].strip_all().k == 'CXXOperatorCallExpr' and ex.var_of(m.args()[0].strip_all().c[2]) == k]
            what = 'the support vector of phase k was broadcast from rank 0 to every rank before it is used'
            if not convs:
                rep.undecided('R04g', loop, fn, what, 'no conversion of support[k] in the phase loop')
                continue
            conv = convs[0]
            skey = ex.key(conv.args()[0])
            bcs = [m for m in loop.body.walk() if is_collective(m) and m.callee['name'] == 'broadcast']
            good_blocks = set()
            problems = []
            for b in bcs:
                a = b.args()
                val = a[1] if len(a) >= 3 else None
                root = a[-1].strip_all().cv if a else None
                if root != 0:
                    problems.append('broadcast root is not 0')
                if val is None:
                    continue
                if ex.key(val) == skey or ex.key(ex.alias_of(fn, val)) == skey:
                    good_blocks.add(cfg.pos_of(b)[0])      # support[k] itself, or a reference bound to it
                    continue
                v = ex.var_of(val)
                copied = False
                if v is not None:
                    for m in loop.body.walk():
                        if m.k == 'CXXOperatorCallExpr' and m.op == '=' and len(m.c) == 3 and ex.key(m.c[1]) == skey and ex.var_of(m.c[2]) == v:
                            if cfg.dominates(b, m) and cfg.reaches(m, conv):
                                copied = True
                if copied:
                    good_blocks.add(cfg.pos_of(b)[0])
                else:
                    problems.append('the value received by `%s` is not stored into support[k] before the search' % b.text(40))
            # nothing may change support[k] between its broadcast and its use: a swap / assignment on some ranks only makes the ranks search
            # for different witnesses
            for m in loop.body.walk():
                tgt = None
                if m.k == 'CallExpr' and m.callee and m.callee['g'] in ('std::swap', 'std::iter_swap') and len(m.args()) == 2:
                    if ex.key(m.args()[0]) == skey or ex.key(m.args()[1]) == skey:
                        tgt = m
                if m.k == 'CXXOperatorCallExpr' and m.op in ('=', '+=') and len(m.c) == 3 and ex.key(m.c[1]) == skey:
                    v_ = ex.var_of(m.c[2])
                    received = any(b2.args() and len(b2.args()) >= 3 and ex.var_of(b2.args()[1]) == v_ and v_ is not None for b2 in bcs)
                    if not received:
                        tgt = m
                if tgt is not None and any(cfg.reaches(b2, tgt) for b2 in bcs) and cfg.reaches(tgt, conv) and not cfg.reaches(conv, tgt) is False:
                    if cfg.dominates(tgt, conv) or True:
                        rank_dep = [c_ for (c_, pol_, _b) in cfg.guards_of(tgt) if common.mentions_rank(c_, common.rank_vars_of(fn))]
                        problems.append('`%s` modifies support[k] after it was broadcast and before the search reads it%s: the ranks no longer search for the same witness' % (
                            tgt.text(40), (' (only under `%s`)' % rank_dep[0].text(30)) if rank_dep else ''))
            first = cfg.pos_of(loop.body)
            pc = cfg.pos_of(conv)
            if first is None or pc is None:
                rep.undecided('R04g', loop, fn, what, 'CFG positions not found')
                continue
            # every path from the body entry to the conversion passes a good broadcast
            reach = cfg.reachable_blocks(first[0], avoid=good_blocks)
            if pc[0] in reach and pc[0] not in good_blocks:
                problems.append('there is a path from the start of the phase to the conversion of support[k] that executes no broadcast of it')
            if problems:
                rep.violation('R04g', conv, fn, what, '; '.join(sorted(set(problems))), key='R04g|%s|broadcast' % fn.g)
            else:
                rep.ok('R04g', conv, fn, what, '%d broadcast call(s), one on every path, value = support[k] (root) / copied into support[k] (others)' % len(bcs))
    return n


# ------------------------------------------------------------------------------------------------ R04c / R04d slices
def find_slices(prog, fn):
    """loops  for (i = lo; cond; i++) body  whose bounds are rank-dependent (or depend on the index of an enclosing loop
    over p < world.size())"""
    rank_only = set(common.rank_vars_of(fn))
    res = []
    # loops over p < world.size()
    ploops = {}
    for n in fn.walk():
        if n.k == 'ForStmt' and n.cond is not None:
            c = n.cond.strip_all()
            if c.k == 'BinaryOperator' and c.op == '<':
                r = c.c[1].strip_all()
                if r.k == 'CXXMemberCallExpr' and r.callee and r.callee['g'] == 'boost::mpi::communicator::size':
                    iv, lo, op, hi, st = phase.loop_header(n)
                    if iv is not None:
                        ploops[iv] = n
    for n in fn.walk():
        if n.k != 'ForStmt' or n.cond is None:
            continue
        iv, lo, op, hi, st = phase.loop_header(n)
        init = n.role('init')
        if iv is None or lo is None:
            continue
        deps = set()
        work = list(ex.vars_in(lo) | ex.vars_in(n.cond))
        seen = set()
        while work:
            v = work.pop()
            if v in seen:
                continue
            seen.add(v)
            d = ex.unique_def(fn, v)
            if d is not None:
                work.extend(ex.vars_in(d))
        pvars = [p for p in ploops if p in seen and ploops[p] is not n and ploops[p].is_ancestor_of(n)]
        rank_dep = bool(seen & rank_only) or common.mentions_rank(lo, rank_only) or common.mentions_rank(n.cond, rank_only) or \
            any(common.mentions_rank(ex.unique_def(fn, v), rank_only) for v in seen if ex.unique_def(fn, v) is not None)
        if rank_dep or pvars:
            res.append((n, iv, lo, pvars[0] if pvars else None))
    return res


_defs_cache = {}


def unique_defs(fn):
    key = (id(fn.prog), fn.id)
    if key not in _defs_cache:
        counts = {}
        inits = {}
        for n in fn.walk():
            if n.k == 'VarDecl':
                counts[n.decl_id] = counts.get(n.decl_id, 0) + 1
                if n.c:
                    inits[n.decl_id] = n.c[0]
            elif n.k in ('BinaryOperator', 'CompoundAssignOperator') and n.op in ('=', '+=', '-=', '*=', '/='):
                v = ex.var_of(n.c[0])
                if v is not None:
                    counts[v] = counts.get(v, 0) + 1
            elif n.k == 'UnaryOperator' and n.op in ('++', '--'):
                v = ex.var_of(n.c[0])
                if v is not None:
                    counts[v] = counts.get(v, 0) + 1
        _defs_cache[key] = {v: e for v, e in inits.items() if counts.get(v) == 1}
    return _defs_cache[key]


def eval_slice(prog, fn, loop, iv, lo, pvar, total_v, size_v, rank_v, totals):
    defs = unique_defs(fn)

    def bind_factory(ival):
        def bind(s):
            if s.k == 'CXXMemberCallExpr' and s.callee:
                g = s.callee['g']
                if g == 'boost::mpi::communicator::size':
                    return size_v
                if g == 'boost::mpi::communicator::rank':
                    return rank_v
                if s.callee['name'] == 'size':
                    o = s.object_arg()
                    k = ex.key(o)
                    if k in totals:
                        return totals[k]
                    totals.setdefault('_unknown', []).append(o.text(30))
                    return total_v
            if s.k == 'CallExpr' and s.callee and s.callee['g'] in ('boost::num_vertices', 'boost::num_edges'):
                return total_v
            v = ex.var_of(s)
            if v is not None:
                if v == iv and ival is not None:
                    return ival
                if pvar is not None and v == pvar:
                    return rank_v
            return None
        return bind
    start = int(ex.ceval(lo, bind_factory(None), defs))
    members = []
    i = start
    guard = 0
    while guard < 200:
        guard += 1
        if not ex.ceval(loop.cond, bind_factory(i), defs):
            break
        members.append(i)
        i += 1
    return members


def sequence_indexed(prog, fn, loop, iv):
    """container variable indexed with the loop variable inside the slice loop"""
    for d in loop.body.walk():
        if d.k == 'CXXOperatorCallExpr' and d.op == '[]' and len(d.c) == 3 and ex.var_of(d.c[2]) == iv:
            return ex.var_of(d.c[1]), d
        if d.k == 'CXXMemberCallExpr' and d.callee and d.callee['name'] == 'at' and d.args() and ex.var_of(d.args()[0]) == iv:
            return ex.var_of(d.object_arg()), d
    return None, None


def is_address_ordered(prog, tyidx):
    t = prog.base_type(tyidx) or {}
    rec = t.get('rec') or ''
    if rec in ('std::set', 'std::map', 'std::multiset', 'std::multimap'):
        ta = t.get('targs') or []
        if ta and isinstance(ta[0], int):
            kt = prog.types[ta[0]]
            if 'edge_desc_impl' in (kt.get('canon') or ''):
                # default comparator only
                return True
    return False


def order_of_sequence(prog, fn, seqvar, before_node):
    """('address', src) | ('index', why) | ('unknown', why) for the element order of vector seqvar at before_node;
    a dominating std::sort with an address-free injective key sanitises"""
    cfg = fn.cfg
    v = prog.vars[seqvar]
    if v['kind'] == 'param':
        return 'index', 'parameter %s (filled by the caller from a BGL iteration)' % v['name']
    fills = []
    for n in fn.walk():
        if n.k == 'CXXMemberCallExpr' and n.callee and ex.var_of(n.object_arg()) == seqvar:
            nm = n.callee['name']
            if nm in ('assign', 'insert') and len(n.args()) >= 2:
                src = None
                for a in n.args():
                    s = a.strip_all()
                    if s.k == 'CXXMemberCallExpr' and s.callee['name'] in ('begin', 'cbegin'):
                        src = s.object_arg()
                fills.append((n, src))
            elif nm in ('push_back', 'emplace_back') and n.args():
                a = n.args()[0].strip_all()
                src = None
                # *it where it iterates / is begin() of a container
                if a.k in ('CXXOperatorCallExpr', 'UnaryOperator') and a.op == '*':
                    ops = a.c[1:] if a.k == 'CXXOperatorCallExpr' else a.c
                    itv = ex.var_of(ops[0])
                    if itv is not None:
                        for (d, rhs) in ex.assignments_to(fn, itv):
                            if rhs is not None:
                                r = rhs.strip_all()
                                if r.k == 'CXXMemberCallExpr' and r.callee['name'] in ('begin', 'cbegin'):
                                    src = r.object_arg()
                else:
                    # element of a range-for / indexed copy
                    for x in a.walk():
                        if x.k == 'DeclRefExpr' and x.decl_id is not None:
                            lp = n.enclosing('CXXForRangeStmt')
                            if lp is not None:
                                rng = lp.role('range')
                                for d in (rng.walk() if rng is not None else ()):
                                    if d.k == 'VarDecl' and d.c:
                                        src = d.c[0]
                fills.append((n, src))
    for n in fn.walk():
        if n.k == 'CallExpr' and n.callee and n.callee['g'] == 'std::transform' and len(n.args()) == 4:
            # element-wise conversion keeps the order of the source range
            dst = n.args()[2].strip_all()
            if dst.k == 'CallExpr' and dst.callee and dst.callee['name'] in ('back_inserter', 'inserter') and ex.var_of(dst.args()[0]) == seqvar:
                s0 = n.args()[0].strip_all()
                fills.append((n, s0.object_arg() if s0.k == 'CXXMemberCallExpr' else None))
        if n.k == 'CallExpr' and n.callee and n.callee['g'] == 'std::copy' and len(n.args()) == 3:
            dst = n.args()[2].strip_all()
            if dst.k == 'CallExpr' and dst.callee and dst.callee['name'] in ('back_inserter', 'inserter') and ex.var_of(dst.args()[0]) == seqvar:
                s = n.args()[0].strip_all()
                fills.append((n, s.object_arg() if s.k == 'CXXMemberCallExpr' else None))
    # range construction: std::vector<T> v(src.begin(), src.end())
    for n in fn.walk():
        if n.k == 'VarDecl' and n.decl_id == seqvar and n.c:
            c0 = n.c[0].strip()
            if c0.k in ex.CTOR_KINDS and len(c0.c) >= 2:
                a0 = c0.c[0].strip_all()
                if a0.k == 'CXXMemberCallExpr' and a0.callee and a0.callee['name'] in ('begin', 'cbegin'):
                    fills.append((n, a0.object_arg()))
    tainted_src = None
    for (n, src) in fills:
        if src is not None and is_address_ordered(prog, src.strip_all().j.get('t')):
            tainted_src = src
    if tainted_src is None:
        if not fills:
            return 'unknown', 'how %s is filled is not recognised' % v['name']
        return 'index', 'filled from index-ordered data'
    # sanitiser
    for n in fn.walk():
        if n.k == 'CallExpr' and n.callee and n.callee['g'] in ('std::sort', 'std::stable_sort') and len(n.args()) >= 3:
            a0 = n.args()[0].strip_all()
            if a0.k == 'CXXMemberCallExpr' and ex.var_of(a0.object_arg()) == seqvar and cfg.dominates(n, before_node):
                lam = n.args()[2].strip_all()
                if comparator_address_free(prog, lam):
                    # nothing re-fills the vector after the sort
                    late = [f for (f, s) in fills if cfg.reaches(n, f)]
                    if not late:
                        return 'index', 'sorted by forest index (a bijection, C16) after being copied from %s' % tainted_src.text(25)
    return 'address', tainted_src.text(30)


def comparator_address_free(prog, lam):
    if lam.k != 'LambdaExpr':
        return False
    ok_any = False
    for op in lam.j.get('lambda_ops', ()):
        lf = prog.fn_of_fref(op)
        if lf is None or len(lf.param_ids) != 2:
            return False
        rets = ex.returns_of(lf)
        if len(rets) != 1 or not rets[0].c:
            return False
        e = rets[0].c[0].strip_all()
        if e.k != 'BinaryOperator' or e.op not in ('<', '>'):
            return False
        sides = []
        for x in e.c:
            s = x.strip_all()
            if s.k == 'CXXOperatorCallExpr' and s.op == '()' and s.callee and s.callee['g'] == 'parmcb::ForestIndex::operator()' and len(s.c) == 3:
                sides.append(ex.var_of(s.c[2]))
            else:
                sides.append(None)
        if set(sides) != set(lf.param_ids):
            return False
        ok_any = True
    return ok_any


def find_range_slices(prog, fn):
    """slices taken as iterator ranges: T local(seq.begin() + F, seq.begin() + L) / chunks.emplace_back(seq.begin() + F, seq.begin() + L) with
    rank-dependent F, L (or depending on the index of an enclosing loop over p < world.size())"""
    rank_only = set(common.rank_vars_of(fn))
    ploops = {}
    for n in fn.walk():
        if n.k == 'ForStmt' and n.cond is not None:
            c = n.cond.strip_all()
            if c.k == 'BinaryOperator' and c.op == '<':
                r = c.c[1].strip_all()
                if r.k == 'CXXMemberCallExpr' and r.callee and r.callee['g'] == 'boost::mpi::communicator::size':
                    iv, lo, op, hi, st = phase.loop_header(n)
                    if iv is not None:
                        ploops[iv] = n

    def offset(a):
        s = a.strip_all()
        if s.k == 'CXXOperatorCallExpr' and s.op == '+' and len(s.c) == 3:
            b = s.c[1].strip_all()
            if b.k == 'CXXMemberCallExpr' and b.callee and b.callee['name'] in ('begin', 'cbegin'):
                return ex.var_of(b.object_arg()), s.c[2]
        return None, None
    res = []
    for n in fn.walk():
        args = None
        if n.k in ex.CTOR_KINDS and len(n.c) >= 2:
            args = n.c[:2]
        elif n.k == 'CXXMemberCallExpr' and n.callee and n.callee['name'] in ('emplace_back', 'assign') and len(n.args()) == 2:
            args = n.args()
        if not args:
            continue
        (s1, f), (s2, l) = offset(args[0]), offset(args[1])
        if s1 is None or s1 != s2:
            continue
        seen = set()
        work = list(ex.vars_in(f) | ex.vars_in(l))
        while work:
            v = work.pop()
            if v in seen:
                continue
            seen.add(v)
            d = ex.unique_def(fn, v)
            if d is not None:
                work.extend(ex.vars_in(d))
        pvars = [p for p in ploops if p in seen and ploops[p].is_ancestor_of(n)]
        rank_dep = bool(seen & rank_only) or any(common.mentions_rank(ex.unique_def(fn, v), rank_only) for v in seen if ex.unique_def(fn, v) is not None) or \
            common.mentions_rank(f, rank_only) or common.mentions_rank(l, rank_only)
        if rank_dep or pvars:
            res.append((n, s1, f, l, pvars[0] if pvars else None))
    return res


def eval_range_slice(prog, fn, f, l, pvar, total_v, size_v, rank_v):
    defs = unique_defs(fn)

    def bind(s):
        if s.k == 'CXXMemberCallExpr' and s.callee:
            g = s.callee['g']
            if g == 'boost::mpi::communicator::size':
                return size_v
            if g == 'boost::mpi::communicator::rank':
                return rank_v
            if s.callee['name'] == 'size':
                return total_v
        if s.k == 'CallExpr' and s.callee and s.callee['g'] in ('boost::num_vertices', 'boost::num_edges'):
            return total_v
        v = ex.var_of(s)
        if v is not None and pvar is not None and v == pvar and s.strip_all().k == 'DeclRefExpr':
            return rank_v
        return None
    a, b = int(ex.ceval(f, bind, defs)), int(ex.ceval(l, bind, defs))
    if a > b or b > total_v:
        raise ex.Unknown('range [%d, %d) is not inside [0, %d]' % (a, b, total_v)) if a <= b else _BadRange(a, b)
    return list(range(a, b))


class _BadRange(Exception):
    def __init__(self, a, b):
        Exception.__init__(self, 'first %d > last %d' % (a, b))
        self.a, self.b = a, b


def check_range_slices(rep, prog, fn):
    count = 0
    for (node, seqvar, f, l, pvar) in find_range_slices(prog, fn):
        count += 1
        what = 'the per-rank index slices cover 0..total-1 exactly once for every total and communicator size'
        bad = unknown = None
        try:
            for total_v, size_v in itertools.product((0, 1, 2, 3, 5, 7, 8, 10, 13), (1, 2, 3, 4, 5, 8, 9, 12, 16)):
                cover = []
                for r in range(size_v):
                    try:
                        cover.extend(eval_range_slice(prog, fn, f, l, pvar, total_v, size_v, r))
                    except _BadRange as e:
                        bad = (total_v, size_v, 'rank %d builds the iterator range [begin+%d, begin+%d) with first after last' % (r, e.a, e.b))
                        break
                if bad:
                    break
                want = list(range(total_v))
                if sorted(cover) != want:
                    bad = (total_v, size_v, 'the slices miss indices %s, duplicate %s' % (sorted(set(want) - set(cover)), sorted(set(x for x in cover if cover.count(x) > 1))))
                    break
        except ex.Unknown as e:
            unknown = str(e)
        if unknown:
            rep.undecided('R04c', node, fn, what, 'slice bounds could not be evaluated: ' + unknown)
        elif bad:
            rep.violation('R04c', node, fn, what, 'with total=%d items and %d ranks %s' % bad, key='R04c|%s|coverage' % fn.g)
        else:
            rep.ok('R04c', node, fn, what, 'iterator-range slice evaluated for 9 totals x 9 communicator sizes: exact partition')
        rep.ok('R04h', node, fn, 'what is computed for index i inside a rank slice does not depend on the indices visited before it', 'the slice is a plain copy of a range')
        whatd = 'the sliced sequence has the same order on every rank (no address-ordered container behind it)'
        kind, why = order_of_sequence(prog, fn, seqvar, node)
        if kind == 'index':
            rep.ok('R04d', node, fn, whatd, why)
        elif kind == 'address':
            rep.violation('R04d', node, fn, whatd, '%s takes its order from `%s`, a std::set ordered by edge-property *addresses*: ranks whose heaps differ slice '
                          'different orders, so some candidates are searched by no rank' % (prog.vars[seqvar]['name'], why),
                          key='R04d|%s|%s' % (fn.g, prog.vars[seqvar]['name']))
        else:
            rep.undecided('R04d', node, fn, whatd, why)
    return count


def check_slices(rep, prog):
    count = 0
    for fn in prog.functions:
        if not ((fn.file.startswith(env.REPO + '/include') or fn.file.startswith(env.WITNESS + '/positive')) and '/parmcb/mpi/' in fn.file) or fn.is_lambda or fn.implicit:
            continue
        count += check_range_slices(rep, prog, fn)
        for (loop, iv, lo, pvar) in find_slices(prog, fn):
            count += 1
            what = 'the per-rank index slices cover 0..total-1 exactly once for every total and communicator size'
            bad = None
            unknown = None
            try:
                for total_v, size_v in itertools.product((0, 1, 2, 3, 5, 7, 8, 10, 13), (1, 2, 3, 4, 5, 8, 9, 12, 16)):
                    cover = []
                    for r in range(size_v):
                        cover.extend(eval_slice(prog, fn, loop, iv, lo, pvar, total_v, size_v, r, {}))
                    want = list(range(total_v))
                    if sorted(cover) != want:
                        missing = sorted(set(want) - set(cover))
                        dup = sorted(set(x for x in cover if cover.count(x) > 1))
                        extra = sorted(set(cover) - set(want))
                        bad = (total_v, size_v, missing, dup, extra)
                        break
            except ex.Unknown as e:
                unknown = str(e)
            if unknown:
                rep.undecided('R04c', loop, fn, what, 'slice bounds could not be evaluated: ' + unknown)
            elif bad:
                rep.violation('R04c', loop, fn, what,
                              'with total=%d items and %d ranks the slices miss indices %s, duplicate %s, exceed with %s '
                              '(a floor instead of a ceiling in the stride loses the tail)' % bad, key='R04c|%s|coverage' % fn.g)
            else:
                rep.ok('R04c', loop, fn, what, 'evaluated for 9 totals x 9 communicator sizes: exact partition')
            # R04h: the work for index i must not depend on where the rank's slice started
            whath = 'what is computed for index i inside a rank slice does not depend on the indices visited before it (the slice starts at rank*stride, not at 0)'
            eff = par.Effects(prog)
            carried = []
            ws = [(node, target) for (node, target, how) in eff.writes(fn) if loop.body is not None and loop.body.is_ancestor_of(node)]
            for (node, target) in ws:
                root, idx, names = par.access_path(target)
                if root is None or root == iv:
                    continue
                decl = [d for d in fn.walk() if d.k == 'VarDecl' and d.decl_id == root]
                if decl and loop.is_ancestor_of(decl[0]):
                    continue
                reads = [d for d in loop.body.walk() if d.k == 'DeclRefExpr' and d.decl_id == root and
                         not any(w[0].is_ancestor_of(d) and par.access_path(w[1])[0] == root for w in ws)]
                if reads:
                    carried.append((node, root, reads[0]))
            if carried:
                node, root, rd = carried[0]
                rep.violation('R04h', node, fn, whath,
                              '`%s` is modified inside the rank slice (`%s`) and read there (line %d): its value at index i is the result of the '
                              'iterations since rank*stride, not since 0, so every rank but the first computes it from a different prefix' % (
                                  prog.vars[root]['name'], node.text(40), rd.line), key='R04h|%s|%s' % (fn.g, prog.vars[root]['name']))
            else:
                rep.ok('R04h', loop, fn, whath, 'no state carried between the iterations of the slice besides append-only outputs')
            # R04d
            seqvar, acc = sequence_indexed(prog, fn, loop, iv)
            whatd = 'the sliced sequence has the same order on every rank (no address-ordered container behind it)'
            if seqvar is None:
                rep.undecided('R04d', loop, fn, whatd, 'no sequence indexed by the slice variable')
                continue
            kind, why = order_of_sequence(prog, fn, seqvar, loop.cond if loop.cond is not None else acc)
            if kind == 'index':
                rep.ok('R04d', acc, fn, whatd, why)
            elif kind == 'address':
                rep.violation('R04d', acc, fn, whatd,
                              '%s takes its order from `%s`, a std::set ordered by edge-property *addresses*: ranks whose heaps differ slice '
                              'different orders, so some candidates are searched by no rank' % (prog.vars[seqvar]['name'], why),
                              key='R04d|%s|%s' % (fn.g, prog.vars[seqvar]['name']))
            else:
                rep.undecided('R04d', acc, fn, whatd, why)
    return count


# ------------------------------------------------------------------------------------------------ R04f wire format
def check_wire(rep, prog):
    n = 0
    for fn in prog.functions:
        if fn.fref['name'] != 'serialize' or fn.implicit or not fn.fref.get('in_repo'):
            continue
        rec = prog.records[fn.j['rec_id']] if fn.j.get('rec_id') is not None else None
        if rec is None or len(fn.param_ids) != 2:
            continue
        n += 1
        ar = fn.param_ids[0]
        counts = {}
        for d in fn.walk():
            if d.k == 'CXXOperatorCallExpr' and d.op in ('&', '<<', '>>') and len(d.c) == 3:
                f = ex.var_of(d.c[2])
                if f in rec.get('fields', []):
                    counts[f] = counts.get(f, 0) + 1
        what = 'serialize() of %s archives every data member exactly once' % rec['g'].split('::')[-1]
        # split save()/load() members (BOOST_SERIALIZATION_SPLIT_MEMBER): the generated serialize() only dispatches
        split = [g_ for g_ in prog.functions if g_.j.get('rec_id') == fn.j.get('rec_id') and g_.fref['name'] in ('save', 'load') and not g_.implicit and g_.body is not None]
        if {g_.fref['name'] for g_ in split} == {'save', 'load'} and not counts:
            for g_ in split:
                gc = {}
                probs = []
                for d in g_.walk():
                    if d.k == 'CXXOperatorCallExpr' and d.op in ('&', '<<', '>>') and len(d.c) == 3:
                        f = ex.var_of(d.c[2])
                        if f in rec.get('fields', []):
                            gc[f] = gc.get(f, 0) + 1
                        # make_array(field.data(), n)
                        for x in d.c[2].walk():
                            if x.k == 'CXXMemberCallExpr' and x.callee and x.callee['name'] == 'data' and ex.var_of(x.object_arg()) in rec.get('fields', []):
                                fld = ex.var_of(x.object_arg())
                                gc[fld] = gc.get(fld, 0) + 1
                                if g_.fref['name'] == 'load':
                                    # the container must be given its new length on every path, also for an empty incoming block
                                    rs = [y for y in g_.walk() if y.k == 'CXXMemberCallExpr' and y.callee and y.callee['name'] in ('resize', 'assign', 'clear') and ex.var_of(y.object_arg()) == fld]
                                    gcfg = g_.cfg
                                    if not any(gcfg.pos_of(y) and gcfg.block_postdominates(gcfg.pos_of(y)[0], gcfg.entry) for y in rs):
                                        probs.append('load() re-sizes `%s` only on some paths: when the incoming vector is empty (or the guard fails) the old contents stay, '
                                                     'a reused object keeps stale coordinates' % prog.vars[fld]['name'])
                whatg = '%s() of %s handles every data member exactly once, on every path' % (g_.fref['name'], rec['g'].split('::')[-1])
                miss = [prog.vars[f]['name'] for f in rec.get('fields', []) if gc.get(f, 0) == 0]
                if miss:
                    probs.append('not archived: %s' % miss)
                if probs:
                    rep.violation('R04f', g_.body, g_, whatg, '; '.join(probs), key='R04f|%s|%s' % (rec['g'], g_.fref['name']))
                else:
                    rep.ok('R04f', g_.body, g_, whatg, '%d member(s)' % len(rec.get('fields', [])))
            continue
        missing = [prog.vars[f]['name'] for f in rec.get('fields', []) if counts.get(f, 0) == 0]
        twice = [prog.vars[f]['name'] for f in rec.get('fields', []) if counts.get(f, 0) > 1]
        if missing or twice:
            rep.violation('R04f', fn.body, fn, what, 'not archived: %s; archived more than once: %s' % (missing or '-', twice or '-'),
                          key='R04f|%s|%s' % (rec['g'], ','.join(missing + twice)))
        else:
            rep.ok('R04f', fn.body, fn, what, '%d member(s)' % len(rec.get('fields', [])))
    # is_mpi_datatype<T> : true_  => T has only arithmetic members
    for rec in prog.records:
        if isinstance(rec, dict) and rec.get('g') == 'boost::mpi::is_mpi_datatype' and rec.get('is_inst'):
            bases = [prog.types[b].get('canon', '') for b in rec.get('bases', [])]
            if not any('true' in b for b in bases):
                continue
            full = rec.get('full', '')
            for r2 in prog.records:
                if isinstance(r2, dict) and r2.get('g', '').startswith('parmcb::') and r2.get('full') and r2['full'] in full and r2.get('fields') is not None:
                    n += 1
                    what = 'type declared is_mpi_datatype (%s) has only arithmetic members' % r2['g'].split('::')[-1]
                    bad = [prog.vars[f]['name'] for f in r2['fields'] if not ((prog.base_type(prog.vars[f]['ty']) or {}).get('arith') or (prog.base_type(prog.vars[f]['ty']) or {}).get('enum'))]
                    if bad:
                        rep.violation('R04f', r2['g'], r2['g'], what, 'member(s) %s are not arithmetic: sending the raw bytes is wrong' % bad,
                                      key='R04f|%s|mpi-datatype' % r2['g'])
                    else:
                        rep.ok('R04f', '%s:%d' % (prog.files[r2['loc'][0]], r2['loc'][1]), r2['g'], what)
    return n


def check_minop(rep, prog):
    n = 0
    for fn in prog.functions:
        if fn.g == 'parmcb::SerializableMinOddCycleMinOp::operator()':
            n += 1
            what = 'the MPI reduction operator is a minimum that treats "does not exist" as identity'
            verdict, detail = minsel.join_table(fn)
            if verdict == 'ok':
                rep.ok('R04m', fn.body, fn, what, detail)
            elif verdict == 'violation':
                rep.violation('R04m', fn.body, fn, what, detail, key='R04m|%s|table' % fn.g)
            else:
                rep.undecided('R04m', fn.body, fn, what, detail)
    return n


def check_forest_order(rep, prog):
    """R16e: ForestIndex::create_index assigns indices while iterating boost::edges(g) (graph order), never while iterating an
    address-ordered container"""
    n = 0
    for fn in prog.fns('parmcb::ForestIndex::create_index'):
        n += 1
        what = 'edge indices are assigned in graph iteration order, not in an order derived from addresses'
        stores = []
        for d in fn.walk():
            if d.k in ('BinaryOperator', 'CXXOperatorCallExpr') and d.op == '=':
                ops = d.c if d.k == 'BinaryOperator' else d.c[1:]
                l = ops[0].strip_all()
                if l.k == 'CXXOperatorCallExpr' and l.op == '[]' and ex.var_of(l.c[1]) is not None and prog.vars[ex.var_of(l.c[1])]['kind'] == 'field':
                    stores.append(d)
        bad = None
        for st in stores:
            lp = st.enclosing('ForStmt', 'WhileStmt', 'CXXForRangeStmt', 'DoStmt')
            if lp is None:
                continue
            srcs = []
            for d in lp.walk():
                if d.k in ('DeclRefExpr', 'MemberExpr') and d.decl_id is not None and d.type is not None:
                    if is_address_ordered(prog, d.j.get('t')):
                        # used as the iterated range (begin()/range-for), not just for membership tests
                        up = d.up()
                        if up is not None and up.k == 'MemberExpr' and up.fnref and up.fnref['name'] in ('begin', 'cbegin', 'rbegin'):
                            srcs.append(d)
                        if lp.k == 'CXXForRangeStmt' and lp.role('range') is not None and lp.role('range').is_ancestor_of(d):
                            srcs.append(d)
            init = lp.role('init') if lp.k == 'ForStmt' else None
            if init is not None:
                for d in init.walk():
                    if d.k in ('DeclRefExpr', 'MemberExpr') and is_address_ordered(prog, d.j.get('t')):
                        srcs.append(d)
            if srcs:
                bad = (st, srcs[0])
        if bad:
            rep.violation('R16e', bad[0], fn, what,
                          'indices are handed out while iterating `%s`, a std::set ordered by edge-property addresses: two processes '
                          '(or two runs) number the same graph differently, and forest indices are the MPI wire format' % bad[1].text(30),
                          key='R16e|%s|address-order' % fn.g)
        else:
            rep.ok('R16e', fn.body, fn, what, '%d index stores, none inside a loop over an address-ordered container' % len(stores))
    return n


def check_same_communicator(rep, prog):
    """R04j: the slice a rank works on is computed from the communicator the collectives of the same function run on.  A helper that takes the
    communicator as a *defaulted* parameter (`= boost::mpi::communicator()`, i.e. MPI_COMM_WORLD) and is called without it partitions by world
    rank and world size while the broadcast / reduce run on the caller's (possibly split) communicator: the slices of its ranks no longer
    cover the search space."""
    what = 'rank() / size() used for the partition come from the communicator the collectives use'
    n = 0
    for fn in prog.functions:
        if fn.implicit or fn.body is None or '/mpi/' not in fn.file:
            continue
        comm_params = [p_ for p_ in fn.param_ids if 'mpi::communicator' in ((prog.type(prog.vars[p_].get('ty')) or {}).get('canon') or '')]
        if not comm_params:
            continue
        for c in fn.walk():
            if c.k not in ('CallExpr', 'CXXMemberCallExpr') or not c.callee or not c.callee.get('in_repo') or c.callee_id is None:
                continue
            hf = prog.fn_of_fref(c.callee_id)
            if hf is None:
                continue
            for ix, pid in enumerate(hf.param_ids):
                if 'mpi::communicator' not in ((prog.type(prog.vars[pid].get('ty')) or {}).get('canon') or ''):
                    continue
                args = c.args()
                n += 1
                if ix >= len(args) or args[ix].strip().k == 'CXXDefaultArgExpr' or any(x.k == 'CXXDefaultArgExpr' for x in [args[ix]] + list(args[ix].walk())):
                    rep.violation('R04j', c, fn, what, '`%s` leaves the communicator parameter of %s at its default (MPI_COMM_WORLD): the slice is computed from the world rank and size, '
                                  'the collectives of this function use `%s`' % (c.text(40), hf.g.split('::')[-1], prog.vars[comm_params[0]]['name']),
                                  key='R04j|%s|%s' % (fn.g, hf.g))
                elif ex.var_of(args[ix]) in comm_params:
                    rep.ok('R04j', c, fn, what, 'helper called with the function\'s communicator')
                else:
                    rep.undecided('R04j', c, fn, what, 'communicator argument `%s` not traced to the parameter' % args[ix].text(30))
        for c in fn.walk():
            if c.k == 'CXXMemberCallExpr' and c.callee and c.callee['g'] in ('boost::mpi::communicator::rank', 'boost::mpi::communicator::size') and c.object_arg() is not None:
                o = c.object_arg().strip_all()
                if o.k in ex.CTOR_KINDS or o.k in ('CXXTemporaryObjectExpr', 'MaterializeTemporaryExpr', 'CXXBindTemporaryExpr'):
                    n += 1
                    rep.violation('R04j', c, fn, what, '`%s` asks a freshly constructed communicator (MPI_COMM_WORLD) instead of `%s`' % (c.text(40), prog.vars[comm_params[0]]['name']),
                                  key='R04j|%s|temporary' % fn.g)
    return n


def check_wire_root(rep, prog):
    """R04i: a candidate travels as (root vertex, edge index) and every rank rebuilds the tree at that root: the root sent must be the
    source of the tree the candidate belongs to.  The tree *number* is not a vertex: for the feedback-vertex-set collection tree i is rooted
    at the i-th vertex chosen by greedy_fvs, not at vertex i."""
    what = 'the root sent with a candidate is the source vertex of the tree it was built from'
    n = 0
    for fn in prog.functions:
        if fn.implicit or fn.body is None or 'CandidateCycleToSerializableConverter::operator()' not in fn.g:
            continue
        for c in fn.walk():
            if c.k in ex.CTOR_KINDS and c.callee and c.callee.get('ctor') and 'SerializableCandidateCycle' in (c.callee.get('rec') or '') and len(c.c) >= 2:
                n += 1
                root = c.c[0]
                calls = [x for x in [root.strip_all()] + list(root.walk()) if x.k == 'CXXMemberCallExpr' and x.callee]
                via_source = any(x.callee['name'] == 'source' and 'SPTree' in ((prog.base_type(x.object_arg().strip_all().j.get('t')) or {}).get('canon') or '')
                                 for x in calls if x.object_arg() is not None)
                uses_tree_no = any(x.callee['name'] == 'tree' for x in calls)
                if via_source and uses_tree_no:
                    rep.ok('R04i', c, fn, what, 'trees[cycle.tree()].source()')
                elif uses_tree_no and not via_source:
                    rep.violation('R04i', c, fn, what, 'the root is computed as `%s` from the tree number alone: tree i is rooted at vertex i only for the collections that build a '
                                  'tree per vertex; the FVS collection roots tree i at the i-th feedback vertex, so every rank rebuilds its trees at the wrong '
                                  'vertices' % root.text(40), key='R04i|%s|root' % fn.g)
                else:
                    rep.undecided('R04i', c, fn, what, 'root expression `%s` not recognised' % root.text(40))
    return n


def run(rep, tier):
    rep.rule('R04a', 'collective matching', floor=5)
    rep.rule('R04b', 'no rank-dependent exit in functions with collectives', floor=3)
    rep.rule('R04g', 'support[k] broadcast before use in every phase', floor=2)
    rep.rule('R03b', 'joins of the rank-local TBB reductions in the MPI variants are minima with "not found" as identity (shared with C03)', floor=0)
    rep.rule('R03c', 'reduce bodies of the rank-local TBB reductions fold under the min-update contract (shared with C03)', floor=0)
    rep.rule('R04c', 'rank slices are an exact partition', floor=3)
    rep.rule('R04d', 'sliced sequences are not address-ordered', floor=3)
    rep.rule('R04h', 'no prefix-dependent state inside a rank slice', floor=3)
    rep.rule('R01d', 'R04e: only rank 0 emits', floor=2)
    rep.rule('R01b', 'MPI siblings: the support vectors are updated against the cycle that rank 0 emits (the reduced global one)', floor=2)
    rep.rule('R04f', 'wire format completeness', floor=3)
    rep.rule('R04m', 'MPI min operator', floor=1)
    rep.rule('R16e', 'forest index order is address-free', floor=1)
    rep.rule('R02d', 'every rank builds its first-found lookup over a share it has sorted itself', floor=1)
    rep.rule('R04j', 'partitions are computed from the communicator the collectives run on', floor=0)
    rep.rule('R04i', 'candidates are sent with the root vertex of their tree, not with the tree number', floor=1)
    tus = [env.witness_tu()]
    if tier == 'thorough':
        tus += [t for t in env.demo_tus() if 'mpi' in os.path.basename(t)]
    progs = env.extract(tus, 'full')
    rep.saw_programs(progs.values())
    for prog in progs.values():
        nf = check_collectives(rep, prog)
        if nf < 3:
            rep.analysis_broken('only %d library functions with collectives found (3 confirmed by hand)' % nf)
        check_broadcast_before_use(rep, prog)
        check_slices(rep, prog)
        check_wire(rep, prog)
        check_minop(rep, prog)
        check_forest_order(rep, prog)
        # the rank-local TBB reductions inside the MPI variants: their joins must be the same minimum (shared with C03)
        from . import c03
        sub3 = type(rep)(rep.prop, rep.tier)
        c03.check_program(sub3, prog)
        for i in sub3.instances.values():
            if i.rule in ('R03b', 'R03c') and '/mpi/' in (i.site or ''):
                rep.add(i.rule, i.site, i.function, i.what, i.status, i.detail, key=i.key)
        F = phase.analyse(prog)
        phase.report(rep, F, ['R01d'])
        # the support-vector update of the MPI siblings (shared with C01): rank 0 must orthogonalise against the cycle it emits
        phase.report(rep, [f_ for f_ in F if f_[0] == 'R01b' and '/mpi/' in getattr(f_[2], 'file', '')], ['R01b'])
        # the first-found lookup of every rank runs over its own share of the candidates: that share must be sorted where the lookup is built
        # (the received pairs are regrouped per root, so a globally sorted sequence does not arrive sorted) - shared with C02
        phase.report(rep, [f_ for f_ in F if f_[0] == 'R02d' and '/mpi/' in getattr(f_[2], 'file', '')], ['R02d'])
        check_wire_root(rep, prog)
        check_same_communicator(rep, prog)
    pos = os.path.join(env.WITNESS, 'positive', 'c04_mpi.cc')
    try:
        pp = env.extract([pos], 'full', ('first:-I' + os.path.join(env.WITNESS, 'positive', 'broken_include'),))[pos]
        prep = type(rep)(rep.prop, rep.tier)
        saved = env.REPO
        check_collectives(prep, pp)
        check_broadcast_before_use(prep, pp)
        check_slices(prep, pp)
        check_wire(prep, pp)
        check_minop(prep, pp)
        check_forest_order(prep, pp)
        check_same_communicator(prep, pp)
        for r in ('R04a', 'R04b', 'R04g', 'R04c', 'R04d', 'R04h', 'R04f', 'R04m', 'R16e', 'R04j'):
            rep.positive(r, 'witness/positive/c04_mpi.cc', any(i.status == 'violation' and i.rule == r for i in prep.instances.values()))
    except env.AnalysisBroken as e:
        rep.analysis_broken('positive example c04_mpi.cc does not parse against the current headers: ' + str(e)[:300])
    rep.assume('all ranks are given the same graph object contents (same vertex/edge iteration order); only heap addresses differ')
    rep.assume('boost::mpi collectives block until every rank of the communicator has called the matching collective with the same root')
    rep.assume('boost::detail::edge_desc_impl::operator< compares property addresses (confirmed in boost/graph/detail/edge.hpp); '
               'ForestIndex::operator()(Edge) is a bijection onto 0..m-1 (C16)')
