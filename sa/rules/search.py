"""Truth-table rules on the shortest-odd-cycle searches (reported under C01 / C02).

R01e  parity propagation is an exclusive-or with "edge is signed":
      (a) SPTree::update_parities: child parity = parent parity XOR [pred edge in the signed set], root parity false
      (b) bidirectional_signed_dijkstra: sign of the neighbour = sign of u XOR [e in signed_edges]
      (c) CandidateCycleBuilder: a candidate is taken iff parity(v) XOR parity(u) XOR [e signed]
R02h  relaxation contract of every label-setting search (search_frontier::update, dijkstra, lex_dijkstra, bfs): the tentative
      distance / predecessor of w is overwritten iff w was not visited or the new label compares less, never for the source
R02i  pruning is sound: the bidirectional search stops / discards / skips only when the quantity it compares is NOT less than the
      bound it is compared with (the loop may only `break` with an empty queue or best_path_set and not less(top_f + top_b, best));
      the best meeting point is replaced iff the new path is less
"""
import itertools

from lib import env, ex
from .c10 import guards_formula


# ------------------------------------------------------------------------------------------------ boolean expressions
def bool_eval(n, atom_of, envv):
    """evaluate a bool-valued expression tree under a valuation of its atoms; returns None if a leaf is not an atom"""
    s = n.strip()
    while s.k in ('ImplicitCastExpr', 'CStyleCastExpr', 'CXXStaticCastExpr', 'CXXFunctionalCastExpr', 'ParenExpr') and s.c and s.k != 'CallExpr':
        a = atom_of(s)
        if a is not None:
            return envv[a]
        s = s.c[0].strip()
    a = atom_of(s)
    if a is not None:
        return envv[a]
    if s.cv is not None and s.k not in ex.CALL_KINDS:
        return bool(s.cv)
    if s.k == 'UnaryOperator' and s.op == '!':
        v = bool_eval(s.c[0], atom_of, envv)
        return None if v is None else (not v)
    if s.k == 'BinaryOperator' and s.op in ('^', '!=', '==', '&&', '||', '&', '|') and len(s.c) == 2:
        x, y = bool_eval(s.c[0], atom_of, envv), bool_eval(s.c[1], atom_of, envv)
        if x is None or y is None:
            return None
        return {'^': x != y, '!=': x != y, '==': x == y, '&&': x and y, '||': x or y, '&': x and y, '|': x or y}[s.op]
    if s.k == 'ConditionalOperator':
        c = bool_eval(s.cond, atom_of, envv)
        if c is None:
            return None
        return bool_eval(s.then if c else s.els, atom_of, envv)
    return None


def table_is(n, atom_of, atoms, spec):
    """compare the truth table of n over `atoms` with spec(env); returns (True|False|None, counterexample)"""
    for vals in itertools.product((False, True), repeat=len(atoms)):
        envv = dict(zip(atoms, vals))
        got = bool_eval(n, atom_of, envv)
        if got is None:
            return None, None
        if bool(got) != bool(spec(envv)):
            return False, envv
    return True, None


def resolve_bool(fn, n, depth=0):
    """look through a bool local with a unique definition"""
    v = ex.var_of(n)
    if v is not None and depth < 3:
        d = ex.unique_def(fn, v)
        if d is not None and (fn.prog.type(fn.prog.vars[v]['ty']) or {}).get('bool'):
            return resolve_bool(fn, d, depth + 1)
    return n


# ------------------------------------------------------------------------------------------------ R01e
def check_parity(rep, prog):
    n = 0
    # (a) update_parities
    for fn in prog.fns('parmcb::SPTree::update_parities'):
        n += 1
        what = 'update_parities: child parity = parent parity XOR [predecessor edge is signed], root parity false'
        setp = fn.param_ids[0] if fn.param_ids else None
        emplaces = [c for c in fn.walk() if c.k == 'CXXMemberCallExpr' and c.callee and c.callee['name'] in ('emplace', 'push', 'emplace_back', 'push_back')]
        seeds = [c for c in emplaces if c.enclosing('WhileStmt', 'ForStmt', 'CXXForRangeStmt') is None]
        inner = [c for c in emplaces if c not in seeds]
        probs = []
        for sd in seeds:
            first = sd.args()[0].strip_all() if sd.args() else None
            if first is None or first.cv not in (0,):
                vals = [x.strip_all().cv for x in sd.walk() if x.k == 'CXXBoolLiteralExpr']
                if not vals or vals[0]:
                    probs.append('the root is not seeded with parity false')
        found = False

        def is_carried(y):
            # the value that travels with the popped entry: <entry>.info, or a component (.first / .second) of work.top() / back() / front()
            if y.k == 'MemberExpr' and y.decl and y.decl.get('name') == 'info':
                return True
            if y.k == 'MemberExpr' and y.decl and y.decl.get('name') in ('first', 'second') and y.c and (y.type or {}).get('bool'):
                b = y.c[0].strip_all()
                bv = ex.var_of(b)
                if bv is not None and ex.unique_def(fn, bv) is not None:
                    b = ex.unique_def(fn, bv).strip_all()
                return b.k == 'CXXMemberCallExpr' and b.callee and b.callee['name'] in ('top', 'back', 'front')
            return False

        def mentions_info(x):
            for y in x.walk():
                if is_carried(y):
                    return True
                if y.k == 'DeclRefExpr' and y.decl_id is not None and resolve_bool(fn, y) is not y and depth_guard[0] < 3:
                    depth_guard[0] += 1
                    try:
                        if mentions_info(resolve_bool(fn, y)):
                            return True
                    finally:
                        depth_guard[0] -= 1
            return False
        depth_guard = [0]
        for c in inner:
            for x in c.walk():
                if x.k in ('BinaryOperator', 'ConditionalOperator', 'UnaryOperator') and (x.k != 'BinaryOperator' or x.op in ('^', '!=', '==')) and \
                        mentions_info(x) and not (x.k == 'UnaryOperator' and x.op != '!'):
                    found = True

                    def atom_of(leaf):
                        l2 = resolve_bool(fn, leaf)
                        m = ex.membership(l2)
                        if m is not None and ex.var_of(m[0]) == setp:
                            return 'signed' if m[2] else None
                        s = l2.strip_all()
                        if is_carried(s):
                            return 'parent'
                        return None
                    # membership may be negative-polarity: handle by evaluating both encodings
                    ok, cex = table_is(x, atom_of, ['parent', 'signed'], lambda e: e['parent'] != e['signed'])
                    if ok is None:
                        rep.undecided('R01e', x, fn, what, 'parity expression `%s` outside the idiom table' % x.text(40))
                    elif not ok:
                        probs.append('`%s` is not parent XOR signed (e.g. parent=%s, signed=%s)' % (x.text(40), cex['parent'], cex['signed']))
                    break
        if not found:
            rep.undecided('R01e', fn.body, fn, what, 'no exclusive-or found where children are pushed')
            continue
        # the parity stored for the popped node is the value carried with it
        stores = [d for d in fn.walk() if d.k in ('BinaryOperator', 'CXXOperatorCallExpr') and d.op == '=' and
                  any(y.k == 'CXXMemberCallExpr' and y.callee and y.callee['name'] == 'parity' for y in (d.c[0] if d.k == 'BinaryOperator' else d.c[1]).walk())]
        if not stores:
            probs.append('the parity of the visited node is never stored')
        # the relabelling runs on every call: parities are state kept from the previous phase, so an exit that skips the traversal
        # leaves the labels of the previous signed set in place
        cfg = fn.cfg
        loops = [l for l in fn.body.c if l.k in ('WhileStmt', 'ForStmt', 'DoStmt')] if fn.body is not None else []
        loop_blocks = set()
        for l in loops:
            p0 = cfg.pos_of(l.cond) if l.cond is not None else None
            if p0:
                loop_blocks.add(p0[0])
        for r in ex.returns_of(fn):
            pr = cfg.pos_of(r)
            if pr is None or not loop_blocks:
                continue
            reach = cfg.reachable_blocks(cfg.entry, avoid=loop_blocks)
            if pr[0] in reach:
                g = ex.path_condition(cfg, r, lambda leaf: None)
                onodes = ex.opaque_nodes(fn, g)
                nullroot = onodes and all(ex.null_test(o) is not None and any(
                    y.k == 'MemberExpr' and y.decl and 'root' in (y.decl.get('name') or '') for y in o.walk()) for o in onodes)
                if nullroot:
                    continue
                probs.append('`return` at line %d leaves update_parities before the traversal (under `%s`): the parities computed for the previous '
                             'signed set stay in place for the whole tree' % (r.line, onodes[0].text(60) if onodes else 'an unconditional path'))
        if probs:
            rep.violation('R01e', fn.body, fn, what, '; '.join(probs), key='R01e|%s|xor' % fn.g)
        else:
            rep.ok('R01e', fn.body, fn, what, 'truth table is XOR; root seeded with false')
    # (b) bidirectional search
    for fn in prog.fns('parmcb::bidirectional_signed_dijkstra'):
        n += 1
        what = 'signed search: the sign of the neighbour is the sign of u XOR [e is a signed edge]'
        sparam = fn.param_ids[2] if len(fn.param_ids) > 2 else None
        pairs = [c for c in fn.walk() if c.k == 'CallExpr' and c.callee and c.callee['g'] == 'std::make_pair' and len(c.args()) == 2
                 and c.enclosing('ForStmt') is not None]
        done = False
        for c in pairs:
            second = c.args()[1]

            def atom_of(leaf):
                l2 = resolve_bool(fn, leaf)
                m = ex.membership(l2)
                if m is not None and ex.var_of(m[0]) == sparam and m[2]:
                    return 'signed'
                s = leaf.strip_all()
                if s.k == 'MemberExpr' and s.decl and s.decl.get('name') == 'second':
                    return 'usign'
                return None
            ok, cex = table_is(second, atom_of, ['usign', 'signed'], lambda e: e['usign'] != e['signed'])
            if ok is None:
                continue
            done = True
            if ok:
                rep.ok('R01e', c, fn, what, 'truth table is XOR')
            else:
                rep.violation('R01e', c, fn, what, '`%s` is not sign(u) XOR signed (e.g. sign(u)=%s, signed=%s)' % (second.text(50), cex['usign'], cex['signed']),
                              key='R01e|%s|xor' % fn.g)
        if not done:
            rep.undecided('R01e', fn.body, fn, what, 'construction of the signed neighbour not recognised')
        # hidden edges are skipped exactly when use_hidden_edges && e hidden
    # (c) candidate cycle builder
    for fn in prog.fns('parmcb::CandidateCycleBuilder::operator()'):
        n += 1
        what = 'a candidate is unfolded iff parity(v) XOR parity(u) XOR [e signed]'
        sparam = fn.param_ids[2] if len(fn.param_ids) > 2 else None
        top = None
        for s in fn.body.c:
            if s.k == 'IfStmt':
                top = s
                break
        if top is None:
            rep.undecided('R01e', fn.body, fn, what, 'top-level parity test not found')
            continue
        pvars = []

        def atom_of(leaf):
            m = ex.membership(resolve_bool(fn, leaf))
            if m is not None and ex.var_of(m[0]) == sparam and m[2]:
                return 'signed'
            s = leaf.strip_all()
            if s.k == 'CXXMemberCallExpr' and s.callee and s.callee['name'] == 'parity':
                o = s.object_arg()
                oo = o.strip_all() if o is not None else None
                if oo is not None and oo.k == 'CXXOperatorCallExpr' and oo.op == '->':
                    oo = oo.c[1].strip_all()
                v = ex.var_of(oo) if oo is not None else None
                if v is not None:
                    if v not in pvars:
                        pvars.append(v)
                    return 'p%d' % pvars.index(v)
            return None
        # discover the parity variables first
        bool_eval(top.cond, atom_of, {'signed': False, 'p0': False, 'p1': False, 'p2': False})
        if len(pvars) != 2:
            rep.undecided('R01e', top, fn, what, 'expected the parities of two endpoints, found %d' % len(pvars))
            continue
        ok, cex = table_is(top.cond, atom_of, ['p0', 'p1', 'signed'], lambda e: (e['p0'] != e['p1']) != e['signed'])
        if ok is None:
            rep.undecided('R01e', top, fn, what, 'condition `%s` outside the idiom table' % top.cond.text(50))
        elif ok:
            rep.ok('R01e', top, fn, what, 'truth table is the XOR of the three')
        else:
            rep.violation('R01e', top, fn, what, 'condition is not the XOR of the three (e.g. %s)' % cex, key='R01e|%s|xor' % fn.g)
    return n


# ------------------------------------------------------------------------------------------------ R02h relaxation contract
RELAX_FUNCS = ('parmcb::detail::search_frontier::update', 'parmcb::dijkstra', 'parmcb::lex_dijkstra', 'parmcb::is_bfs_reachable', 'parmcb::bfs')


def is_fill_value(fn, mapvar, expr):
    """is `expr` the value every slot of the table behind property map `mapvar` was initialised with: the map is built over a
    std::vector constructed as V(n, F) and expr denotes F (same expression, or both resolve to the same constant definition)"""
    if mapvar is None:
        return False
    md = ex.unique_def(fn, mapvar)
    if md is None:
        return False

    def resolved_key(e):
        v = ex.var_of(e)
        if v is not None and fn.prog.vars[v].get('kind') == 'local':
            d = ex.unique_def(fn, v)
            if d is not None:
                return ex.key(d)
        return ex.key(e)
    for n in fn.walk():
        if n.k == 'VarDecl' and n.c and ex.refs_var(md, n.decl_id):
            c0 = n.c[0].strip()
            t = fn.prog.base_type(n.j.get('t')) or {}
            if c0.k in ex.CTOR_KINDS and len(c0.c) >= 2 and (t.get('rec') or '') == 'std::vector':
                fill = c0.c[1]
                if ex.key(fill) == ex.key(expr) or resolved_key(fill) == resolved_key(expr):
                    # nothing else may store the sentinel: checked by the caller through the stored labels
                    return True
    return False


def opaque_decides(fn, pc, atoms, others, bad, wk, bfs=False):
    """the unrecognised condition (node) on which the verdict depends, when that condition looks at the relaxed vertex / its labels: in some
    feasible context (valuation of the unrecognised conditions under which a label store is reachable) every row of the contract holds, in
    another one it does not - the condition may be a (pre)test of the comparison, which the truth table cannot see"""
    good_ctx = False
    for vals in itertools.product((False, True), repeat=len(others)):
        e0 = dict(zip(others, vals))
        rows_ok = True
        any_store = False
        for vis in (False, True):
            for order in ('lt', 'eq', 'gt'):
                for srcv in ((False, True) if 'is_source' in atoms else (False,)):
                    e = dict(e0, visited=vis, lt=order == 'lt', gt=order == 'gt', is_source=srcv)
                    e = {k: v for k, v in e.items() if k in atoms}
                    got = bool(ex.f_eval(pc, e))
                    any_store = any_store or got
                    if srcv:
                        want = False
                    elif not vis:
                        want = True
                    elif order == 'eq':
                        continue
                    else:
                        want = (order == 'lt') and not bfs
                    if got != want:
                        rows_ok = False
        if any_store and rows_ok:
            good_ctx = True
    if not good_ctx:
        return None
    for a in others:
        if isinstance(a, tuple) and a and a[0] == 'opaque':
            n = fn.nodes.get(a[1])
            if n is None:
                continue
            for x in n.walk():
                if ex.key(x) == wk:
                    return n
                v = ex.var_of(x)
                if v is not None:
                    d = ex.unique_def(fn, v)
                    if d is not None and any(ex.key(y) == wk for y in d.walk()):
                        return n
    return None


def check_relaxation(rep, prog):
    n = 0
    for gname in RELAX_FUNCS:
        for fn in prog.fns(gname):
            cfg = fn.cfg
            puts = [c for c in fn.walk() if c.k == 'CallExpr' and c.callee and c.callee['g'] == 'boost::put' and len(c.args()) == 3]
            # relaxation puts: inside the function for update(), inside the edge loop for the others
            if gname.endswith('::update'):
                rel = puts
                src = None
                wvar = fn.param_ids[0]
            else:
                rel = [c for c in puts if c.enclosing('ForStmt') is not None]
                src = fn.param_ids[1] if gname in ('parmcb::is_bfs_reachable', 'parmcb::bfs') else fn.param_ids[2]
                wvar = None
            if not rel:
                continue
            n += 1
            bfs = gname in ('parmcb::is_bfs_reachable', 'parmcb::bfs')
            what = '%s: a label is overwritten iff the vertex was not visited%s' % (gname.split('::')[-1] if not gname.endswith('update') else 'search_frontier::update',
                                                                                  '' if bfs else ' or the new label compares less')
            # distance puts (value is the new label variable)
            by_key = {}
            for c in rel:
                by_key.setdefault(ex.key(c.args()[1]), []).append(c)
            for wk, group in by_key.items():
                vis_kind = {}

                def atomize(leaf, group=group, vis_kind=vis_kind):
                    s = resolve_bool(fn, leaf).strip_all()
                    # visited: std::get<k>(get(pred_map, w))
                    if s.k == 'CallExpr' and s.callee and s.callee['g'] == 'std::get' and s.args():
                        inner = s.args()[0].strip_all()
                        if inner.k == 'DeclRefExpr':
                            inner = ex.alias_of(fn, inner) or inner      # auto &pred_w = pred_map[w];
                        if inner.k == 'CallExpr' and inner.callee and inner.callee['g'] == 'boost::get' and len(inner.args()) == 2 and ex.key(inner.args()[1]) == wk:
                            vis_kind['map'] = ex.var_of(inner.args()[0])
                            return ex.f_atom('visited')
                        if inner.k == 'CXXOperatorCallExpr' and inner.op == '[]' and len(inner.c) == 3 and ex.key(inner.c[2]) == wk and \
                                'property_map' in ((fn.prog.base_type(inner.c[1].strip_all().j.get('t')) or {}).get('canon') or ''):
                            vis_kind['map'] = ex.var_of(inner.c[1])
                            return ex.f_atom('visited')
                    # visited: flags[index_map[w]] of a std::vector<bool> (the proxy reference is converted by a member call)
                    if s.k == 'CXXMemberCallExpr' and s.object_arg() is not None and s.object_arg().strip_all().k == 'CXXOperatorCallExpr' and \
                            s.object_arg().strip_all().op == '[]':
                        s = s.object_arg().strip_all()
                    if s.k == 'CXXOperatorCallExpr' and s.op == '[]' and len(s.c) == 3:
                        tv = ex.var_of(s.c[1])
                        tt = fn.prog.base_type(fn.prog.vars[tv]['ty']) if tv is not None else None
                        targs = [a_ for a_ in ((tt or {}).get('targs') or []) if isinstance(a_, int)]
                        if tt and (tt.get('rec') or '') == 'std::vector' and targs and (fn.prog.base_type(targs[0]) or {}).get('bool'):
                            idx = s.c[2].strip_all()
                            iv = ex.var_of(idx)
                            if iv is not None and ex.unique_def(fn, iv) is not None:
                                idx = ex.unique_def(fn, iv).strip_all()
                            if idx.k == 'CXXOperatorCallExpr' and idx.op == '[]' and len(idx.c) == 3 and ex.key(idx.c[2]) == wk:
                                vis_kind['flags'] = tv
                                return ex.f_atom('visited')
                    # visited: get(dist_map, w) != <the value the distance table was filled with> (a sentinel meaning "not discovered")
                    if s.k in ('BinaryOperator', 'CXXOperatorCallExpr') and s.op in ('==', '!='):
                        ops_ = s.c if s.k == 'BinaryOperator' else s.c[1:]
                        if len(ops_) == 2:
                            for a_, b_ in ((ops_[0], ops_[1]), (ops_[1], ops_[0])):
                                ga = a_.strip_all()
                                if ga.k == 'CallExpr' and ga.callee and ga.callee['g'] == 'boost::get' and len(ga.args()) == 2 and ex.key(ga.args()[1]) == wk and \
                                        is_fill_value(fn, ex.var_of(ga.args()[0]), b_):
                                    vis_kind['sentinel'] = ex.var_of(ga.args()[0])
                                    f_ = ex.f_atom('visited')
                                    return f_ if s.op == '!=' else ex.f_not(f_)
                    # less(c, dist[w])
                    if s.k == 'CXXOperatorCallExpr' and s.op == '()' and len(s.c) == 4:
                        def label_read(e_):
                            # get(map, w)  /  map[w]  /  a reference bound to one of them
                            e_ = e_.strip_all()
                            if e_.k == 'DeclRefExpr':
                                e_ = ex.alias_of(fn, e_) or e_
                            if e_.k == 'CallExpr' and e_.callee and e_.callee['g'] == 'boost::get' and len(e_.args()) == 2 and ex.key(e_.args()[1]) == wk:
                                return True
                            return e_.k == 'CXXOperatorCallExpr' and e_.op == '[]' and len(e_.c) == 3 and ex.key(e_.c[2]) == wk and \
                                'property_map' in ((fn.prog.base_type(e_.c[1].strip_all().j.get('t')) or {}).get('canon') or '')
                        if label_read(s.c[3]):
                            return ex.f_atom('lt')
                        if label_read(s.c[2]):
                            return ex.f_atom('gt')
                    if s.k in ('BinaryOperator', 'CXXOperatorCallExpr') and s.op in ('==', '!='):
                        ops = s.c if s.k == 'BinaryOperator' else s.c[1:]
                        if len(ops) == 2:
                            ks = {ex.key(ops[0]), ex.key(ops[1])}
                            if wk in ks:
                                other = [o for o in ops if ex.key(o) != wk]
                                if other:
                                    ov = ex.var_of(other[0])
                                    if ov is not None and (ov == src or fn.prog.vars[ov]['name'] in ('source', 's')):
                                        f = ex.f_atom('is_source')
                                        return f if s.op == '==' else ex.f_not(f)
                    return None
                pc = ex.FALSE
                for c in group:
                    pc = ex.f_or(pc, guards_formula(cfg, c, atomize))
                atoms = ex.f_atoms(pc)
                others = [a for a in atoms if a not in ('visited', 'lt', 'gt', 'is_source')]
                bad = None
                for vals in itertools.product((False, True), repeat=len(others)):
                    e0 = dict(zip(others, vals))
                    rows = {}
                    for vis in (False, True):
                        for order in ('lt', 'eq', 'gt'):
                            for srcv in ((False, True) if 'is_source' in atoms else (False,)):
                                e = dict(e0, visited=vis, lt=order == 'lt', gt=order == 'gt', is_source=srcv)
                                e = {k: v for k, v in e.items() if k in atoms}
                                rows[(vis, order, srcv)] = ex.f_eval(pc, e)
                    if not any(rows.values()):
                        continue
                    for (vis, order, srcv), got in rows.items():
                        if srcv:
                            want = False
                        elif not vis:
                            want = True
                        else:
                            want = (order == 'lt') and not bfs
                            if order == 'eq':
                                # a label equal to the stored one may be kept or re-stored: executions of the re-storing variant of
                                # dijkstra / lex_dijkstra showed no difference (1500 random graphs with ties, all pairs), so not armed
                                continue
                        if got != want:
                            # e0 is a context in which some label store is reachable (infeasible contexts were skipped above)
                            bad = (vis, order, srcv, got)
                    if bad:
                        break
                if 'visited' not in atoms:
                    if ex.opaque_nodes(fn, pc):
                        rep.undecided('R02h', group[0], fn, what, 'relaxation guard outside the idiom table')
                    else:
                        rep.violation('R02h', group[0], fn, what, 'labels are overwritten without testing whether the vertex was visited', key='R02h|%s|unguarded' % fn.g)
                elif bad and opaque_decides(fn, pc, atoms, others, bad, wk, bfs):
                    rep.undecided('R02h', group[0], fn, what, 'the relaxation additionally depends on `%s`, a test of the labels that is outside the idiom table' %
                                  opaque_decides(fn, pc, atoms, others, bad, wk, bfs).text(50))
                elif bad:
                    vis, order, srcv, got = bad
                    rep.violation('R02h', group[0], fn, what,
                                  'for a %s vertex whose new label is %s the old one%s the label is %s' % (
                                      'visited' if vis else 'new', {'lt': 'less than', 'eq': 'equal to', 'gt': 'greater than'}[order],
                                      ' (the source itself)' if srcv else '', 'overwritten' if got else 'kept'),
                                  key='R02h|%s|contract' % fn.g)
                else:
                    # the vertex must be marked visited where its label is stored (not later, e.g. when it is dequeued): otherwise a second
                    # neighbour of the same layer relabels it before it is popped
                    unmarked = None
                    if 'flags' in vis_kind:
                        tv = vis_kind['flags']
                        marks = []
                        for d in fn.walk():
                            if d.k in ('BinaryOperator', 'CXXOperatorCallExpr') and d.op == '=':
                                ops = d.c if d.k == 'BinaryOperator' else d.c[1:]
                                l = ops[0].strip_all() if ops else None
                                if l is not None and l.k == 'CXXOperatorCallExpr' and l.op == '[]' and len(l.c) == 3 and ex.var_of(l.c[1]) == tv and \
                                        len(ops) > 1 and ops[1].strip_all().cv == 1:
                                    idx = l.c[2].strip_all()
                                    iv = ex.var_of(idx)
                                    if iv is not None and ex.unique_def(fn, iv) is not None:
                                        idx = ex.unique_def(fn, iv).strip_all()
                                    if idx.k == 'CXXOperatorCallExpr' and idx.op == '[]' and len(idx.c) == 3 and ex.key(idx.c[2]) == wk:
                                        marks.append(d)
                        dist_puts = [c for c in group if ex.var_of(c.args()[0]) != vis_kind.get('map')]
                        for c in dist_puts:
                            pc_ = cfg.pos_of(c)
                            if not any(cfg.pos_of(mk) and cfg.pos_of(mk)[0] == pc_[0] for mk in marks):
                                unmarked = c
                    # every store of a (new or lowered) label is accompanied, in the same block, by the matching priority-queue operation for that
                    # vertex: push for a new vertex, update / decrease for a lowered key - otherwise the heap order is stale and a vertex is popped early
                    noqueue = None
                    if not bfs:
                        seen_blocks = set()
                        for c in group:
                            pc_ = cfg.pos_of(c)
                            if not pc_ or pc_[0] in seen_blocks:
                                continue
                            seen_blocks.add(pc_[0])
                            qblocks = set(cfg.pos_of(d)[0] for d in fn.walk() if d.k == 'CXXMemberCallExpr' and d.callee and
                                          d.callee['name'] in ('push', 'update', 'decrease', 'increase', 'emplace') and d.args() and ex.key(d.args()[0]) == wk and cfg.pos_of(d))
                            # every path from the store on reaches a queue operation for this vertex before the iteration ends
                            lp_ = c.enclosing('ForStmt', 'WhileStmt', 'DoStmt', 'CXXForRangeStmt')
                            body_blocks = set()
                            for d in ((lp_.body.walk() if lp_ is not None and lp_.body is not None else fn.walk())):
                                pp_ = cfg.positions().get(d.i)
                                if pp_:
                                    body_blocks.add(pp_[0])
                            okq = True
                            seen_, work_ = set(), [pc_[0]]
                            while work_:
                                b_ = work_.pop()
                                if b_ in seen_ or b_ in qblocks:
                                    continue
                                seen_.add(b_)
                                succ_ = [x_ for x_ in cfg.blocks[b_].succ if x_ is not None]
                                if not succ_:
                                    okq = False
                                for x_ in succ_:
                                    if x_ not in body_blocks:
                                        okq = False
                                    else:
                                        work_.append(x_)
                            if pc_[0] in qblocks:
                                okq = True
                            if not okq:
                                noqueue = c
                    if noqueue is not None:
                        rep.violation('R02h', noqueue, fn, what,
                                      'a label is stored at line %d without the matching priority-queue operation (push / update) for that vertex in the same block: '
                                      'the heap keeps the old key, the vertex is popped too early or never re-positioned and its descendants keep wrong distances' % noqueue.line,
                                      key='R02h|%s|no-queue-op' % fn.g)
                    elif unmarked is not None:
                        rep.violation('R02h', unmarked, fn, what,
                                      'the label is stored under `not visited`, but the visited flag of that vertex is not set where the label is stored (it is set '
                                      'elsewhere, e.g. when the vertex is dequeued): a queued vertex is relabelled by a later neighbour and its hop distance grows',
                                      key='R02h|%s|mark-late' % fn.g)
                    else:
                        rep.ok('R02h', group[0], fn, what, '%d store(s) of the label for this vertex' % len(group))
    return n


# ------------------------------------------------------------------------------------------------ R02i pruning soundness
def less_atoms(fn, leaf, quantities):
    """('lt'|'gt', qa, qb) if leaf is less(A, B) with A, B classified by `quantities(node) -> name`"""
    s = leaf.strip_all()
    if s.k == 'CXXOperatorCallExpr' and s.op == '()' and len(s.c) == 4 and s.callee and s.callee['name'] == 'operator()':
        a, b = quantities(s.c[2]), quantities(s.c[3])
        if a and b:
            return (a, b)
    if s.k == 'CXXMemberCallExpr' and s.callee and s.callee['name'] == 'compare' and len(s.args()) == 2:
        a, b = quantities(s.args()[0]), quantities(s.args()[1])
        if a and b:
            return (a, b)
    if s.k == 'BinaryOperator' and s.op in ('<', '>'):
        a, b = quantities(s.c[0]), quantities(s.c[1])
        if a and b:
            return (a, b) if s.op == '<' else (b, a)
    return None


def less_formula(fn, leaf, quantities):
    """formula over ('lt', A, B) atoms for leaf; handles <= and >= as negations of the strict comparison in the other direction"""
    la = less_atoms(fn, leaf, quantities)
    if la:
        return ex.f_atom(('lt',) + la)
    s = leaf.strip_all()
    if s.k == 'BinaryOperator' and s.op in ('<=', '>='):
        a, b = quantities(s.c[0]), quantities(s.c[1])
        if a and b:
            # a >= b  ==  !(a < b) ;  a <= b  ==  !(b < a)
            return ex.f_not(ex.f_atom(('lt', a, b))) if s.op == '>=' else ex.f_not(ex.f_atom(('lt', b, a)))
    return None


def update_return_table(prog):
    """{'first': set of constants returned by search_frontier::update when the vertex was unvisited, 'lowered': ... when it was visited and the new
    label is less, 'kept': ... otherwise}; None if the function returns nothing / something else"""
    for fn in prog.fns('parmcb::detail::search_frontier::update'):
        cfg = fn.cfg
        wk = ex.key_of_var(fn.param_ids[0]) if hasattr(ex, 'key_of_var') else None
        wv = fn.param_ids[0]

        def atomize(leaf):
            s = resolve_bool(fn, leaf).strip_all()
            if s.k == 'CallExpr' and s.callee and s.callee['g'] == 'std::get' and s.args():
                inner = s.args()[0].strip_all()
                if inner.k == 'CallExpr' and inner.callee and inner.callee['g'] == 'boost::get' and len(inner.args()) == 2 and ex.var_of(inner.args()[1]) == wv:
                    return ex.f_atom('visited')
            if s.k == 'CXXOperatorCallExpr' and s.op == '()' and len(s.c) == 4:
                b = s.c[3].strip_all()
                if b.k == 'CallExpr' and b.callee and b.callee['g'] == 'boost::get' and len(b.args()) == 2 and ex.var_of(b.args()[1]) == wv:
                    return ex.f_atom('lt')
            if s.k in ('BinaryOperator', 'CXXOperatorCallExpr') and s.op in ('==', '!='):
                ops = s.c if s.k == 'BinaryOperator' else s.c[1:]
                if len(ops) == 2 and wv in (ex.var_of(ops[0]), ex.var_of(ops[1])):
                    f = ex.f_atom('is_source')
                    return f if s.op == '==' else ex.f_not(f)
            return None
        rets = ex.returns_of(fn)
        table = {'first': set(), 'lowered': set(), 'kept': set()}
        for r in rets:
            if not r.c or r.c[0].strip_all().cv is None:
                return None
            val = bool(r.c[0].strip_all().cv)
            pc = guards_formula(cfg, r, atomize)
            atoms = ex.f_atoms(pc)
            others = [a for a in atoms if a not in ('visited', 'lt', 'is_source')]
            for ctx, envc in (('first', {'visited': False, 'lt': False}), ('first', {'visited': False, 'lt': True}),
                              ('lowered', {'visited': True, 'lt': True}), ('kept', {'visited': True, 'lt': False})):
                for vals in itertools.product((False, True), repeat=len(others)):
                    e = dict(zip(others, vals))
                    e.update(envc)
                    e['is_source'] = False
                    e = {k: v for k, v in e.items() if k in atoms}
                    if ex.f_eval(pc, e):
                        table[ctx].add(val)
        if not rets or not any(table.values()):
            return None
        return table
    return None


def check_combine_types(rep, prog, rule='R02j'):
    """the saturating sum (closed_plus) that adds edge weights to distances is instantiated with the distance type: when a floating-point
    distance / weight is handed to a closed_plus<integral> (or any callee) through an implicit floating -> integral conversion, every label is
    computed on truncated weights (edges lighter than 1 cost nothing)"""
    n = 0
    for fn in prog.functions:
        if fn.implicit or not (fn.file.startswith(env.REPO + '/include') or fn.file.startswith(env.WITNESS + '/positive')):
            continue
        for c in fn.walk():
            if not (c.k == 'CXXOperatorCallExpr' and c.op == '()' and c.callee and c.callee['g'] == 'parmcb::detail::closed_plus::operator()'):
                continue
            n += 1
            what = 'the saturating sum is applied in the type of the distances it adds'
            lossy = None
            for a in c.c[2:]:
                x = a
                while x.k in ('ImplicitCastExpr', 'MaterializeTemporaryExpr', 'ExprWithCleanups', 'CXXBindTemporaryExpr') and x.c:
                    if x.k == 'ImplicitCastExpr' and x.j.get('ck') == 'FloatingToIntegral':
                        lossy = x
                    x = x.c[0]
            if lossy is not None:
                rep.violation(rule, c, fn, what,
                              '`%s`: the argument `%s` of type %s is converted to %s before it is added - weights and distances are truncated to integers '
                              '(an edge lighter than 1 costs nothing, so a light cycle can be traversed for free)' % (
                                  c.text(50), lossy.c[0].text(30), (lossy.c[0].type or {}).get('s', '?'), (lossy.type or {}).get('s', '?')),
                              key='%s|%s|truncating-sum' % (rule, fn.g))
            else:
                rep.ok(rule, c, fn, what, '')
    return n


def check_pruning(rep, prog):
    n = 0
    for fn in prog.fns('parmcb::bidirectional_signed_dijkstra'):
        n += 1
        cfg = fn.cfg
        limit = fn.param_ids[-1]
        use_limit = fn.param_ids[-2]
        names = {v['id']: v['name'] for v in prog.vars if isinstance(v, dict)}

        def quantities(node):
            s = node.strip_all()
            v = ex.var_of(s)
            if v == limit:
                return 'limit'
            if v is not None and names.get(v) in ('best_path',):
                return 'best'
            if v is not None and (names.get(v) in ('distance_inf', 'inf') or (
                    ex.unique_def(fn, v) is not None and any(x.k in ex.CALL_KINDS and x.callee and x.callee['name'] in ('max', 'infinity')
                                                             for x in [ex.unique_def(fn, v).strip_all()] + list(ex.unique_def(fn, v).walk())))):
                return 'inf'
            if v is not None and names.get(v) in ('d_u',):
                return 'd_u'
            if v is not None and names.get(v) in ('c',):
                return 'c'
            if v is not None and names.get(v) in ('path_distance',):
                return 'path'
            if s.k == 'CXXOperatorCallExpr' and s.op == '()' and len(s.c) == 4 and all(
                    any(d.k == 'CXXMemberCallExpr' and d.callee and d.callee['name'] == 'find_min' for d in x.walk()) for x in s.c[2:4]):
                objs = []
                for x in s.c[2:4]:
                    for d in x.walk():
                        if d.k == 'CXXMemberCallExpr' and d.callee and d.callee['name'] == 'find_min':
                            objs.append(ex.key(d.object_arg()))
                if len(objs) == 2 and objs[0] != objs[1]:
                    return 'tops'
                return 'tops-same-frontier'
            # the tentative distance plus another distance (`combine(c, d_u)`, `c + d_u`): at least c, in general more
            if (s.k == 'CXXOperatorCallExpr' and s.op == '()' and len(s.c) == 4) or (s.k == 'BinaryOperator' and s.op == '+' and len(s.c) == 2):
                ops_ = s.c[2:4] if s.k == 'CXXOperatorCallExpr' else s.c
                qs_ = [quantities(o_) for o_ in ops_]
                if 'c' in qs_ and all(q_ in ('c', 'd_u') for q_ in qs_):
                    return 'c-plus'
            # a local defined once (e.g. const lower_bound = combine(top_f, top_b)) stands for its definition
            if v is not None and prog.vars[v].get('kind') == 'local' and qdepth[0] < 3:
                d = ex.unique_def(fn, v)
                if d is not None:
                    qdepth[0] += 1
                    try:
                        return quantities(d)
                    finally:
                        qdepth[0] -= 1
            return None
        qdepth = [0]

        def atomize(leaf):
            s = leaf.strip_all()
            if ex.var_of(s) == use_limit:
                return ex.f_atom('use_limit')
            v = ex.var_of(s)
            if v is not None and names.get(v) == 'best_path_set':
                return ex.f_atom('set')
            if s.k == 'CXXMemberCallExpr' and s.callee and s.callee['name'] == 'empty':
                return ex.f_atom(('empty', ex.key(s.object_arg())))
            lf_ = less_formula(fn, leaf, quantities)
            if lf_ is not None:
                # "a meeting point has been recorded" spelled through the sentinel: best_path starts at infinity and only ever decreases
                if set(ex.f_atoms(lf_)) == {('lt', 'best', 'inf')}:
                    return ex.f_atom('set') if ex.f_eval(lf_, {('lt', 'best', 'inf'): True}) else ex.f_not(ex.f_atom('set'))
                return lf_
            return None

        def implies_not_less(node, a, b, what, extra=None):
            pc = guards_formula(cfg, node, atomize)
            atoms = ex.f_atoms(pc)
            lt = ('lt', a, b)
            if lt not in atoms:
                if ex.opaque_nodes(fn, pc):
                    rep.undecided('R02i', node, fn, what, 'guard `%s` outside the idiom table' % ex.opaque_nodes(fn, pc)[0].text(40))
                else:
                    rep.violation('R02i', node, fn, what, 'the search is cut without comparing %s with %s' % (a, b), key='R02i|%s|%s-%s' % (fn.g, a, b))
                return
            rest = [x for x in atoms if x != lt]
            for vals in itertools.product((False, True), repeat=len(rest)):
                e = dict(zip(rest, vals))
                e[lt] = True
                if extra and not extra(e):
                    continue
                if ex.f_eval(pc, e):
                    rep.violation('R02i', node, fn, what,
                                  '`%s` is also taken when %s is still less than %s: a lighter odd cycle is discarded' % (node.text(40), a, b),
                                  key='R02i|%s|%s-%s' % (fn.g, a, b))
                    return
            rep.ok('R02i', node, fn, what, 'only when not less(%s, %s)' % (a, b))

        # (1) break of the main loop
        loops = [x for x in fn.body.c if x.k == 'WhileStmt']
        main = loops[0] if loops else None
        if main is None:
            rep.undecided('R02i', fn.body, fn, 'stopping rule of the bidirectional search', 'main loop not found')
            continue
        for b in main.body.walk():
            if b.k == 'BreakStmt' and b.enclosing('WhileStmt', 'ForStmt', 'DoStmt') is main:
                what = 'the search stops only with an empty frontier or when top_f + top_b is not less than the best path found'
                pc = guards_formula(cfg, b, atomize)
                atoms = ex.f_atoms(pc)
                lt = ('lt', 'tops', 'best')
                empties = [a for a in atoms if isinstance(a, tuple) and a[0] == 'empty']
                if ('lt', 'tops-same-frontier', 'best') in atoms:
                    rep.violation('R02i', b, fn, what, 'the stopping rule adds the minimum of ONE frontier to itself instead of top_f + top_b: with unbalanced '
                                  'frontiers the search stops while a lighter meeting point is still possible', key='R02i|%s|stop-operands' % fn.g)
                    continue
                if lt not in atoms:
                    rep.undecided('R02i', b, fn, what, 'stopping condition outside the idiom table')
                    continue
                rest = [x for x in atoms if x != lt and x not in empties and x != 'set']
                viol = None
                for vals in itertools.product((False, True), repeat=len(rest)):
                    for setv in (False, True):
                        e = dict(zip(rest, vals))
                        e.update({x: False for x in empties})
                        e['set'] = setv
                        e[lt] = True
                        e = {k: v for k, v in e.items() if k in atoms}
                        if ex.f_eval(pc, e):
                            viol = 'with both frontiers non-empty and top_f + top_b still less than the best path (best_path_set=%s)' % setv
                        e[lt] = False
                        e['set'] = False
                        e = {k: v for k, v in e.items() if k in atoms}
                        if 'set' in atoms and ex.f_eval(pc, e):
                            viol = 'before any meeting point was found (best_path_set is false)'
                if viol:
                    rep.violation('R02i', b, fn, what, 'the loop breaks ' + viol, key='R02i|%s|stop' % fn.g)
                else:
                    rep.ok('R02i', b, fn, what)
        # (2) not-found returns under the limit
        for r in ex.returns_of(fn):
            if not r.c:
                continue
            s = r.c[0].strip_all()
            if not (s.k == 'CallExpr' and s.callee and s.callee['g'] == 'std::make_tuple' and len(s.args()) == 3 and s.args()[2].strip_all().cv == 0):
                continue
            pc = guards_formula(cfg, r, atomize)
            atoms = ex.f_atoms(pc)
            if ('lt', 'd_u', 'limit') in atoms:
                implies_not_less(r, 'd_u', 'limit', 'the search is abandoned at a vertex only when its distance is not less than the weight limit')
            elif ('lt', 'best', 'limit') in atoms and any(
                    ex.formula(c_, lambda leaf: atomize(leaf) or ex.f_atom(('opaque', leaf.i))) is not None and
                    ('lt', 'best', 'limit') in ex.f_atoms(ex.formula(c_, lambda leaf: atomize(leaf) or ex.f_atom(('opaque', leaf.i))))
                    for (c_, _pol) in ex.ast_conditions(r)):
                # final: not found iff !set or (use_limit and !less(best, limit))
                what = 'the meeting point is discarded only when none was found or it is not lighter than the weight limit'
                lt = ('lt', 'best', 'limit')
                rest = [x for x in atoms if x not in (lt, 'set', 'use_limit')]
                if 'set' not in atoms and [x for x in rest if isinstance(x, tuple) and x and x[0] == 'opaque']:
                    on_ = fn.nodes.get([x for x in rest if isinstance(x, tuple) and x[0] == 'opaque'][0][1])
                    rep.undecided('R02i', r, fn, what, 'the "a meeting point was found" test is outside the idiom table (`%s`)' % (on_.text(40) if on_ is not None else '?'))
                    continue
                viol = False
                for vals in itertools.product((False, True), repeat=len(rest)):
                    e = dict(zip(rest, vals))
                    e.update({'set': True, 'use_limit': True, lt: True})
                    e = {k: v for k, v in e.items() if k in atoms}
                    if ex.f_eval(pc, e):
                        viol = True
                    e2 = dict(e)
                    e2['use_limit'] = False
                    e2[lt] = False
                    e2 = {k: v for k, v in e2.items() if k in atoms}
                    if 'use_limit' in atoms and ex.f_eval(pc, e2):
                        viol = True
                if viol:
                    rep.violation('R02i', r, fn, what, 'a found path that is lighter than the limit (or found without any limit) is reported as not found',
                                  key='R02i|%s|final' % fn.g)
                else:
                    rep.ok('R02i', r, fn, what)
        # (3) skip of an insertion under the limit
        for c in main.body.walk():
            if c.k == 'ContinueStmt':
                pc = guards_formula(cfg, c, atomize)
                # only a `continue` that is itself guarded by the limit comparison (an enclosing condition mentions it), not one that merely
                # comes after it on the path
                direct = False
                for (c_, _pol) in ex.ast_conditions(c):
                    f_ = ex.formula(c_, lambda leaf: atomize(leaf) or ex.f_atom(('opaque', leaf.i)))
                    if f_ is not None and ('lt', 'c', 'limit') in ex.f_atoms(f_):
                        direct = True
                if direct and ('lt', 'c', 'limit') in ex.f_atoms(pc):
                    implies_not_less(c, 'c', 'limit', 'a neighbour is not inserted only when its tentative distance is not less than the weight limit')
                inflated = False
                for (c_, _pol) in ex.ast_conditions(c):
                    f_ = ex.formula(c_, lambda leaf: atomize(leaf) or ex.f_atom(('opaque', leaf.i)))
                    if f_ is not None and ('lt', 'c-plus', 'limit') in ex.f_atoms(f_):
                        inflated = True
                if inflated and not direct:
                    lt_ = ('lt', 'c-plus', 'limit')
                    atoms_ = ex.f_atoms(pc)
                    rest_ = [x for x in atoms_ if x != lt_]
                    taken = False
                    for vals in itertools.product((False, True), repeat=len(rest_)):
                        e_ = dict(zip(rest_, vals))
                        e_[lt_] = False      # c + d_u >= limit, which happens with c < limit
                        if ex.f_eval(pc, e_):
                            taken = True
                    what_ = 'a neighbour is not inserted only when its tentative distance is not less than the weight limit'
                    if taken:
                        rep.violation('R02i', c, fn, what_, 'the insertion is skipped when the tentative distance PLUS another distance reaches the limit (`%s`): labels with '
                                      'c < limit that lie on a lighter odd cycle are never inserted (and the meeting test for them is skipped), so a heavier cycle is '
                                      'returned' % c.enclosing('IfStmt').cond.text(70), key='R02i|%s|c-limit' % fn.g)
        # (4) best meeting point
        for d in main.body.walk():
            if d.k in ('BinaryOperator',) and d.op == '=' and ex.var_of(d.c[0]) is not None and names.get(ex.var_of(d.c[0])) == 'best_path':
                what = 'the best meeting point is replaced iff the new path is less than the best so far'
                pc = guards_formula(cfg, d, atomize)
                atoms = ex.f_atoms(pc)
                lt = ('lt', 'path', 'best')
                if lt not in atoms:
                    rep.undecided('R02i', d, fn, what, 'guard outside the idiom table')
                    continue
                rest = [x for x in atoms if x != lt]
                taken_when_less = taken_when_not = False
                for vals in itertools.product((False, True), repeat=len(rest)):
                    e = dict(zip(rest, vals))
                    e1 = dict(e)
                    e1[lt] = True
                    e0 = dict(e)
                    e0[lt] = False
                    if ex.f_eval(pc, e1):
                        taken_when_less = True
                    if ex.f_eval(pc, e0):
                        taken_when_not = True
                # (5) the meeting test must run after *every* change of w's label: if it is conditioned on the value returned by
                # search_frontier::update, that value must be the same for "first found" and "label lowered"
                upd_atoms = [a_ for a_ in atoms if isinstance(a_, tuple) and a_[0] == 'opaque' and any(
                    x.k == 'CXXMemberCallExpr' and x.callee and x.callee['g'].endswith('search_frontier::update') for x in [fn.nodes[a_[1]].strip_all()] + list(fn.nodes[a_[1]].walk()))]
                for ua in upd_atoms:
                    whatm = 'the meeting test runs after every change of the label of w (first discovery and decrease-key alike)'
                    need = set()
                    others_ = [x for x in atoms if x != ua]
                    for vals in itertools.product((False, True), repeat=len(others_)):
                        for uv in (False, True):
                            e = dict(zip(others_, vals))
                            e[ua] = uv
                            if ex.f_eval(pc, e):
                                need.add(uv)
                    if len(need) != 1:
                        continue
                    need_v = list(need)[0]
                    # is the leaf itself negated inside the opaque node?  the atom is the whole leaf, so evaluate the call's value:
                    leaf = fn.nodes[ua[1]].strip_all()
                    neg = False
                    while leaf.k == 'UnaryOperator' and leaf.op == '!':
                        neg = not neg
                        leaf = leaf.c[0].strip_all()
                    want_ret = need_v != neg
                    table = update_return_table(prog)
                    if table is None:
                        rep.undecided('R02i', d, fn, whatm, 'return value of search_frontier::update not understood')
                        continue
                    first, lowered = table.get('first'), table.get('lowered')
                    if first == {want_ret} and lowered == {want_ret}:
                        rep.ok('R02i', d, fn, whatm, 'update() returns %s whenever it stored a label' % want_ret)
                    else:
                        rep.violation('R02i', d, fn, whatm,
                                      'the meeting test is only reached when update() returns %s, but update() returns %s on first discovery and %s when it '
                                      'lowers an existing label: a shorter path through w found by decrease-key is never combined with the other frontier, '
                                      'the search keeps a heavier meeting point' % (want_ret, sorted(first or []), sorted(lowered or [])),
                                      key='R02i|%s|meeting-after-update' % fn.g)
                if taken_when_less and not taken_when_not:
                    rep.ok('R02i', d, fn, what)
                else:
                    rep.violation('R02i', d, fn, what, 'the update is %s' % ('also taken for a path that is not less' if taken_when_not else 'never taken for a lighter path'),
                                  key='R02i|%s|best' % fn.g)
    return n
