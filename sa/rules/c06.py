"""C06 - approximation guarantee (2k-1), exact for k = 1, k = 0 rejected.

Claimed: the rejection clause and the structural premises of the bound; the numeric bound itself is value-level.
R06a  the rejecting guard, constant-folded with k := 0 in the arithmetic of its type, rejects (and accepts k >= 1),
      and dominates every use of the caller's iterator
R06b  each dropped edge is closed by parmcb::dijkstra on the spanner with the spanner's weight map
R06c  that Dijkstra runs to completion: it has no early exit inside the relaxation loop
premises shared with C15/C05: R15b (hop bound 2k-1), R15c (ascending scan), R05c (spanner weighted), R05e (exact phase not skipped)
"""
from lib import env, ex
from . import c05

TITLE = 'C06: k=0 rejection by abstract evaluation of the guard; structural premises of the (2k-1) bound.'
RULES = {'R06a': 1, 'R06b': 2, 'R06d': 2, 'R15b': 2, 'R15c': 1, 'R05c': 1, 'R05e': 5}


def r06c(rep, prog):
    what = 'parmcb::dijkstra leaves its main loop only when the queue is empty (or the popped vertex is the target)'
    n = 0
    for fn in prog.fns('parmcb::dijkstra'):
        n += 1
        loops = [x for x in fn.walk() if x.k in ('WhileStmt', 'ForStmt', 'DoStmt')]
        main = None
        for lp in loops:
            if lp.cond is not None and any(d.k == 'CXXMemberCallExpr' and d.callee and d.callee['name'] == 'empty' for d in lp.cond.walk()):
                main = lp
                break
        if main is None:
            rep.undecided('R06c', fn.body, fn, what, 'main queue loop not recognised')
            continue
        inner = [lp for lp in loops if lp is not main and main.is_ancestor_of(lp)]
        bad = []
        for x in main.body.walk():
            if x.k in ('ReturnStmt', 'GotoStmt'):
                bad.append(x)
            if x.k == 'BreakStmt':
                # a break that leaves the main loop (not an inner one)
                enc = x.enclosing('WhileStmt', 'ForStmt', 'DoStmt', 'CXXForRangeStmt', 'SwitchStmt')
                if enc is main:
                    bad.append(x)
        bad_in_relax = [x for x in bad if any(lp.is_ancestor_of(x) for lp in inner)]
        if bad_in_relax:
            x = bad_in_relax[0]
            rep.violation('R06c', x, fn, what,
                          '`%s` inside the edge-relaxation loop ends the search when a vertex is first *discovered*, before its '
                          'distance is final: the closing path is not a shortest path' % x.text(30), key='R06c|%s|early-exit' % fn.g)
        elif bad:
            rep.undecided('R06c', bad[0], fn, what, 'early exit in the main loop outside the relaxation loop: target test not decidable here')
        else:
            rep.ok('R06c', main, fn, what, 'no early exit')
    return n


def run(rep, tier):
    c05.run_rules(rep, tier, list(RULES), RULES)
    rep.rule('R06c', 'closing-path Dijkstra has no early exit in the relaxation loop', floor=1)
    progs = env.extract([env.witness_tu()], 'full')
    n = 0
    for prog in progs.values():
        n += r06c(rep, prog)
    if n == 0:
        rep.analysis_broken('parmcb::dijkstra is not instantiated (anchor vanished)')
    # the hop test the spanner construction relies on (shared with C15)
    from . import c15
    rep.rule('R15f', 'bounded BFS answers true only within the hop bound (an edge is dropped only when a path of <= 2k-1 retained edges exists)', floor=1)
    rep.rule('R15g', 'hop counters of the bounded BFS are as wide as the hop bound', floor=1)
    rep.rule('R15h', 'the bounded BFS discovers every unseen neighbour within the bound', floor=1)
    nb = 0
    rep.rule('R07k', 'numeric_limits<T>::infinity() only for floating-point T (closed_plus<size_t> counts the hops of the spanner test)', floor=0)
    from . import c07
    for prog in progs.values():
        nb += c15.r15f(rep, prog)
        c15.r15g(rep, prog)
        c15.r15h(rep, prog)
        c07.r07k(rep, prog)
    if nb == 0:
        rep.analysis_broken('parmcb::is_bfs_reachable is not instantiated (anchor vanished)')
    c15.r02h_bfs(rep, names=('is_bfs_reachable', 'dijkstra'))      # the closing paths come from parmcb::dijkstra on the spanner
    rep.assume('the numeric (2k-1) bound follows from the premises by the standard greedy-spanner argument; that argument is not mechanised here')
