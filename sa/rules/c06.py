"""C06 - approximation guarantee (2k-1), exact for k = 1, k = 0 rejected.

Claimed: the rejection clause and the structural premises of the bound; the numeric bound itself is value-level.
R06a  the rejecting guard, constant-folded with k := 0 in the arithmetic of its type, rejects (and accepts k >= 1),
      and dominates every use of the caller's iterator
R06b  each dropped edge is closed by parmcb::dijkstra on the spanner with the spanner's weight map
R06c  that Dijkstra runs to completion: it has no early exit inside the relaxation loop
premises shared with C15/C05: R15b (hop bound 2k-1), R15c (ascending scan), R05c (spanner weighted), R05e (exact phase not skipped)
"""
from lib import env, ex
from . import c05

TITLE = 'C06: k=0 rejection by abstract evaluation of the guard; structural premises of the (2k-1) bound.'
RULES = {'R06a': 1, 'R06b': 2, 'R06d': 2, 'R15b': 2, 'R15c': 1, 'R05c': 1, 'R05e': 5}


def r06c(rep, prog):
    what = 'parmcb::dijkstra leaves its main loop only when the queue is empty (or the popped vertex is the target)'
    n = 0
    for fn in prog.fns('parmcb::dijkstra'):
        n += 1
        loops = [x for x in fn.walk() if x.k in ('WhileStmt', 'ForStmt', 'DoStmt')]
        main = None
        for lp in loops:
            if lp.cond is not None and any(d.k == 'CXXMemberCallExpr' and d.callee and d.callee['name'] == 'empty' for d in lp.cond.walk()):
                main = lp
                break
        if main is None:
            rep.undecided('R06c', fn.body, fn, what, 'main queue loop not recognised')
            continue
        inner = [lp for lp in loops if lp is not main and main.is_ancestor_of(lp)]
        bad = []
        for x in main.body.walk():
            if x.k in ('ReturnStmt', 'GotoStmt'):
                bad.append(x)
            if x.k == 'BreakStmt':
                # a break that leaves the main loop (not an inner one)
                enc = x.enclosing('WhileStmt', 'ForStmt', 'DoStmt', 'CXXForRangeStmt', 'SwitchStmt')
                if enc is main:
                    bad.append(x)
        bad_in_relax = [x for x in bad if any(lp.is_ancestor_of(x) for lp in inner)]
        if bad_in_relax:
            x = bad_in_relax[0]
            rep.violation('R06c', x, fn, what,
                          '`%s` inside the edge-relaxation loop ends the search when a vertex is first *discovered*, before its '
                          'distance is final: the closing path is not a shortest path' % x.text(30), key='R06c|%s|early-exit' % fn.g)
        elif bad:
            rep.undecided('R06c', bad[0], fn, what, 'early exit in the main loop outside the relaxation loop: target test not decidable here')
        else:
            rep.ok('R06c', main, fn, what, 'no early exit')
    return n


def check_dijkstra_pred(rep, prog):
    """R06e: in parmcb::dijkstra every path that stores a (new or improved) distance for w also stores the predecessor (true, relaxing edge) of
    w: the closing path of a dropped edge is traced along predecessors, so an improved distance with a stale predecessor makes the emitted
    cycle run over the edge through which w was *first* reached (valid cycle, wrong weight: the (2k-1) bound is lost)."""
    what = 'every relaxation of parmcb::dijkstra stores the predecessor edge together with the distance'
    n = 0
    for fn in prog.fns('parmcb::dijkstra'):
        cfg = fn.cfg
        if cfg is None or len(fn.param_ids) < 5:
            continue
        distp, predp = fn.param_ids[3], fn.param_ids[4]
        stores = []          # (node, map var, key)
        for c in fn.walk():
            if c.k == 'CallExpr' and c.callee and c.callee['g'] == 'boost::put' and len(c.args()) == 3 and ex.var_of(c.args()[0]) in (distp, predp):
                stores.append((c, ex.var_of(c.args()[0]), ex.key(c.args()[1])))
            if c.k in ('CXXOperatorCallExpr', 'BinaryOperator') and c.op == '=':
                l_ = (c.c[1] if c.k == 'CXXOperatorCallExpr' else c.c[0]).strip_all()
                if l_.k == 'DeclRefExpr':
                    l_ = ex.alias_of(fn, l_) or l_
                if l_.k == 'CXXOperatorCallExpr' and l_.op == '[]' and len(l_.c) == 3 and ex.var_of(l_.c[1]) in (distp, predp):
                    stores.append((c, ex.var_of(l_.c[1]), ex.key(l_.c[2])))
                if l_.k == 'CallExpr' and l_.callee and l_.callee['g'] == 'boost::get' and len(l_.args()) == 2 and ex.var_of(l_.args()[0]) in (distp, predp):
                    stores.append((c, ex.var_of(l_.args()[0]), ex.key(l_.args()[1])))
        loop_stores = [s_ for s_ in stores if s_[0].enclosing('ForStmt', 'CXXForRangeStmt') is not None]
        if not loop_stores:
            continue
        n += 1
        bad = None
        for (d, mv, k_) in loop_stores:
            if mv != distp:
                continue
            pd = cfg.pos_of(d)
            mates = [p_ for (p_, mv2, k2) in loop_stores if mv2 == predp and k2 == k_ and cfg.pos_of(p_) and pd and
                     (cfg.pos_of(p_)[0] == pd[0] or cfg.block_dominates(cfg.pos_of(p_)[0], pd[0]) and False or
                      (cfg.block_dominates(pd[0], cfg.pos_of(p_)[0]) and cfg.block_postdominates(cfg.pos_of(p_)[0], pd[0])))]
            if not mates:
                bad = d
                break
        if bad is not None and any(mv2 == predp for (_p, mv2, _k) in loop_stores):
            rep.violation('R06e', bad, fn, what, '`%s` (line %d) stores a distance on a path that does not store the predecessor of the same vertex: after a decrease the '
                          'predecessor tree still points along the first, longer way' % (bad.text(40), bad.line), key='R06e|%s|stale-pred' % fn.g)
        elif bad is not None:
            rep.undecided('R06e', bad, fn, what, 'no predecessor store recognised in the relaxation loop')
        else:
            rep.ok('R06e', loop_stores[0][0], fn, what, '%d distance store(s), each paired with a predecessor store' % len([1 for s_ in loop_stores if s_[1] == distp]))
    return n


def check_entry_points_k(rep, prog):
    """R06a (entry points): the public approx_mcb_sva_* functions hand every k to the algorithm object, which rejects k < 1.  A return in
    front of that - a "k <= 1 needs no spanner" shortcut into the exact algorithm - answers k = 0 with a basis instead of the
    documented exception.  The guards of every conditional return are evaluated with k := 0 in the arithmetic of their types."""
    what = 'no public approximate entry point answers k = 0 without reaching the k check of the algorithm object'
    n = 0
    for fn in prog.functions:
        if fn.implicit or fn.body is None or not fn.g.startswith('parmcb::approx_mcb_sva_') or fn.cfg is None:
            continue
        kp = [p_ for p_ in fn.param_ids if prog.vars[p_]['name'] == 'k']
        if not kp and len(fn.param_ids) >= 3:
            kp = [fn.param_ids[2]]
        if not kp:
            continue
        kp = kp[0]
        n += 1
        bad = und = None
        for r in ex.returns_of(fn):
            conds = ex.ast_conditions(r)
            if not conds:
                continue
            rv = r.c[0].strip_all() if r.c else None
            if rv is not None and rv.k in ex.CALL_KINDS and rv.callee and rv.callee['g'].startswith('parmcb::approx_mcb_sva_') and \
                    any(ex.var_of(a_) == kp for a_ in rv.args()):
                continue            # delegation to a sibling entry point with the same k
            try:
                holds = all(bool(ex.ceval(c_, lambda x_: 0 if ex.var_of(x_) == kp else None)) == pol_ for (c_, pol_) in conds)
            except ex.Unknown:
                und = r
                continue
            if holds:
                bad = (r, conds[-1][0])
        if bad:
            rep.violation('R06a', bad[0], fn, what, '`%s` (taken when `%s`, which holds for k = 0) returns a result for k = 0: the exception for an invalid k is never '
                          'raised and cycles are emitted' % (bad[0].text(50), bad[1].text(30)), key='R06a|%s|entry-shortcut' % fn.g)
        elif und is not None:
            rep.undecided('R06a', und, fn, what, 'a conditional return whose guard is not an integer expression over k')
        else:
            rep.ok('R06a', fn.body, fn, what, 'every return goes through the algorithm object')
    return n


def run(rep, tier):
    c05.run_rules(rep, tier, list(RULES), RULES)
    rep.rule('R06c', 'closing-path Dijkstra has no early exit in the relaxation loop', floor=1)
    rep.rule('R06e', 'closing-path Dijkstra stores the predecessor with every distance it stores', floor=1)
    progs = env.extract([env.witness_tu()], 'full')
    n = 0
    for prog in progs.values():
        n += r06c(rep, prog)
        check_entry_points_k(rep, prog)
        check_dijkstra_pred(rep, prog)
    if n == 0:
        rep.analysis_broken('parmcb::dijkstra is not instantiated (anchor vanished)')
    # the hop test the spanner construction relies on (shared with C15)
    from . import c15
    rep.rule('R15f', 'bounded BFS answers true only within the hop bound (an edge is dropped only when a path of <= 2k-1 retained edges exists)', floor=1)
    rep.rule('R15g', 'hop counters of the bounded BFS are as wide as the hop bound', floor=1)
    rep.rule('R15h', 'the bounded BFS discovers every unseen neighbour within the bound', floor=1)
    nb = 0
    rep.rule('R07k', 'numeric_limits<T>::infinity() only for floating-point T (closed_plus<size_t> counts the hops of the spanner test)', floor=0)
    from . import c07
    for prog in progs.values():
        nb += c15.r15f(rep, prog)
        c15.r15g(rep, prog)
        c15.r15h(rep, prog)
        c07.r07k(rep, prog)
    if nb == 0:
        rep.analysis_broken('parmcb::is_bfs_reachable is not instantiated (anchor vanished)')
    c15.r02h_bfs(rep, names=('is_bfs_reachable', 'dijkstra'))      # the closing paths come from parmcb::dijkstra on the spanner
    rep.assume('the numeric (2k-1) bound follows from the premises by the standard greedy-spanner argument; that argument is not mechanised here')
