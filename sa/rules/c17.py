"""C17 - SpVecGF2 implements GF(2) vector arithmetic in canonical form (and A9 merge tables, shared with C18).

R17a  operator+ / operator* are two-cursor merges whose per-ordering action table is the table of symmetric
      difference / parity of the intersection; any shortcut placed in front of the merge concatenates the operands
      only under a guard that implies max(first) < min(second) strictly                                   (A9, A3)
R17b  every source of `ones` is canonical: unit constructor, std::set constructor (default comparator), copy/move
      constructor and assignment copy every member, size/begin/end/clear forward to `ones`
R17c  compound operators are safe under self-aliasing (x += x): own storage is not modified before the argument
      is read, unless guarded by this == &v
"""
import os

from lib import env, ex, par
from .c10 import guards_formula

TITLE = 'C17: action tables of the merge loops, strictness of shortcut guards, canonical sources of the coordinate list, aliasing of compound operators.'

CLS = 'parmcb::SpVecGF2'


# ------------------------------------------------------------------------------------------------ merge model
def storage_owner(prog, fn, expr):
    """'this' / 'arg' if expr denotes the coordinate storage of *this / of the (first) parameter"""
    s = expr.strip_all()
    pid = fn.param_ids[0] if fn.param_ids else None
    if s.k == 'MemberExpr' and s.decl and s.decl.get('kind') == 'field' and s.c:
        b = s.c[0].strip_all()
        if b.k == 'CXXThisExpr':
            return 'this'
        if ex.var_of(b) == pid:
            return 'arg'
    if ex.var_of(s) == pid and pid is not None:
        return 'arg'      # std::set<U> parameter
    return None


def cursor_vars(prog, fn):
    """var -> (owner, 'begin'|'end')"""
    res = {}
    for n in fn.walk():
        if n.k == 'VarDecl' and n.c:
            d = n.c[0].strip_all()
            if d.k == 'CXXMemberCallExpr' and d.callee and d.callee['name'] in ('begin', 'end', 'cbegin', 'cend'):
                o = storage_owner(prog, fn, d.object_arg())
                if o:
                    res[n.decl_id] = (o, 'begin' if 'begin' in d.callee['name'] else 'end')
    return res


def deref_of(n, cursors):
    """owner if n is *cursor (begin cursor)"""
    s = n.strip_all()
    ops = None
    if s.k == 'CXXOperatorCallExpr' and s.op == '*':
        ops = s.c[1:]
    elif s.k == 'UnaryOperator' and s.op == '*':
        ops = s.c
    if ops:
        v = ex.var_of(ops[0])
        if v in cursors and cursors[v][1] == 'begin':
            return cursors[v][0]
    return None


class MergeModel(object):
    def __init__(self, prog, fn):
        self.prog = prog
        self.fn = fn
        self.cursors = cursor_vars(prog, fn)
        self.cur = {}       # var -> ('idx'|'val'|'entry', owner)
        self.acc = None
        self.problems = []
        self.res_var = None
        self.diff = {}      # var -> (owner of minuend, owner of subtrahend, 'signed'|'unsigned'|'lossy', decl node)

    def _idx_owner(self, e):
        """owner if e denotes the current coordinate of an operand (an idx local or *cursor)"""
        v = ex.var_of(e)
        d = self.cur.get(v)
        if d and d[0] == 'idx':
            return d[1]
        s = e.strip_all()
        if s.k == 'CallExpr' and s.callee and s.callee['g'] in ('boost::get', 'boost::tuples::get', 'std::get') and s.args():
            ta = s.callee.get('targs') or []
            which = ta[0].get('int') if ta and isinstance(ta[0], dict) else None
            ea = s.args()[-1] if s.callee['g'] != 'std::get' else s.args()[0]
            if which == 0:
                o = deref_of(ea, self.cursors)
                if o:
                    return o
                ev = ex.var_of(ea)
                if ev in self.cur and self.cur[ev][0] == 'entry':
                    return self.cur[ev][1]
            return None
        return deref_of(e, self.cursors)

    def classify_locals(self, body):
        for n in body.walk():
            if n.k == 'VarDecl' and n.c:
                d0 = n.c[0].strip_all()
                if d0.k == 'BinaryOperator' and d0.op == '-':
                    oa, ob = self._idx_owner(d0.c[0]), self._idx_owner(d0.c[1])
                    if oa and ob and oa != ob:
                        dw, ds = int_shape(self.prog, n.j.get('t'))
                        ow, _os = int_shape(self.prog, d0.j.get('t'))
                        if dw is None or ow is None:
                            kind = None
                        elif dw < ow:
                            kind = 'lossy'
                        else:
                            kind = 'signed' if ds else 'unsigned'
                        if kind:
                            self.diff[n.decl_id] = (oa, ob, kind, n)
                            continue
                o = deref_of(n.c[0], self.cursors)
                if o:
                    # GF2: the element is the index; FP: the element is an entry
                    t = self.prog.base_type(n.j.get('t')) or {}
                    self.cur[n.decl_id] = ('entry' if (t.get('rec') or '').endswith('tuple') else 'idx', o)
                    continue
                d = n.c[0].strip_all()
                if d.k == 'CallExpr' and d.callee and d.callee['g'] in ('boost::get', 'boost::tuples::get', 'std::get') and d.args():
                    ea = d.args()[-1] if d.callee['g'] != 'std::get' else d.args()[0]
                    ev = ex.var_of(ea)
                    ta = d.callee.get('targs') or []
                    which = ta[0].get('int') if ta and isinstance(ta[0], dict) else None
                    if ev in self.cur and self.cur[ev][0] == 'entry':
                        self.cur[n.decl_id] = ('idx' if which == 0 else 'val', self.cur[ev][1])
                    elif deref_of(ea, self.cursors):
                        # component read straight through the cursor: get<0>(*it)
                        self.cur[n.decl_id] = ('idx' if which == 0 else 'val', deref_of(ea, self.cursors))

    def value_desc(self, n):
        """symbolic description of a pushed value"""
        s = n.strip_all()
        v = ex.var_of(s)
        if v in self.cur:
            return self.cur[v]
        o = deref_of(s, self.cursors)
        if o:
            # GF2: the element is the coordinate itself
            return ('idx', o) if (self.prog.base_type(s.j.get('t')) or {}).get('int') else ('elem', o)
        if s.k == 'CallExpr' and s.callee and s.callee['name'] in ('make_tuple', 'make_pair') and len(s.args()) == 2:
            return ('tuple', self.value_desc(s.args()[0]), self.value_desc(s.args()[1]))
        if s.k in ex.CTOR_KINDS and len(s.c) == 2:
            return ('tuple', self.value_desc(s.c[0]), self.value_desc(s.c[1]))
        if v is not None:
            return ('var', v)
        return ('expr', s.text(30))

    def actions(self, stmt, order):
        """list of actions executed by stmt when the current indices compare as `order` in {'lt','eq','gt'} (this vs arg)"""
        acts = []
        self._walk(stmt, order, acts)
        return acts

    def _cond(self, c, order):
        def atomize(leaf):
            s = leaf.strip_all()
            if s.k == 'BinaryOperator' and s.op in ('<', '>', '<=', '>=', '==', '!='):
                a, b = ex.var_of(s.c[0]), ex.var_of(s.c[1])
                lt, eq, gt = ex.f_atom('lt'), ex.f_atom('eq'), ex.f_atom('gt')
                # three-way comparison through a stored difference:  d = a - b;  d OP 0
                for (x, y, flip) in ((a, s.c[1], False), (b, s.c[0], True)):
                    if x in self.diff and y.strip_all().cv == 0:
                        oa, ob, kind, dn = self.diff[x]
                        op = s.op
                        if flip:
                            op = {'<': '>', '>': '<', '<=': '>=', '>=': '<='}.get(op, op)
                        if kind == 'lossy':
                            msg = ('the coordinates are compared through their difference stored in the narrower type %s (line %d): '
                                   'coordinates that differ by a multiple of 2^32 compare equal and differences beyond the range change sign' % (
                                       (self.prog.base_type(dn.j.get('t')) or {}).get('s', '?'), dn.line))
                            if msg not in self.problems:
                                self.problems.append(msg)
                        if oa == 'arg':
                            op = {'<': '>', '>': '<', '<=': '>=', '>=': '<='}.get(op, op)
                        if kind == 'unsigned':
                            ne = ex.f_or(lt, gt)
                            return {'<': ex.FALSE, '>': ne, '<=': eq, '>=': ex.TRUE, '==': eq, '!=': ne}[op]
                        return {'<': lt, '>': gt, '<=': ex.f_or(lt, eq), '>=': ex.f_or(gt, eq), '==': eq, '!=': ex.f_or(lt, gt)}[op]
                oa, ob = self._idx_owner(s.c[0]), self._idx_owner(s.c[1])
                da, db = (('idx', oa) if oa else None), (('idx', ob) if ob else None)
                if da and db and da[0] == 'idx' and db[0] == 'idx' and da[1] != db[1]:
                    op = s.op
                    if da[1] == 'arg':
                        op = {'<': '>', '>': '<', '<=': '>=', '>=': '<=', '==': '==', '!=': '!='}[op]
                    return {'<': lt, '>': gt, '<=': ex.f_or(lt, eq), '>=': ex.f_or(gt, eq), '==': eq, '!=': ex.f_or(lt, gt)}[op]
            return None
        f = ex.formula(c, atomize)
        if f is None:
            return None
        atoms = ex.f_atoms(f)
        if any(a not in ('lt', 'eq', 'gt') for a in atoms):
            return None
        return ex.f_eval(f, {'lt': order == 'lt', 'eq': order == 'eq', 'gt': order == 'gt'})

    def _walk(self, s, order, acts):
        k = s.k
        if k == 'CompoundStmt':
            for c in s.c:
                if self._walk(c, order, acts):
                    return True
            return
        if k == 'ContinueStmt':
            return True         # the rest of the iteration is skipped
        if k == 'IfStmt':
            v = self._cond(s.cond, order)
            if v is None:
                # a condition on something else (e.g. v != 0 before pushing): record as a guarded block
                sub = []
                self._walk(s.then, order, sub)
                acts.append(('if', s.cond, sub))
                if s.els is not None:
                    sub2 = []
                    self._walk(s.els, order, sub2)
                    acts.append(('else', s.cond, sub2))
                return
            if v:
                return self._walk(s.then, order, acts)
            elif s.els is not None:
                return self._walk(s.els, order, acts)
            return
        if k in ('DeclStmt', 'NullStmt'):
            for n in s.walk():
                if n.k == 'VarDecl' and n.c and n.decl_id not in self.cur:
                    acts.append(('def', n.decl_id, n.c[0]))
            return
        if k in ('WhileStmt', 'ForStmt', 'DoStmt'):
            acts.append(('loop', s))
            return
        e = s.strip_all() if hasattr(s, 'strip_all') else s
        # it++ / ++it
        if e.k in ('CXXOperatorCallExpr', 'UnaryOperator') and e.op in ('++',):
            ops = e.c[1:] if e.k == 'CXXOperatorCallExpr' else e.c
            v = ex.var_of(ops[0])
            if v in self.cursors and self.cursors[v][1] == 'begin':
                acts.append(('adv', self.cursors[v][0]))
                return
        if e.k == 'CXXMemberCallExpr' and e.callee and e.callee['name'] in ('push_back', 'emplace_back'):
            acts.append(('push', self.value_desc(e.args()[0]) if len(e.args()) == 1 else ('tuple',) + tuple(self.value_desc(a) for a in e.args())))
            return
        # *out++ = x  with  out = std::back_inserter(container): the same append
        if e.k == 'CXXOperatorCallExpr' and e.op == '=' and len(e.c) == 3:
            l_ = e.c[1].strip_all()
            hops_ = 0
            while l_.k == 'CXXOperatorCallExpr' and l_.op in ('*', '++') and len(l_.c) >= 2 and hops_ < 4:
                l_ = l_.c[1].strip_all()
                hops_ += 1
            ov_ = ex.var_of(l_)
            if ov_ is not None and hops_ > 0:
                decl_ = [x for (x, r_) in ex.assignments_to(self.fn, ov_) if x.k == 'VarDecl' and r_ is not None]
                reassigned_ = [x for (x, r_) in ex.assignments_to(self.fn, ov_) if x.k in ('BinaryOperator',) or (x.k == 'CXXOperatorCallExpr' and x.op == '=')]
                dd_ = decl_[0].c[0].strip_all() if len(decl_) == 1 and not reassigned_ else None
                if dd_ is not None and dd_.k == 'CallExpr' and dd_.callee and dd_.callee['name'] == 'back_inserter':
                    acts.append(('push', self.value_desc(e.c[2])))
                    return
        # res++ / ++res on a non-cursor variable: a counting accumulator
        if e.k == 'UnaryOperator' and e.op == '++' and ex.var_of(e.c[0]) is not None and ex.var_of(e.c[0]) not in self.cursors:
            acts.append(('inc', ex.var_of(e.c[0]), e))
            return
        # accumulator toggles / updates
        if e.k in ('BinaryOperator', 'CompoundAssignOperator') and e.op in ('=', '^=', '+=') and ex.var_of(e.c[0]) is not None:
            acts.append(('assign', ex.var_of(e.c[0]), e))
            return
        if e.k == 'CXXOperatorCallExpr' and e.op in ('=', '+=', '-=') and len(e.c) == 3 and ex.var_of(e.c[1]) is not None:
            acts.append(('assign', ex.var_of(e.c[1]), e))
            return
        acts.append(('other', e))


INT_SHAPES = {'char': (8, True), 'signed char': (8, True), 'unsigned char': (8, False), 'short': (16, True), 'unsigned short': (16, False),
              'int': (32, True), 'unsigned int': (32, False), 'long': (64, True), 'unsigned long': (64, False),
              'long long': (64, True), 'unsigned long long': (64, False)}


def int_shape(prog, t):
    """(width, signed) of an integer type on the analysed target (LP64), (None, None) otherwise"""
    bt = prog.base_type(t) or {}
    c = (bt.get('canon') or '').replace('const ', '').strip()
    return INT_SHAPES.get(c, (None, None))


def is_toggle(prog, e, acc):
    """r = (r + 1) % 2 | r ^= 1 | r = 1 - r | r = !r"""
    if e.k == 'CompoundAssignOperator' and e.op == '^=' and e.c[1].strip_all().cv == 1:
        return True
    if e.k == 'BinaryOperator' and e.op == '=':
        r = e.c[1].strip_all()
        if r.k == 'BinaryOperator' and r.op == '%' and r.c[1].strip_all().cv == 2:
            inner = r.c[0].strip_all()
            if inner.k == 'BinaryOperator' and inner.op == '+':
                a, b = inner.c[0].strip_all(), inner.c[1].strip_all()
                return (ex.var_of(a) == acc and b.cv == 1) or (ex.var_of(b) == acc and a.cv == 1)
        if r.k == 'BinaryOperator' and r.op == '-' and r.c[0].strip_all().cv == 1 and ex.var_of(r.c[1]) == acc:
            return True
        if r.k == 'UnaryOperator' and r.op == '!' and ex.var_of(r.c[0]) == acc:
            return True
        if r.k == 'BinaryOperator' and r.op == '^' and ((ex.var_of(r.c[0]) == acc and r.c[1].strip_all().cv == 1)):
            return True
    return False


def find_main_loop(prog, fn, cursors):
    for n in fn.body.c:
        if n.k == 'WhileStmt' and n.cond is not None:
            vs = ex.vars_in(n.cond)
            owners = set(cursors[v][0] for v in vs if v in cursors and cursors[v][1] == 'begin')
            top = n.cond.strip_all()
            if top.k == 'BinaryOperator' and top.op == '||':
                continue        # merge and tails fused into one loop (`while (a_left || b_left)`): outside the two-cursor model
            if owners == {'this', 'arg'}:
                return n
    return None


def is_assert_stmt(st):
    """an `assert(...)` statement (analysed with NDEBUG undefined): it has no effect on the state, its failure branch does not return"""
    return any(x.k == 'CallExpr' and x.callee and x.callee['name'].startswith('__assert') for x in st.walk()) and \
        not any(x.k in ('ReturnStmt', 'BinaryOperator') and (x.k == 'ReturnStmt' or x.op == '=') for x in st.walk())


def check_shortcuts(rep, prog, fn, main, rule, what):
    """statements in front of the merge loop other than declarations"""
    ok = True
    for st in fn.body.c:
        if st is main:
            break
        if st.k == 'DeclStmt':
            continue
        e = st.strip_all() if st.k not in ('IfStmt',) else st
        if e.k == 'CXXMemberCallExpr' and e.callee and e.callee['name'] in ('reserve',):
            continue
        if is_assert_stmt(st):
            continue
        if e.k == 'IfStmt':
            verdict, detail = judge_shortcut(prog, fn, e)
            if verdict == 'ok':
                rep.ok(rule, e, fn, 'shortcut in front of the merge is only taken when the operands cannot interleave', detail)
            elif verdict == 'violation':
                rep.violation(rule, e, fn, 'shortcut in front of the merge is only taken when the operands cannot interleave', detail,
                              key='%s|%s|shortcut' % (rule, fn.g))
                ok = False
            else:
                rep.undecided(rule, e, fn, what, detail)
                ok = False
            continue
        rep.undecided(rule, st, fn, what, 'statement `%s` in front of the merge loop is not in the idiom table' % st.text(50))
        ok = False
    return ok


def end_desc(prog, fn, n, cursors):
    """('this'|'arg', 'min'|'max') if n denotes the smallest / largest coordinate of an operand"""
    s = n.strip_all()
    if s.k == 'CXXMemberCallExpr' and s.callee and s.callee['name'] in ('back', 'front'):
        o = storage_owner(prog, fn, s.object_arg())
        if o:
            return (o, 'max' if s.callee['name'] == 'back' else 'min')
    o = deref_of(s, cursors)
    if o:
        return (o, 'min')
    if s.k in ('CXXOperatorCallExpr', 'UnaryOperator') and s.op == '*':
        ops = s.c[1:] if s.k == 'CXXOperatorCallExpr' else s.c
        inner = ops[0].strip_all()
        if inner.k == 'CXXMemberCallExpr' and inner.callee and inner.callee['name'] in ('begin', 'rbegin', 'cbegin'):
            o = storage_owner(prog, fn, inner.object_arg())
            if o:
                return (o, 'max' if inner.callee['name'] == 'rbegin' else 'min')
    return None


def judge_shortcut(prog, fn, ifs):
    cursors = cursor_vars(prog, fn)
    then = ifs.then
    rets = [r for r in then.walk() if r.k == 'ReturnStmt']
    if not rets:
        return 'undecided', 'conditional block in front of the merge does not return'
    # simple empty-operand shortcuts: if (ones.empty()) return v;  if (v.ones.empty()) return *this;
    c = ifs.cond.strip_all()
    if c.k == 'CXXMemberCallExpr' and c.callee and c.callee['name'] == 'empty':
        o = storage_owner(prog, fn, c.object_arg())
        r = rets[0].c[0].strip_all() if rets[0].c else None
        if o == 'this' and r is not None and ex.var_of(r) == fn.param_ids[0]:
            return 'ok', 'empty left operand: returns the right operand'
        if o == 'arg' and r is not None and ((r.k == 'UnaryOperator' and r.op == '*') or r.k == 'CXXThisExpr' or
                                             (r.k == 'CXXConstructExpr' and r.c and 'This' in r.c[0].strip_all().k)):
            return 'ok', 'empty right operand: returns *this'
        return 'undecided', 'empty-operand shortcut returns something unexpected'
    # concatenation shortcut: res.ones.insert(res.ones.end(), <range of S>) in sequence
    order = []
    for st in then.walk():
        if st.k == 'CXXMemberCallExpr' and st.callee and st.callee['name'] == 'insert' and len(st.args()) == 3:
            a = st.args()[1].strip_all()
            o = None
            if a.k == 'CXXMemberCallExpr' and a.callee['name'] in ('begin', 'cbegin'):
                o = storage_owner(prog, fn, a.object_arg())
            elif ex.var_of(a) in cursors:
                o = cursors[ex.var_of(a)][0]
            order.append(o)
        if st.k == 'CallExpr' and st.callee and st.callee['g'] == 'std::copy' and len(st.args()) == 3:
            a = st.args()[0].strip_all()
            o = None
            if a.k == 'CXXMemberCallExpr' and a.callee['name'] in ('begin', 'cbegin'):
                o = storage_owner(prog, fn, a.object_arg())
            elif ex.var_of(a) in cursors:
                o = cursors[ex.var_of(a)][0]
            order.append(o)
    if len(order) != 2 or None in order or order[0] == order[1]:
        return 'undecided', 'shortcut body is not a concatenation of the two operands'
    first, second = order

    def atomize(leaf):
        s = leaf.strip_all()
        if s.k == 'BinaryOperator' and s.op in ('<', '>', '<=', '>=', '==', '!='):
            da, db = end_desc(prog, fn, s.c[0], cursors), end_desc(prog, fn, s.c[1], cursors)
            if da and db:
                op = s.op
                if da == (first, 'max') and db == (second, 'min'):
                    pass
                elif db == (first, 'max') and da == (second, 'min'):
                    op = {'<': '>', '>': '<', '<=': '>=', '>=': '<=', '==': '==', '!=': '!='}[op]
                else:
                    return ex.f_atom(('wrong-ends', leaf.i))
                lt, eq, gt = ex.f_atom('lt'), ex.f_atom('eq'), ex.f_atom('gt')
                return {'<': lt, '>': gt, '<=': ex.f_or(lt, eq), '>=': ex.f_or(gt, eq), '==': eq, '!=': ex.f_or(lt, gt)}[op]
        return ex.f_atom(('free', leaf.i))
    f = ex.formula(ifs.cond, atomize)
    if f is None:
        return 'undecided', 'shortcut guard not understood'
    atoms = ex.f_atoms(f)
    if any(isinstance(a, tuple) and a[0] == 'wrong-ends' for a in atoms):
        return 'violation', 'the guard compares the wrong ends of the operands for a concatenation of (%s, %s)' % (first, second)
    if not any(a in ('lt', 'eq', 'gt') for a in atoms):
        return 'violation', 'operands are concatenated without comparing max(%s) with min(%s)' % (first, second)
    import itertools
    free = [a for a in atoms if a not in ('lt', 'eq', 'gt')]
    for which in ('eq', 'gt'):
        for vals in itertools.product((False, True), repeat=len(free)):
            e = dict(zip(free, vals))
            e.update({'lt': False, 'eq': which == 'eq', 'gt': which == 'gt'})
            if ex.f_eval(f, e):
                if which == 'eq':
                    return 'violation', ('the operands are concatenated when max(%s) == min(%s): the shared coordinate is kept twice instead of '
                                         'cancelling (1 + 1 = 0), the result is not strictly increasing' % (first, second))
                return 'violation', 'the operands are concatenated when max(%s) > min(%s): the result is not sorted' % (first, second)
    return 'ok', 'concatenation (%s, %s) only when max(%s) < min(%s)' % (first, second, first, second)


def check_plus(rep, prog, fn, rule='R17a'):
    what = 'operator+ is the symmetric difference of two strictly increasing coordinate lists'
    m = MergeModel(prog, fn)
    main = find_main_loop(prog, fn, m.cursors)
    if main is None:
        # delegations to the standard algorithm are accepted, anything else is undecided
        calls = [n for n in fn.walk() if n.k == 'CallExpr' and n.callee and n.callee['g'] == 'std::set_symmetric_difference']
        if calls:
            rep.ok(rule, calls[0], fn, what, 'std::set_symmetric_difference')
        else:
            rep.undecided(rule, fn.body, fn, what, 'no two-cursor merge loop found')
        return
    m.classify_locals(main.body)
    ok = check_shortcuts(rep, prog, fn, main, rule, what)
    table = {}
    for order in ('lt', 'eq', 'gt'):
        acts = m.actions(main.body, order)
        table[order] = sorted(repr(simplify(a)) for a in acts if a[0] in ('push', 'adv', 'other', 'if', 'loop', 'assign'))
    want = {'lt': sorted([repr(('push', ('idx', 'this'))), repr(('adv', 'this'))]),
            'gt': sorted([repr(('push', ('idx', 'arg'))), repr(('adv', 'arg'))]),
            'eq': sorted([repr(('adv', 'this')), repr(('adv', 'arg'))])}
    if m.problems:
        rep.violation(rule, main, fn, what, '; '.join(m.problems), key='%s|%s|lossy-compare' % (rule, fn.g))
    elif table == want:
        rep.ok(rule, main, fn, what, 'action table: a<b push(a) adv_i; a>b push(b) adv_j; a==b adv_i adv_j')
    else:
        diffs = ['%s: got %s' % (o, table[o]) for o in ('lt', 'eq', 'gt') if table[o] != want[o]]
        known = all(all(('other' not in x and "'if'" not in x and 'loop' not in x) for x in table[o]) for o in table)
        if known:
            rep.violation(rule, main, fn, what, 'merge action table differs from symmetric difference: ' + '; '.join(diffs), key='%s|%s|table' % (rule, fn.g))
        else:
            rep.undecided(rule, main, fn, what, 'merge body outside the idiom table: ' + '; '.join(diffs))
    check_tails(rep, prog, fn, m, main, rule, what, expect_push=True)


def simplify(a):
    if a[0] == 'push':
        return ('push', a[1])
    if a[0] == 'adv':
        return a
    if a[0] == 'assign':
        return ('assign',)
    return (a[0],)


def bulk_tail(prog, fn, m, st):
    """owner whose remaining range [cursor, end) is appended in one statement: c.insert(c.end(), it, it_e) / std::copy(it, it_e, back_inserter(c))"""
    e = st.strip_all() if hasattr(st, 'strip_all') else st
    first = last = None
    if e.k == 'CXXMemberCallExpr' and e.callee and e.callee['name'] == 'insert' and len(e.args()) == 3:
        for pos in e.args()[0].walk():      # the iterator -> const_iterator conversion wraps the end() call
            if pos.k == 'CXXMemberCallExpr' and pos.callee and pos.callee['name'] in ('end', 'cend') and ex.key(pos.object_arg()) == ex.key(e.object_arg()):
                first, last = e.args()[1], e.args()[2]
                break
    if e.k == 'CallExpr' and e.callee and e.callee['g'] == 'std::copy' and len(e.args()) == 3:
        dst = e.args()[2].strip_all()
        if dst.k == 'CallExpr' and dst.callee and dst.callee['name'] == 'back_inserter':
            first, last = e.args()[0], e.args()[1]
    if first is None:
        return None
    fv, lv = ex.var_of(first), ex.var_of(last)
    if fv in m.cursors and m.cursors[fv][1] == 'begin':
        owner = m.cursors[fv][0]
        ls = last.strip_all()
        end_ok = (lv in m.cursors and m.cursors[lv] == (owner, 'end')) or \
            (ls.k == 'CXXMemberCallExpr' and ls.callee and ls.callee['name'] in ('end', 'cend') and storage_owner(prog, fn, ls.object_arg()) == owner)
        if end_ok:
            return owner
    return None


def check_tails(rep, prog, fn, m, main, rule, what, expect_push):
    after = False
    tails = {}
    for st in fn.body.c:
        if st is main:
            after = True
            continue
        if not after:
            continue
        bulk = bulk_tail(prog, fn, m, st)
        if bulk is not None:
            tails[bulk] = [('push', ('elem', bulk)), ('adv', bulk)]
            continue
        if st.k in ('WhileStmt', 'ForStmt') and st.cond is not None and st.body is not None:
            vs = [v for v in ex.vars_in(st.cond) if v in m.cursors and m.cursors[v][1] == 'begin']
            if len(vs) == 1 and (st.k == 'WhileStmt' or st.role('init') is None or not list(st.role('init').walk())[1:]):
                owner = m.cursors[vs[0]][0]
                m.classify_locals(st.body)
                acts = [simplify(a) for a in m.actions(st.body, 'lt') if a[0] in ('push', 'adv', 'other', 'if', 'loop')]
                if st.k == 'ForStmt' and st.role('inc') is not None:
                    acts += [simplify(a) for a in m.actions(st.role('inc'), 'lt') if a[0] in ('push', 'adv', 'other', 'if', 'loop')]
                tails[owner] = acts
    if not expect_push:
        return
    # a loop after the merge that pushes into the result but whose cursor is neither merge cursor (`auto rest = left_remains ? it : v_it`)
    unknown_tail = None
    after = False
    for st in fn.body.c:
        if st is main:
            after = True
            continue
        if after and st.k in ('WhileStmt', 'ForStmt', 'CXXForRangeStmt') and st.body is not None:
            cvs = [v for v in (ex.vars_in(st.cond) if getattr(st, 'cond', None) is not None else []) if v in m.cursors and m.cursors[v][1] == 'begin']
            if not cvs and any(x.k == 'CXXMemberCallExpr' and x.callee and x.callee['name'] in ('push_back', 'emplace_back') for x in st.body.walk()):
                unknown_tail = st
    for owner in ('this', 'arg'):
        acts = tails.get(owner)
        whatt = 'the rest of the %s operand is appended after the merge' % ('left' if owner == 'this' else 'right')
        if acts is None and unknown_tail is not None:
            rep.undecided(rule, unknown_tail, fn, whatt, 'a loop after the merge appends through `%s`, a cursor that is not one of the two merge cursors (selected at run time?)' %
                          unknown_tail.text(40))
            continue
        elif acts is None:
            rep.violation(rule, main, fn, whatt, 'no tail loop for the %s operand: its coordinates beyond the other operand\'s end are lost' % owner,
                          key='%s|%s|tail-%s' % (rule, fn.g, owner))
            continue
        pushes = [a for a in acts if a[0] == 'push']
        advs = [a for a in acts if a[0] == 'adv' and a[1] == owner]
        good_push = len(pushes) == 1 and pushes[0][1] in (('elem', owner), ('idx', owner)) or \
            (len(pushes) == 1 and pushes[0][1][0] == 'tuple' and all(x[1] == owner for x in pushes[0][1][1:] if isinstance(x, tuple) and len(x) > 1))
        if good_push and len(advs) == 1 and len(acts) == 2:
            rep.ok(rule, main, fn, whatt, 'while (it != end) { push(*it); it++; }')
        elif any(a[0] in ('other', 'if', 'loop') for a in acts):
            rep.undecided(rule, main, fn, whatt, 'tail loop contains statements outside the idiom table: %s' % (acts,))
        else:
            rep.violation(rule, main, fn, whatt, 'tail loop actions are %s' % (acts,), key='%s|%s|tail-%s' % (rule, fn.g, owner))


def delegated_merge(prog, fn):
    """(helper function, seeded cursors) when fn only forwards [begin, end) of its argument's storage to a helper of the class:
    `return helper(v.ones.begin(), v.ones.end());`"""
    stmts = list(fn.body.c) if fn.body is not None and fn.body.k == 'CompoundStmt' else []
    if len(stmts) != 1 or stmts[0].k != 'ReturnStmt' or not stmts[0].c:
        return None
    c = stmts[0].c[0].strip_all()
    if c.k not in ('CXXMemberCallExpr', 'CallExpr') or not c.callee or not c.callee.get('in_repo') or c.callee_id is None or len(c.args()) != 2:
        return None
    hf = prog.fn_of_fref(c.callee_id)
    if hf is None or hf.body is None or len(hf.param_ids) != 2:
        return None
    a0, a1 = c.args()[0].strip_all(), c.args()[1].strip_all()
    if a0.k == 'CXXMemberCallExpr' and a1.k == 'CXXMemberCallExpr' and a0.callee['name'] in ('begin', 'cbegin') and a1.callee['name'] in ('end', 'cend') and \
            storage_owner(prog, fn, a0.object_arg()) == 'arg' and storage_owner(prog, fn, a1.object_arg()) == 'arg':
        return hf, {hf.param_ids[0]: ('arg', 'begin'), hf.param_ids[1]: ('arg', 'end')}
    return None


def check_dot(rep, prog, fn, rule='R17a', seed=None):
    what = 'operator* is the parity of the number of common coordinates'
    m = MergeModel(prog, fn)
    if seed:
        m.cursors.update(seed)
    main = find_main_loop(prog, fn, m.cursors)
    if main is None:
        dm = delegated_merge(prog, fn) if seed is None else None
        if dm is not None:
            check_dot(rep, prog, dm[0], rule, seed=dm[1])
            return
        rep.undecided(rule, fn.body, fn, what, 'no two-cursor merge loop found')
        return
    m.classify_locals(main.body)
    shortcut_rets = []
    for st in fn.body.c:
        if st is main:
            break
        if st.k == 'IfStmt' and st.els is None:
            verdict, detail = judge_lookup_shortcut(prog, fn, st, m)
            whats = 'a look-up shortcut in front of the merge also returns the parity of the number of common coordinates'
            if verdict == 'ok':
                rep.ok(rule, st, fn, whats, detail)
                shortcut_rets += [r for r in st.walk() if r.k == 'ReturnStmt']
                continue
            if verdict == 'violation':
                rep.violation(rule, st, fn, whats, detail, key='%s|%s|lookup-shortcut' % (rule, fn.g))
                shortcut_rets += [r for r in st.walk() if r.k == 'ReturnStmt']
                continue
            rep.undecided(rule, st, fn, what, 'statement in front of the merge loop is not in the idiom table (%s)' % detail)
            return
        if st.k != 'DeclStmt' and not is_assert_stmt(st):
            rep.undecided(rule, st, fn, what, 'statement in front of the merge loop is not in the idiom table')
            return
    rets = [r for r in ex.returns_of(fn) if r not in shortcut_rets]
    acc = ex.var_of(rets[0].c[0]) if len(rets) == 1 and rets[0].c else None
    if acc is None and len(rets) == 1 and rets[0].c:
        r0_ = rets[0].c[0].strip_all()
        if r0_.k == 'BinaryOperator' and ((r0_.op == '%' and r0_.c[1].strip_all().cv == 2) or (r0_.op == '&' and r0_.c[1].strip_all().cv == 1)):
            acc = ex.var_of(r0_.c[0])
    if acc is None:
        rep.undecided(rule, fn.body, fn, what, 'does not return a single accumulator')
        return
    init = ex.assignments_to(fn, acc)
    decl = [d for (d, r) in init if d.k == 'VarDecl']
    if not decl or not decl[0].c or decl[0].c[0].strip_all().cv != 0:
        rep.violation(rule, decl[0] if decl else fn.body, fn, what, 'parity accumulator does not start at 0', key='%s|%s|acc-init' % (rule, fn.g))
        return
    bad = []
    for order in ('lt', 'eq', 'gt'):
        acts = m.actions(main.body, order)
        advs = sorted(a[1] for a in acts if a[0] == 'adv')
        toggles = [a for a in acts if a[0] == 'assign' and a[1] == acc]
        incs = [a for a in acts if a[0] == 'inc' and a[1] == acc]
        if incs or any(a[0] == 'assign' and a[1] == acc and a[2].k == 'CompoundAssignOperator' and a[2].op == '+=' and a[2].c[1].strip_all().cv == 1 for a in acts):
            # counting form: correct only if the value returned is reduced modulo 2
            r0 = rets[0].c[0].strip_all()
            reduced = r0.k == 'BinaryOperator' and ((r0.op == '%' and r0.c[1].strip_all().cv == 2) or (r0.op == '&' and r0.c[1].strip_all().cv == 1))
            if order == 'eq' and not reduced:
                rep.violation(rule, main, fn, what, 'on equal coordinates the accumulator is incremented (`%s`) and returned as it is: the result is the NUMBER of common '
                              'coordinates, not its parity (three common coordinates give 3, so `support[l] * C == 1` misses an odd intersection)' % (incs[0][2].text(20) if incs else '+= 1'),
                              key='%s|%s|count-not-parity' % (rule, fn.g))
                return
        others = [a for a in acts if a[0] in ('push', 'other', 'if', 'loop') or (a[0] in ('assign', 'inc') and a[1] != acc)]
        if others:
            rep.undecided(rule, main, fn, what, 'merge body outside the idiom table')
            return
        want_adv = {'lt': ['this'], 'gt': ['arg'], 'eq': ['arg', 'this']}[order]
        if advs != want_adv:
            bad.append('%s: cursors advanced %s, expected %s' % (order, advs, want_adv))
        counting = bool(incs) and not [t_ for t_ in toggles if is_toggle(prog, t_[2], acc)]
        if counting:
            # counting form (reduced modulo 2 at the return, checked above): exactly one increment on equal coordinates, none otherwise
            if order == 'eq' and (len(incs) != 1 or toggles):
                bad.append('on equal coordinates the counter is not incremented exactly once')
            if order != 'eq' and (incs or toggles):
                bad.append('accumulator changes on unequal coordinates')
        elif order == 'eq':
            if len(toggles) != 1 or not is_toggle(prog, toggles[0][2], acc):
                bad.append('on equal coordinates the accumulator is not toggled exactly once')
        elif toggles:
            bad.append('accumulator changes on unequal coordinates')
    if m.problems:
        rep.violation(rule, main, fn, what, '; '.join(m.problems), key='%s|%s|lossy-compare' % (rule, fn.g))
    elif bad:
        rep.violation(rule, main, fn, what, '; '.join(bad), key='%s|%s|table' % (rule, fn.g))
    else:
        rep.ok(rule, main, fn, what, 'action table: a<b adv_i; a>b adv_j; a==b toggle adv_i adv_j; returns the accumulator')


def judge_lookup_shortcut(prog, fn, ifs, m):
    """if (<any guard>) { for (x in own ones) <acc update by membership of x in the argument>; return <acc or its parity>; }
    The guard is irrelevant (both branches must compute the same value)."""
    then = ifs.then
    stmts = then.c if then.k == 'CompoundStmt' else [then]
    loops = [x for x in stmts if x.k in ('ForStmt', 'CXXForRangeStmt', 'WhileStmt')]
    rets = [x for x in stmts if x.k == 'ReturnStmt']
    # (a) `if (ones.size() < v.ones.size()) return v * (*this);`: the product is symmetric; a strict size test cannot recurse twice
    if len(stmts) == 1 and rets and rets[0].c and fn.param_ids:
        r0 = rets[0].c[0].strip_all()
        g = ifs.cond.strip_all() if ifs.cond is not None else None
        if r0.k == 'CXXOperatorCallExpr' and r0.op == '*' and len(r0.c) == 3 and ex.var_of(r0.c[1]) == fn.param_ids[0]:
            o = r0.c[2].strip_all()
            if o.k == 'UnaryOperator' and o.op == '*' and o.c[0].strip_all().k == 'CXXThisExpr' and g is not None and g.k == 'BinaryOperator' and g.op in ('<', '>'):
                return 'ok', 'delegates to the same product with the operands swapped under a strict size test (the product is symmetric)'
    # (b) binary-search form: `cur = std::lower_bound(cur, end, key)` leaves cur at the first coordinate >= key; advancing cur when that coordinate
    # did not match skips a coordinate that is larger than this key and may equal the next one
    if len(loops) == 1 and loops[0].body is not None:
        body = loops[0].body
        bst = body.c if body.k == 'CompoundStmt' else [body]
        for ix, st in enumerate(bst):
            e = st.strip_all()
            ops = e.c if e.k == 'BinaryOperator' else (e.c[1:] if e.k == 'CXXOperatorCallExpr' else [])
            if getattr(e, 'op', None) != '=' or len(ops) != 2:
                continue
            rhs = ops[1].strip_all()
            cur = ex.var_of(ops[0])
            if cur is None or rhs.k != 'CallExpr' or not rhs.callee or rhs.callee['g'] != 'std::lower_bound' or not rhs.args() or ex.var_of(rhs.args()[0]) != cur:
                continue
            if any(x.k in ('ContinueStmt', 'GotoStmt') for x in body.walk()):
                break
            for later in bst[ix + 1:]:
                l = later.strip_all()
                if l.k in ('UnaryOperator', 'CXXOperatorCallExpr') and l.op == '++' and ex.var_of(l.c[-1] if l.k == 'UnaryOperator' else l.c[1]) == cur:
                    return 'violation', ('`%s` at line %d advances the searched cursor on every iteration, also when the lower bound found for this key did not match: that '
                                         'coordinate is larger than the key and may be equal to the next key, the common coordinate is then skipped and the parity is wrong' % (
                                             l.text(20), l.line))
            break
    rest = [x for x in stmts if x not in loops and x not in rets and x.k != 'DeclStmt']
    if len(loops) != 1 or len(rets) != 1 or rest or stmts[-1] is not rets[0]:
        return 'undecided', 'not a single look-up loop followed by a return'
    loop = loops[0]
    pid = fn.param_ids[0] if fn.param_ids else None
    pt = prog.base_type(prog.vars[pid]['ty']) if pid is not None else None
    if not pt or not (pt.get('rec') or '').startswith('std::set'):
        return 'undecided', 'argument is not a std::set'
    # the loop must range over the own coordinate list
    own = False
    for d in loop.walk():
        if loop.body is not None and loop.body.is_ancestor_of(d):
            continue
        if d.k == 'CXXMemberCallExpr' and d.callee and d.callee['name'] in ('begin', 'cbegin') and storage_owner(prog, fn, d.object_arg()) == 'this':
            own = True
        if d.k == 'MemberExpr' and storage_owner(prog, fn, d) == 'this':
            own = True
    if not own:
        return 'undecided', 'the loop does not range over the own coordinate list'
    body = loop.body
    bst = [x for x in (body.c if body.k == 'CompoundStmt' else [body]) if x.k != 'DeclStmt']
    if len(bst) != 1:
        return 'undecided', 'loop body is not a single statement'

    def membership_call(e):
        e = e.strip_all()
        if e.k == 'CXXMemberCallExpr' and e.callee and e.callee['name'] == 'count' and ex.var_of(e.object_arg()) == pid:
            return True
        return False

    def membership_test(e):
        mb = ex.membership(e)
        return bool(mb) and mb[2] and ex.var_of(mb[0]) == pid
    st = bst[0]
    e = st.strip_all() if st.k != 'IfStmt' else st
    r = rets[0].c[0].strip_all() if rets[0].c else None
    if r is None:
        return 'undecided', 'shortcut returns nothing'
    if e.k == 'CompoundAssignOperator' and e.op in ('+=', '^=') and membership_call(e.c[1]):
        acc = ex.var_of(e.c[0])
        init = [rhs for (d, rhs) in ex.assignments_to(fn, acc) if d.k == 'VarDecl']
        if not init or init[0] is None or init[0].strip_all().cv != 0:
            return 'undecided', 'accumulator does not start at 0'
        if e.op == '^=':
            return ('ok', 'acc ^= count(x) over the own coordinates; returns acc') if ex.var_of(r) == acc else ('undecided', 'returns something else')
        # counting form: the return must reduce modulo 2
        if r.k == 'BinaryOperator' and ((r.op == '%' and r.c[1].strip_all().cv == 2) or (r.op == '&' and r.c[1].strip_all().cv == 1)) and \
                ex.var_of(r.c[0]) == acc:
            return 'ok', 'counts the common coordinates and returns the count modulo 2'
        if ex.var_of(r) == acc:
            return 'violation', ('the shortcut adds %s for every own coordinate and returns the sum itself: the number of common coordinates, '
                                 'not its parity (2 common coordinates give 2 instead of 0)' % e.c[1].text(30))
        return 'undecided', 'returns something else'
    if e.k == 'IfStmt' and e.els is None and membership_test(e.cond):
        inner = e.then.c if e.then.k == 'CompoundStmt' else [e.then]
        if len(inner) == 1:
            t = inner[0].strip_all()
            acc = ex.var_of(t.c[0]) if t.k in ('BinaryOperator', 'CompoundAssignOperator') and t.c else None
            if acc is not None and is_toggle(prog, t, acc) and ex.var_of(r) == acc:
                return 'ok', 'toggles the accumulator for every own coordinate found in the argument'
    return 'undecided', 'loop body is not a membership accumulation'


# ------------------------------------------------------------------------------------------------ R17c aliasing
def check_inplace_shortcuts(rep, prog, fn, rule):
    """fast paths of operator+= in front of the general `*this = *this + v`: an early `return *this` without touching the storage is right iff
    the argument is the zero vector; appending the argument's coordinates to the own list is right iff the own list is empty or its largest
    coordinate is strictly below the argument's smallest one (equal ends would store the shared coordinate twice instead of combining it)."""
    from .c10 import guards_formula
    cfg = fn.cfg
    if cfg is None or not fn.param_ids:
        return 0
    pid = fn.param_ids[0]
    n = 0

    def coord(e):
        """('this'|'arg', 'max'|'min') for ones.back() / v.ones.front() / get<0>(entries.back()) ..."""
        s = e.strip_all()
        if s.k == 'CallExpr' and s.callee and s.callee['g'] in ('boost::get', 'boost::tuples::get', 'std::get') and s.args():
            ta = s.callee.get('targs') or []
            which = ta[0].get('int') if ta and isinstance(ta[0], dict) else None
            if which != 0:
                return None
            s = (s.args()[-1] if s.callee['g'] != 'std::get' else s.args()[0]).strip_all()
        return end_desc(prog, fn, s, {})

    def atomize(leaf):
        s = leaf.strip_all()
        if s.k == 'CXXMemberCallExpr' and s.callee and s.callee['name'] == 'empty':
            o = storage_owner(prog, fn, s.object_arg())
            if o:
                return ex.f_atom(o + '_empty')
        if s.k == 'BinaryOperator' and s.op in ('==', '!='):
            a, b = s.c[0].strip_all(), s.c[1].strip_all()
            for x, y in ((a, b), (b, a)):
                if x.k == 'CXXThisExpr' and y.k == 'UnaryOperator' and y.op == '&' and ex.var_of(y.c[0]) == pid:
                    return ex.f_atom('alias') if s.op == '==' else ex.f_not(ex.f_atom('alias'))
        if s.k == 'BinaryOperator' and s.op in ('<', '>', '<=', '>=', '==', '!='):
            da, db = coord(s.c[0]), coord(s.c[1])
            if da and db:
                op = s.op
                if da == ('this', 'max') and db == ('arg', 'min'):
                    pass
                elif db == ('this', 'max') and da == ('arg', 'min'):
                    op = {'<': '>', '>': '<', '<=': '>=', '>=': '<=', '==': '==', '!=': '!='}[op]
                else:
                    return ex.f_atom(('wrong-ends', leaf.i))
                lt, eq, gt = ex.f_atom('lt'), ex.f_atom('eq'), ex.f_atom('gt')
                return {'<': lt, '>': gt, '<=': ex.f_or(lt, eq), '>=': ex.f_or(gt, eq), '==': eq, '!=': ex.f_or(lt, gt)}[op]
        return None
    import itertools
    for r in ex.returns_of(fn):
        if not ex.ast_conditions(r):
            continue            # the final return of the general path
        n += 1
        what = 'a fast path of %s leaves the same vector as the general merge' % fn.fref['name']
        blk = r.enclosing('CompoundStmt')
        appends = [x for x in (blk.walk() if blk is not None else ()) if x.k == 'CXXMemberCallExpr' and x.callee and x.callee['name'] == 'insert' and len(x.args()) == 3 and
                   storage_owner(prog, fn, x.object_arg()) == 'this' and
                   any(y.k == 'CXXMemberCallExpr' and y.callee and y.callee['name'] in ('begin', 'cbegin') and storage_owner(prog, fn, y.object_arg()) == 'arg' for y in x.args()[1].walk())]
        other_writes = [x for x in (blk.walk() if blk is not None else ()) if x.k in ('CXXMemberCallExpr', 'CXXOperatorCallExpr', 'BinaryOperator') and x not in appends and
                        ((x.k == 'CXXMemberCallExpr' and x.callee and x.callee['name'] in ('push_back', 'clear', 'erase', 'assign', 'swap', 'insert', 'emplace_back', 'resize')
                          and storage_owner(prog, fn, x.object_arg()) == 'this') or
                         (x.k != 'CXXMemberCallExpr' and x.op in ('=', '+=') and x is not r))]
        if other_writes:
            rep.undecided(rule, r, fn, what, 'the fast path modifies the vector with `%s`, outside the idiom table' % other_writes[0].text(40))
            continue
        pc = guards_formula(cfg, r, atomize)
        atoms = ex.f_atoms(pc)
        if any(isinstance(a, tuple) and a[0] == 'wrong-ends' for a in atoms):
            rep.violation(rule, r, fn, what, 'the guard compares the wrong ends of the two coordinate lists', key='%s|%s|fast-path' % (rule, fn.g))
            continue
        opaque = [a for a in atoms if isinstance(a, tuple) and a[0] == 'opaque']
        if opaque:
            rep.undecided(rule, r, fn, what, 'fast-path guard outside the idiom table')
            continue
        bad = None
        for al, te, ae, order in itertools.product((False, True) if 'alias' in atoms else (False,), (False, True), (False, True), ('lt', 'eq', 'gt')):
            if (te or ae) and order != 'lt':
                continue        # ends are only compared when both lists are non-empty
            if al and (te != ae or (not te and order == 'lt')):
                continue        # x += x: one list, its largest coordinate is never below its smallest
            e = {'alias': al, 'this_empty': te, 'arg_empty': ae, 'lt': order == 'lt', 'eq': order == 'eq', 'gt': order == 'gt'}
            e = {k: v for k, v in e.items() if k in atoms}
            if not ex.f_eval(pc, e):
                continue
            if not appends:
                if not ae:
                    bad = 'returns *this unchanged although the argument is not the zero vector'
            else:
                if not (te or ae or order == 'lt'):
                    bad = ('appends the argument\'s coordinates when the largest own coordinate %s the argument\'s smallest one: %s' % (
                        'equals' if order == 'eq' else 'exceeds',
                        'the shared coordinate is stored twice instead of being combined (and cancelled when the sum is 0)' if order == 'eq' else 'the list is no longer sorted'))
            if bad:
                break
        if bad:
            rep.violation(rule, r, fn, what, bad, key='%s|%s|fast-path' % (rule, fn.g))
        else:
            rep.ok(rule, r, fn, what, 'append only when the own list is empty or ends strictly before the argument begins' if appends else 'unchanged only for a zero argument')
    return n


def check_compound(rep, prog, fn, rule='R17c'):
    what = '%s stays correct when the argument aliases *this' % fn.fref['name']
    if not fn.param_ids:
        return
    pid = fn.param_ids[0]
    pt = prog.type(prog.vars[pid]['ty']) or {}
    if fn.fref['name'] == 'operator+=':
        check_inplace_shortcuts(rep, prog, fn, rule)
    if not pt.get('ref'):
        rep.ok(rule, fn.body, fn, what, 'argument taken by value')
        return
    # idiom (a): *this = *this OP v
    stmts = [s for s in fn.body.c if s.k not in ('ReturnStmt',)]
    if len(stmts) == 1:
        e = stmts[0].strip_all()
        if e.k == 'CXXOperatorCallExpr' and e.op == '=' and len(e.c) == 3:
            l, r = e.c[1].strip_all(), e.c[2].strip_all()
            if l.k == 'UnaryOperator' and l.op == '*' and l.c[0].strip_all().k == 'CXXThisExpr' and r.k == 'CXXOperatorCallExpr':
                rep.ok(rule, e, fn, what, 'delegates to the binary operator: the result is built before *this is assigned')
                return
    eff = par.Effects(prog)
    cfg = fn.cfg
    own_muts = []
    for (node, target, how) in eff.writes(fn):
        root, idx, names = par.access_path(target)
        if root is not None and prog.vars[root]['kind'] == 'field':
            base_this = True
            for d in target.walk():
                if d.k == 'MemberExpr' and d.decl_id == root and d.c and d.c[0].strip_all().k != 'CXXThisExpr':
                    base_this = False
            if base_this:
                own_muts.append(node)
    # writes through a local iterator that was obtained from an own container (`auto out = entries.begin(); *out++ = ...`)
    own_iters = set()
    for d in fn.walk():
        if d.k == 'VarDecl' and d.c:
            r = d.c[0].strip_all()
            if r.k == 'CXXMemberCallExpr' and r.callee and r.callee['name'] in ('begin', 'end', 'rbegin', 'data') and r.object_arg() is not None:
                o = r.object_arg().strip_all()
                if o.k == 'MemberExpr' and o.decl and o.decl.get('kind') == 'field' and o.c and o.c[0].strip_all().k == 'CXXThisExpr':
                    own_iters.add(d.decl_id)
    for d in fn.walk():
        if d.k in ('BinaryOperator', 'CXXOperatorCallExpr') and d.op == '=':
            ops = d.c if d.k == 'BinaryOperator' else d.c[1:]
            l = ops[0].strip_all() if ops else None
            if l is not None and l.k in ('UnaryOperator', 'CXXOperatorCallExpr') and l.op == '*':
                if any(x.k == 'DeclRefExpr' and x.decl_id in own_iters for x in l.walk()):
                    own_muts.append(d)
    arg_reads = [d for d in fn.walk() if d.k == 'DeclRefExpr' and d.decl_id == pid]
    guarded = False
    for b in cfg.branch_blocks():
        c = cfg.effective_cond(b)
        if c is not None and any(d.k == 'CXXThisExpr' for d in c.walk()) and ex.refs_var(c, pid):
            guarded = True
    bad = None
    for mnode in own_muts:
        for r in arg_reads:
            if cfg.reaches(mnode, r) and not mnode.is_ancestor_of(r):
                bad = (mnode, r)
                break
        if bad:
            break
    if bad and not guarded:
        rep.violation(rule, bad[0], fn, what,
                      '`%s` modifies the object\'s own storage and the argument is read afterwards (line %d): for x %s x the argument *is* that '
                      'storage, so the result is computed from already-destroyed data' % (bad[0].text(40), bad[1].line, fn.fref['name'].replace('operator', '')),
                      key='%s|%s|alias' % (rule, fn.g))
    else:
        rep.ok(rule, fn.body, fn, what, 'own storage is not modified before the argument is read' if not bad else 'guarded by a this == &v test')


# ------------------------------------------------------------------------------------------------ R17b sources
def fields_of(prog, recname):
    for rec in prog.records:
        if isinstance(rec, dict) and rec.get('g') == recname and rec.get('fields') is not None:
            yield rec


def check_copy_ops(rep, prog, clsname, rule, floor_note=''):
    """hand-written copy/move constructors and assignments copy every data member"""
    n = 0
    for fn in prog.functions:
        fr = fn.fref
        if fn.implicit or fr.get('rec') != clsname:
            continue
        if not (fr.get('copy_ctor') or fr.get('move_ctor') or fr.get('copy_assign') or fr.get('move_assign') or
                (fr.get('ctor') and len(fn.param_ids) == 1 and clsname.split('::')[-1] in (prog.type(prog.vars[fn.param_ids[0]]['ty']) or {}).get('canon', '') and
                 (prog.type(prog.vars[fn.param_ids[0]]['ty']) or {}).get('ref')) or
                (fr.get('name') == 'operator=' and len(fn.param_ids) == 1 and clsname.split('::')[-1] in (prog.type(prog.vars[fn.param_ids[0]]['ty']) or {}).get('canon', ''))):
            continue
        rec = prog.records[fn.j['rec_id']] if fn.j.get('rec_id') is not None else None
        if rec is None:
            continue
        n += 1
        pid = fn.param_ids[0]
        fields = rec.get('fields', [])
        copied = set()
        for ci in fn.ctor_inits:
            if ci.get('written') and 'field' in ci and 'node' in ci:
                for d in ci['node'].walk():
                    if d.k == 'MemberExpr' and d.decl_id == ci['field'] and d.c and ex.var_of(d.c[0]) == pid:
                        copied.add(ci['field'])
        for d in fn.walk():
            tgt = src = None
            if d.k == 'BinaryOperator' and d.op == '=':
                tgt, src = d.c[0], d.c[1]
            elif d.k == 'CXXOperatorCallExpr' and d.op == '=' and len(d.c) == 3:
                tgt, src = d.c[1], d.c[2]
            if tgt is None:
                continue
            tv = ex.var_of(tgt)
            if tv in fields:
                for s in src.walk():
                    if s.k == 'MemberExpr' and s.decl_id == tv and s.c and ex.var_of(s.c[0]) == pid:
                        copied.add(tv)
        # f.assign(v.f.begin(), v.f.end()) / f.assign(v.f) : the whole member is replaced by the argument's
        for d in fn.walk():
            if d.k == 'CXXMemberCallExpr' and d.callee and d.callee['name'] == 'assign' and d.object_arg() is not None and ex.var_of(d.object_arg()) in fields:
                tv = ex.var_of(d.object_arg())
                a_ = d.args()
                srcs = []
                for x in a_:
                    xs = x.strip_all()
                    if xs.k == 'CXXMemberCallExpr' and xs.callee and xs.callee['name'] in ('begin', 'cbegin', 'end', 'cend'):
                        srcs.append((xs.callee['name'].lstrip('c'), xs.object_arg()))
                    else:
                        srcs.append(('whole', x))

                def is_arg_field(o):
                    o = o.strip_all()
                    return o.k == 'MemberExpr' and o.decl_id == tv and o.c and ex.var_of(o.c[0]) == pid
                if (len(srcs) == 2 and [k_ for (k_, _o) in srcs] == ['begin', 'end'] and all(is_arg_field(o) for (_k, o) in srcs)) or \
                        (len(srcs) == 1 and srcs[0][0] == 'whole' and is_arg_field(srcs[0][1])):
                    copied.add(tv)
        # delegation to the sibling assignment operator: `return *this = v;` copies whatever that operator copies (it is judged on its own)
        for d in fn.walk():
            if d.k == 'CXXOperatorCallExpr' and d.op == '=' and len(d.c) == 3 and d.callee_id is not None and d.callee_id != fn.fref_id and \
                    (d.callee or {}).get('rec') == clsname and ex.var_of(d.c[2]) == pid:
                l_ = d.c[1].strip_all()
                if l_.k == 'UnaryOperator' and l_.op == '*' and l_.c and l_.c[0].strip_all().k == 'CXXThisExpr':
                    copied.update(fields)
        # swap-based moves: std::swap(f, v.f) / f.swap(v.f)
        for d in fn.walk():
            pair = None
            if d.k == 'CallExpr' and d.callee and d.callee['g'] in ('std::swap', 'boost::swap') and len(d.args()) == 2:
                pair = (d.args()[0], d.args()[1])
            elif d.k == 'CXXMemberCallExpr' and d.callee and d.callee['name'] == 'swap' and len(d.args()) == 1 and d.object_arg() is not None:
                pair = (d.object_arg(), d.args()[0])
            if pair:
                for a, b in (pair, pair[::-1]):
                    tv = ex.var_of(a)
                    if tv in fields:
                        for s2 in [b.strip_all()] + list(b.walk()):
                            if s2.k == 'MemberExpr' and s2.decl_id == tv and s2.c and ex.var_of(s2.c[0]) == pid:
                                copied.add(tv)
                            # copy-and-swap through a temporary:  T tmp(v.f); f.swap(tmp)   /   Cls tmp(v); f.swap(tmp.f)
                            lv = None
                            if s2.k == 'DeclRefExpr' and s2.decl is not None and s2.decl.get('kind') == 'local':
                                lv = s2.decl_id
                            if s2.k == 'MemberExpr' and s2.decl_id == tv and s2.c and ex.var_of(s2.c[0]) is not None and \
                                    prog.vars[ex.var_of(s2.c[0])]['kind'] == 'local':
                                lv = ex.var_of(s2.c[0])
                            if lv is not None:
                                ld = ex.unique_def(fn, lv)
                                if ld is not None:
                                    for s3 in [ld.strip_all()] + list(ld.walk()):
                                        if (s3.k == 'MemberExpr' and s3.decl_id == tv and s3.c and ex.var_of(s3.c[0]) == pid) or \
                                                (s3.k == 'DeclRefExpr' and s3.decl_id == pid):
                                            copied.add(tv)
        if not fr.get('ctor'):
            # an assignment operator returns a reference to *this: returning by value makes `(x = y) += z` and `(x = y).clear()` act on a copy
            rt = prog.type(fn.j.get('ret')) or {}
            whatr = 'assignment operator returns a reference to the assigned object'
            if rt.get('ref') or (rt.get('canon') or rt.get('s') or '') == 'void':
                rep.ok(rule, fn.body, fn, whatr, rt.get('s') or 'reference')
            else:
                rep.violation(rule, fn.body or fn, fn, whatr, 'returns `%s` by value: an operation applied to the result of the assignment ((x = y) += z, (x = y).clear()) '
                              'acts on a temporary copy and is lost' % (rt.get('s') or '?'), key='%s|%s|by-value-return' % (rule, fn.g))
        what = '%s copies every data member of its argument' % ('copy/move constructor' if fr.get('ctor') else 'assignment operator')
        # copy-and-swap: the by-value parameter IS the copy; `swap(param)` through a member swap that exchanges every member (std::swap(f, o.f) /
        # f.swap(o.f)) assigns all of them
        if not fr.get('ctor'):
            for sc in fn.walk():
                if sc.k == 'CXXMemberCallExpr' and sc.callee and sc.callee['name'] == 'swap' and sc.args() and ex.var_of(sc.args()[0]) == pid and sc.callee_id is not None:
                    sf = prog.fn_of_fref(sc.callee_id)
                    if sf is not None and sf.body is not None and sf.param_ids:
                        op_ = sf.param_ids[0]
                        for x in sf.walk():
                            if x.k in ex.CALL_KINDS and x.callee and x.callee['name'] == 'swap':
                                ms = [y for y in x.walk() if y.k == 'MemberExpr' and y.decl_id in fields]
                                here = {y.decl_id for y in ms if not (y.c and ex.var_of(y.c[0]) == op_)}
                                there = {y.decl_id for y in ms if y.c and ex.var_of(y.c[0]) == op_}
                                copied |= (here & there)
                if sc.k == 'CallExpr' and sc.callee and sc.callee['g'] == 'std::swap' and len(sc.args()) == 2 and pid in (ex.var_of(sc.args()[0]), ex.var_of(sc.args()[1])) and \
                        any(a_.strip_all().k in ('UnaryOperator',) and a_.strip_all().op == '*' for a_ in sc.args()):
                    copied |= set(fields)       # std::swap(*this, copy): move construction / assignment of the whole object (judged on their own)
        missing = [prog.vars[f]['name'] for f in fields if f not in copied]
        if missing:
            rep.violation(rule, fn.body or fn, fn, what,
                          'member(s) %s are not copied from the argument: a copy differs from its source' % ', '.join(missing),
                          key='%s|%s|%s' % (rule, fn.g, ','.join(missing)))
        else:
            rep.ok(rule, fn.body, fn, what, '%d member(s)' % len(fields))
    if n == 0:
        # no hand-written copy operation at all: the compiler-generated (implicit or `= default`) ones copy member-wise
        some = [f for f in prog.functions if f.fref.get('rec') == clsname and f.body is not None]
        if some:
            rep.ok(rule, some[0].body, some[0], 'copy operations of %s copy every data member' % clsname.split('::')[-1],
                   'no hand-written copy / move operation: the compiler-generated ones are member-wise')
            rep.ok(rule, some[0].body, some[0], 'assignment of %s copies every data member' % clsname.split('::')[-1], 'compiler-generated')
            n = 2
    return n


def check_sources(rep, prog, rule='R17b'):
    n = check_copy_ops(rep, prog, CLS, rule)
    for fn in prog.functions:
        fr = fn.fref
        if fn.implicit or fr.get('rec') != CLS:
            continue
        name = fr['name']
        if fr.get('ctor') and len(fn.param_ids) == 1 and not (fr.get('copy_ctor') or fr.get('move_ctor')):
            pt = prog.base_type(prog.vars[fn.param_ids[0]]['ty']) or {}
            pid = fn.param_ids[0]
            if (pt.get('rec') or '') == 'std::set':
                what = 'the std::set constructor copies a strictly increasing sequence'
                targs = pt.get('targs') or []
                cmp_ok = len(targs) >= 2 and isinstance(targs[1], int) and (prog.types[targs[1]].get('rec') or '') == 'std::less'
                copies = [c for c in fn.walk() if c.k == 'CallExpr' and c.callee and c.callee['g'] == 'std::copy' and len(c.args()) == 3]
                full = False
                for c in copies:
                    a0, a1 = c.args()[0].strip_all(), c.args()[1].strip_all()
                    if a0.k == 'CXXMemberCallExpr' and a1.k == 'CXXMemberCallExpr' and a0.callee['name'] in ('begin', 'cbegin') and \
                            a1.callee['name'] in ('end', 'cend') and ex.var_of(a0.object_arg()) == pid and ex.var_of(a1.object_arg()) == pid:
                        full = True
                for c in fn.walk():
                    if c.k in ('CXXMemberCallExpr',) and c.callee and c.callee['name'] in ('assign', 'insert') and any(ex.refs_var(a, pid) for a in c.args()):
                        full = True
                if fn.ctor_inits and any('node' in ci and ex.refs_var(ci['node'], pid) and ci.get('written') for ci in fn.ctor_inits):
                    full = True
                if cmp_ok and full:
                    rep.ok(rule, fn.body, fn, what, 'std::set<U, std::less<U>> copied begin..end')
                elif not cmp_ok:
                    rep.violation(rule, fn.body, fn, what, 'the set parameter does not use the default ascending comparator', key='%s|%s|comparator' % (rule, fn.g))
                else:
                    rep.undecided(rule, fn.body, fn, what, 'how the set is copied is not in the idiom table')
                n += 1
            elif pt.get('int') or pt.get('arith'):
                what = 'the unit-vector constructor stores exactly its argument'
                pushes = [c for c in fn.walk() if c.k == 'CXXMemberCallExpr' and c.callee and c.callee['name'] in ('push_back', 'emplace_back')]
                inits = [ci for ci in fn.ctor_inits if ci.get('written') and 'node' in ci and ex.refs_var(ci['node'], pid)]
                cond_push = [c for c in pushes if ex.ast_conditions(c)]
                if len(pushes) == 1 and cond_push and ex.var_of(pushes[0].args()[0]) == pid:
                    g_ = ex.ast_conditions(pushes[0])[0][0]
                    rep.violation(rule, pushes[0], fn, what, 'the coordinate is stored only under `%s`: for the excluded value the unit vector e_i is built as the zero vector '
                                  '(every value of the index type is a coordinate)' % g_.text(50), key='%s|%s|unit-conditional' % (rule, fn.g))
                elif (len(pushes) == 1 and ex.var_of(pushes[0].args()[0]) == pid and not pushes[0].enclosing('ForStmt', 'WhileStmt')) or (inits and not pushes):
                    rep.ok(rule, fn.body, fn, what)
                else:
                    rep.violation(rule, fn.body, fn, what, 'does not push its argument exactly once', key='%s|%s|unit' % (rule, fn.g))
                n += 1
        if name in ('size', 'begin', 'end', 'clear') and not fn.param_ids:
            what = '%s() forwards to the coordinate list' % name
            rets = ex.returns_of(fn)
            target = None
            if rets and rets[0].c:
                target = rets[0].c[0].strip_all()
            else:
                calls = [c for c in fn.walk() if c.k == 'CXXMemberCallExpr']
                target = calls[0] if calls else None
            if target is not None and target.k == 'CXXMemberCallExpr' and target.callee and target.callee['name'] in (name, 'c' + name) and \
                    storage_owner(prog, fn, target.object_arg()) == 'this':
                rep.ok(rule, fn.body, fn, what)
            else:
                rep.violation(rule, fn.body, fn, what, 'does not return ones.%s()' % name, key='%s|%s|forward' % (rule, fn.g))
            n += 1
    return n


def check_brace_assignment(rep, prog, cls=CLS):
    """R17d: `x = {}` (assignment from empty braces) yields the zero vector: the overload selected by the compiler for the witness statement is
    the copy or move assignment from a default-constructed vector.  An added `operator=(const U&)` wins overload resolution (`{}` -> U is an
    identity conversion) and silently turns the statement into "unit vector {0}"."""
    n = 0
    for fn in prog.functions:
        if not (fn.file.startswith(env.WITNESS)) or fn.body is None:
            continue
        for d in fn.walk():
            if d.k != 'CXXOperatorCallExpr' or d.op != '=' or len(d.c) < 3:
                continue
            lt = prog.base_type(d.c[1].strip_all().j.get('t')) or {}
            if (lt.get('rec') or '') != cls:
                continue
            rhs = d.c[2]
            if rhs.text(6).strip() != '{}':
                continue
            n += 1
            what = '`x = {}` on a sparse GF(2) vector selects the copy/move assignment from a default-constructed (zero) vector'
            cal = d.callee or {}
            if cal.get('copy_assign') or cal.get('move_assign'):
                rep.ok('R17d', d, fn, what, 'resolved to %s' % ('move assignment' if cal.get('move_assign') else 'copy assignment'))
            else:
                rep.violation('R17d', d, fn, what, 'overload resolution selects %s(%s): the empty braces become the index 0 and the result is the unit vector {0}, '
                              'not the zero vector' % (cal.get('q') or cal.get('g'), ', '.join(str(p_) for p_ in (cal.get('params') or []))),
                              key='R17d|%s|brace-assignment' % cls)
    return n


def check_erase_in_index_loop(rep, prog, rule='R17e', classes=(CLS, 'parmcb::SpVecFP')):
    """R17e: `for (i = ...; i < c.size(); i++) if (...) c.erase(c.begin() + i ...)` - after the erase the element that followed moves to
    position i and the unconditional i++ steps over it without looking at it.  Flagged when the loop index is the erase position, is
    advanced by the loop header and is not stepped back (or the loop left) on the erasing path."""
    n = 0
    for fn in prog.functions:
        if fn.implicit or fn.body is None or fn.fref.get('rec') not in classes:
            if not (fn.file.startswith(env.WITNESS + '/positive') and fn.body is not None and not fn.implicit):
                continue
        for lp in fn.walk():
            if lp.k != 'ForStmt' or lp.body is None:
                continue
            inc = lp.role('inc')
            if inc is None:
                continue
            i_ = inc.strip_all()
            iv = None
            if i_.k == 'UnaryOperator' and i_.op == '++':
                iv = ex.var_of(i_.c[0])
            elif i_.k == 'CompoundAssignOperator' and i_.op == '+=' and i_.c[1].strip_all().cv == 1:
                iv = ex.var_of(i_.c[0])
            if iv is None or not (prog.base_type(prog.vars[iv]['ty']) or {}).get('int'):
                continue
            for er in lp.body.walk():
                if not (er.k == 'CXXMemberCallExpr' and er.callee and er.callee['name'] == 'erase' and er.args() and ex.refs_var(er.args()[0], iv)):
                    continue
                cont = er.object_arg()
                # is the same container read through the index in this loop (header or body)?
                reads = [x for x in lp.walk() if x.k == 'CXXOperatorCallExpr' and x.op == '[]' and len(x.c) == 3 and ex.key(x.c[1]) == ex.key(cont) and ex.refs_var(x.c[2], iv)]
                if not reads:
                    continue
                n += 1
                what = 'erasing at the loop index inside an index loop does not skip the element that moves into the freed position'
                cfg = fn.cfg
                compensated = False
                for m in lp.body.walk():
                    if m.k == 'UnaryOperator' and m.op == '--' and ex.var_of(m.c[0]) == iv and cfg.reaches(er, m):
                        compensated = True
                    if m.k in ('CompoundAssignOperator', 'BinaryOperator') and m.op in ('-=', '=') and ex.var_of(m.c[0]) == iv and cfg.reaches(er, m):
                        compensated = True
                    if m.k in ('BreakStmt', 'ReturnStmt') and cfg.reaches(er, m) and cfg.pos_of(m) and cfg.pos_of(er) and \
                            cfg.block_postdominates(cfg.pos_of(m)[0], cfg.pos_of(er)[0]):
                        compensated = True
                if compensated:
                    rep.ok(rule, er, fn, what, 'the index is stepped back / the loop is left after the erase')
                else:
                    rep.violation(rule, er, fn, what,
                                  'after `%s` the element that followed the erased range sits at position %s, and the loop header advances %s past it unexamined: of several '
                                  'adjacent candidates only every other one is handled' % (er.text(50), prog.vars[iv]['name'], prog.vars[iv]['name']),
                                  key='%s|%s|erase-skip' % (rule, fn.g))
    return n


def check_program(rep, prog, rules=('R17a', 'R17b', 'R17c'), cls=CLS):
    seen = 0
    for fn in prog.functions:
        fr = fn.fref
        if fn.implicit or fr.get('rec') != cls or fn.body is None:
            continue
        name = fr['name']
        if 'R17a' in rules and name == 'operator+' and len(fn.param_ids) == 1:
            check_plus(rep, prog, fn)
            seen += 1
        if 'R17a' in rules and name == 'operator*' and len(fn.param_ids) == 1:
            pt = prog.base_type(prog.vars[fn.param_ids[0]]['ty']) or {}
            if (pt.get('rec') or '') in ('std::set', cls):
                check_dot(rep, prog, fn)
                seen += 1
        if 'R17c' in rules and name in ('operator+=', 'operator-=', 'operator*=', 'operator^='):
            check_compound(rep, prog, fn)
    if 'R17b' in rules:
        check_sources(rep, prog)
    return seen


def check_size_width(rep, prog):
    """R17f: size() reports the number of stored coordinates in a type that can hold it for every index type: the all-ones vector
    over a narrow index type U has max(U)+1 coordinates, so a size narrowed to U reads 0 (zero tests, the sparsest-support
    heuristic and operator<< then treat the densest vector as the zero vector).  Decided on the instantiation with a 16-bit
    index type: any narrowing integral conversion on the way to the returned value is the witness."""
    what = 'size() returns the length of the coordinate list without narrowing it to the index type'
    n = 0
    for fn in prog.fns(CLS + '::size'):
        if fn.body is None:
            continue
        n += 1
        bad = None
        for r in ex.returns_of(fn):
            if not r.c:
                continue
            x = r.c[0]
            while x is not None and x.k in ('ImplicitCastExpr', 'CStyleCastExpr', 'CXXStaticCastExpr', 'CXXFunctionalCastExpr', 'ParenExpr', 'ExprWithCleanups') and x.c:
                if x.j.get('ck') == 'IntegralCast':
                    tt, ft = prog.type(x.j.get('t')) or {}, prog.type(x.c[0].strip().j.get('t')) or {}
                    wt, wf = _int_width(tt), _int_width(ft)
                    if wt is not None and wf is not None and wt < wf:
                        bad = (r, ft.get('s') or ft.get('canon'), tt.get('s') or tt.get('canon'))
                x = x.c[0]
        if bad:
            rep.violation('R17f', bad[0], fn, what, 'the %s length is converted to %s: a vector with 2^%d coordinates reports size 0' % (
                bad[1], bad[2], _int_width(prog.type(bad[0].c[0].j.get('t')) or {}) or 16), key='R17f|%s|narrow' % fn.g)
        else:
            rep.ok('R17f', fn.body, fn, what)
    return n


def _int_width(t):
    c = (t.get('canon') or t.get('s') or '')
    c = c.replace('const ', '').strip()
    table = {'unsigned char': 8, 'signed char': 8, 'char': 8, 'unsigned short': 16, 'short': 16, 'unsigned int': 32, 'int': 32,
             'unsigned long': 64, 'long': 64, 'unsigned long long': 64, 'long long': 64, 'bool': 1}
    return table.get(c)


def run(rep, tier):
    rep.rule('R07u', 'front() / back() of the coordinate list only where it is non-empty (the zero vector is a value)', floor=0)
    rep.rule('R17f', 'size() is as wide as the coordinate list length', floor=1)
    rep.rule('R07d', 'no dereference of a past-the-end iterator in the vector class (reachable from its operations)', floor=0)
    rep.rule('R17a', 'merge action tables of operator+ / operator* and strictness of shortcut guards', floor=3)
    rep.rule('R17b', 'canonical sources of the coordinate list', floor=8)
    rep.rule('R17c', 'compound operators safe under self-aliasing', floor=1)
    tus = [env.witness_tu()]
    if tier == 'thorough':
        tus += env.repo_tus()
    progs = env.extract(tus, 'full')
    rep.saw_programs(progs.values())
    seen = 0
    rep.rule('R17d', 'assignment from empty braces is the zero vector (overload-resolution witness)', floor=1)
    rep.rule('R04f', 'deserialisation (the assignment path of the MPI variants) restores the whole coordinate list on every path', floor=1)
    from . import c04
    rep.rule('R17e', 'no element is skipped by an erase inside an index loop over the coordinate list', floor=0)
    for prog in progs.values():
        seen = max(seen, check_program(rep, prog))
        check_brace_assignment(rep, prog)
        check_erase_in_index_loop(rep, prog)
        check_size_width(rep, prog)
        from . import c07
        c07.r07d(rep, prog, only_files=('spvecgf2',))
        c07.r07u(rep, prog, only_files=('spvecgf2',))
        sub = type(rep)(rep.prop, rep.tier)
        c04.check_wire(sub, prog)
        for i in sub.instances.values():
            if 'SpVecGF2' in i.function:
                rep.add(i.rule, i.site, i.function, i.what, i.status, i.detail, key=i.key)
    if seen < 3:
        rep.analysis_broken('SpVecGF2 operator+ / operator*(SpVecGF2) / operator*(std::set) not all instantiated (%d found)' % seen)
    pos = os.path.join(env.WITNESS, 'positive', 'c17_spvec.cc')
    try:
        pp = env.extract([pos], 'full', ('first:-I' + os.path.join(env.WITNESS, 'positive', 'broken_include'),))[pos]
        prep = type(rep)(rep.prop, rep.tier)
        check_program(prep, pp)
        check_brace_assignment(prep, pp)
        check_erase_in_index_loop(prep, pp)
        for r in ('R17a', 'R17b', 'R17c', 'R17d', 'R17e'):
            rep.positive(r, 'witness/positive/c17_spvec.cc', any(i.status == 'violation' and i.rule == r for i in prep.instances.values()))
    except env.AnalysisBroken as e:
        rep.analysis_broken('positive example c17_spvec.cc does not parse: ' + str(e)[:300])
    rep.assume('meta-theorem (pen and paper, in the rule comment): a two-cursor loop with this action table maps two strictly increasing '
               'lists to the strictly increasing list of their symmetric difference / to the parity of their intersection')
    rep.assume('std::vector copy/move/assignment preserve contents; add() is outside the property\'s operation list')
